#!/usr/bin/env python3
"""Record the parameter lists of every function of /repo/nptdms as of the tree this was run on (the pinned tree plus the
repairs): sa/api_baseline.json.  The checkers read parameters that are NOT in this table and have a constant default as
extensions of the API that are at their default (sa/desugar.py): the properties talk about the behaviour of the existing
interface.  Regenerate only when the baseline interface itself is meant to change."""
import ast, json, os, sys
root = sys.argv[1] if len(sys.argv) > 1 else "/repo"
out = {}
for dp, dn, fn in os.walk(os.path.join(root, "nptdms")):
    dn[:] = [d for d in dn if d not in ("test", "__pycache__")]
    for f in sorted(fn):
        if not f.endswith(".py"):
            continue
        path = os.path.join(dp, f)
        mod = os.path.relpath(path, os.path.join(root, "nptdms"))[:-3].replace(os.sep, ".")
        tree = ast.parse(open(path).read())
        def params(fd):
            a = fd.args
            return [x.arg for x in a.posonlyargs + a.args + a.kwonlyargs] + ([a.vararg.arg] if a.vararg else []) + ([a.kwarg.arg] if a.kwarg else [])
        for n in tree.body:
            if isinstance(n, ast.FunctionDef):
                out["%s.%s" % (mod, n.name)] = params(n)
            elif isinstance(n, ast.ClassDef):
                for m in n.body:
                    if isinstance(m, ast.FunctionDef):
                        out["%s.%s.%s" % (mod, n.name, m.name)] = params(m)
json.dump(out, open("/verif/sa/api_baseline.json", "w"), indent=0, sort_keys=True)
print(len(out), "functions")
