#!/bin/sh
# usage: tools/prop_vs_benign.sh <Cxx> [pattern]  - runs one property's quick check on a scratch copy of every behaviour-preserving
# change in seeded/ (kind: benign) and prints those on which it is not silent.  Scratch copies live in /tmp/rf.
p="$1"; pat="${2:-.}"
mkdir -p /tmp/rf
cd /verif
ls seeded | grep -E '^C[0-9]+[r-z]-' | grep -E "$pat" | xargs -P 16 -I{} sh -c '
d=$(tools/scratch.sh {}) || { echo "{} scratch-failed"; exit 0; }
out=$(SA_REPO=$d SA_EVIDENCE_DIR=$d/_ev ./check '"$p"' 2>&1); rc=$?
[ $rc -ne 0 ] && { echo "{} rc=$rc"; echo "$out" | grep -E "^  violation|ANALYSIS-ERROR|Error" | head -3; }
exit 0'
echo "done $p"
