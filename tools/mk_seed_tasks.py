#!/usr/bin/env python3
"""Generate the task text handed to independent sub-agents that write seeded
property-breaking changes (see DESIGN.md section 6).  Each task contains ONLY the
text of one property plus working instructions; nothing about /verif's checks.
usage: mk_seed_tasks.py <wave-tag> [ids...]   -> /tmp/seedtask/<id><tag>.md
"""
import json, sys, os
tag = sys.argv[1]
ids = set(sys.argv[2:])
TEMPLATE = """# Task: write property-breaking changes for the npTDMS library

You are given one *semantic property* of the Python library npTDMS (reader and writer
for LabVIEW TDMS files).  Your job is to write up to THREE independent source changes
("mutants"), each of which **breaks this property** while the library still imports
and **the whole existing test suite still passes**.

## Where to work
* Your private git worktree of the repository: `{wt}` (already created, clean,
  detached HEAD).  Work ONLY inside it and inside your output directory `{out}`.
* Do NOT read or modify `/repo` or `/verif` (they belong to someone else), do not commit,
  do not create other worktrees.
* Python to use: `/venv/bin/python` (has numpy, pytest; the sandbox has no network).
  When run with the worktree as current directory, `import nptdms` resolves to the
  worktree's copy (check `nptdms.__file__` if in doubt).  NOTE: a script located outside the
  worktree (your demos) imports the installed copy from /repo unless it starts with
  `import sys, os; sys.path.insert(0, os.getcwd())` - start every demo with that line.
* Test suite (must still pass, all 497 tests, with your change applied; ~20 s):
  `cd {wt} && /venv/bin/python -m pytest -q -p no:cacheprovider --timeout=900 -x`
  Do not edit, delete or skip tests: changes go in library code under `nptdms/`
  (not `nptdms/test/`).
* Helpers for building TDMS byte streams exist in `nptdms/test/util.py`
  (`GeneratedFile`, `segment_objects_metadata`, `channel_metadata`, `hexlify_value`, ...)
  and scenarios in `nptdms/test/scenarios.py`; `TdmsWriter` can also produce files.

## The property
```json
{prop}
```

## What kind of change is wanted
* Realistic: something a maintainer could plausibly write during a refactoring,
  optimisation or feature change - not sabotage that obviously stands out, not dead code
  guarded by magic values.
* It must need something *specific* to manifest - an unusual input or type/layout
  combination, a multi-step sequence of operations, a particular interleaving, a failure
  at a particular point, or two cooperating sites that each look fine alone - NOT
  something ordinary use (or the test suite) would expose at once.
* Each of your (up to three) changes should attack a DIFFERENT mechanism or code site
  behind the property.  Quality over quantity: one confirmed change is better than three
  unconfirmed ones.
* The change must violate the property as stated (read the statement carefully, including
  what it says is already broken today - do not merely re-describe an already existing
  defect; the tree you have may already contain repairs for the defects the property text
  calls "today").

## What to deliver (per change N = 1, 2, 3) in `{out}`
* `patch{{N}}.diff` - output of `git -C {wt} diff` with ONLY that change applied
  (reset the worktree with `git -C {wt} checkout -- .` between changes).
* `demo{{N}}.py` - a small standalone program that demonstrates the violation through the
  public behaviour the property talks about: run as
  `cd {wt} && /venv/bin/python {out}/demo{{N}}.py` it must exit 0 and print PASS on the
  UNCHANGED worktree, and exit non-zero (assert failure / printed FAIL) with patch N applied.
* `meta{{N}}.json` - {{"property": "{pid}", "summary": "...what was changed...",
  "needs": "...what is needed for it to manifest...", "files": [...],
  "tests_pass": true, "demo_fails_with_patch": true, "demo_passes_without": true}}
* You MUST actually run, for every change: the full test suite with the patch (passes),
  the demo with the patch (fails), the demo without the patch (passes).  Record honest
  results.  Drop a change you could not confirm.
* Leave the worktree clean (`git checkout -- .`) when you finish.

Finish with a short plain-text summary of the changes you delivered.
"""
os.makedirs('/tmp/seedtask', exist_ok=True)
for line in open('/verif/properties.jsonl'):
    p = json.loads(line)
    pid = p['id']
    if ids and pid not in ids:
        continue
    name = pid + tag
    wt, out = '/tmp/wt/' + name, '/tmp/seedout/' + name
    open('/tmp/seedtask/%s.md' % name, 'w').write(TEMPLATE.format(
        wt=wt, out=out, pid=pid, prop=json.dumps(p, indent=1, ensure_ascii=False)))
    print(name)
