#!/usr/bin/env python3
"""Generate task texts for sub-agents that write BEHAVIOUR-PRESERVING refactorings of the code
behind a property (false-alarm corpus for the checkers).  Contains only the property text.
usage: mk_refactor_tasks.py <wave-tag> [ids...]  -> /tmp/seedtask/<id><tag>.md"""
import json, sys, os
tag = sys.argv[1]
ids = set(sys.argv[2:])
BRIEF_X = """They are used to check that an analysis tool does not raise false alarms on harmless commits, so they
should look like the commits the maintainers of this project will really make over the next two years
**that are not about this property**.  This wave differs from a pure refactoring: behaviour the
property does not speak about MAY change, as long as the property as stated still holds for every input:
* robustness work next to the mechanism: clearer error messages, an earlier and more specific exception
  for arguments that were already rejected (same exception class or a subclass), argument validation
  for values that could never have worked, warnings (`warnings.warn`) for deprecated spellings,
  `__slots__`, `__repr__`/`__str__`, debug logging, timing/statistics counters;
* compatibility work: NumPy 2 spellings (`np.frombuffer`/`np.asarray(..., copy=...)`/`np.dtype(...)` objects
  instead of strings, `astype(..., copy=False)` where the value is fresh anyway), `pathlib.Path`
  accepted where a `str` path was, type annotations and `typing` casts, `from __future__ import annotations`,
  f-strings, `super()` without arguments, `enum.Enum`/`IntEnum`/`IntFlag` for former integer constants
  (with the same numeric values), dataclasses / NamedTuples for former tuples;
* small features that leave every existing call as it is: a new optional parameter whose default is the old
  behaviour, a new method/property that combines existing ones, an iterator variant of a list-returning
  private helper (with the callers adapted), a context-manager wrapper, a `__len__`/`__contains__`/`__iter__`;
* performance work that keeps results identical: avoiding a temporary copy, reading into a preallocated
  buffer, caching an *immutable* derived value keyed by *everything* it depends on, `functools.lru_cache`
  on a pure function of hashable constants, early exit from a search, batching small reads that are
  contiguous anyway, `struct.Struct` objects, local aliases;
* code-health work: splitting a long function, merging duplicated branches, moving a class or helper to
  a new private module (re-exported where it was), replacing a hand-written loop by a library call with the
  same semantics, turning magic numbers into named constants, narrowing a bare `except`, removing dead code.
Each change should touch at least one of the mechanism sites named in the property's anchors, be
non-trivial, and vary in form between your four.  It must not make the property false for ANY input
(including malformed files, big-endian data, empty channels, exceptions raised) - argue that in your note.
"""

TEMPLATE = """# Task: behaviour-preserving refactorings of the npTDMS library

You are given one *semantic property* of the Python library npTDMS (reader and writer for LabVIEW
TDMS files).  The property HOLDS on the current tree.  Your job is to write up to FOUR independent
**behaviour-preserving refactorings** of the code that implements the mechanisms behind this property
(see the property's `anchors`): changes after which the property still holds for every input and the
observable behaviour of the library is unchanged.

They are used to check that an analysis tool does not raise false alarms on harmless edits, so they
should be the kind of edit real maintainers make, and they should be *varied* in form:
* rename locals / parameters / private helpers; reorder independent statements;
* extract a helper function or method, or inline one; move a private helper to another module;
* replace an idiom by an equivalent one (a loop by a comprehension, `enumerate` by a manual counter
  that is advanced on every path, an if/elif chain by early returns, `x is not None` tests reordered,
  a conditional expression by an if statement, `2**31` by `0x80000000`, positional by keyword arguments,
  string formatting style, `dict()` vs `OrderedDict()` where order is preserved either way, ...);
* restructure control flow without changing what happens on any path (merge/split branches,
  try/finally vs context manager, guard clauses);
* add logging, comments, assertions that cannot fail, type checks that only re-state existing behaviour.
Each refactoring should touch at least one of the mechanism sites named in the property's anchors and
be non-trivial (more than a pure comment/whitespace change), but must not change behaviour on ANY
input (including malformed files, big-endian data, empty channels, exceptions raised and their types).

## Where to work
* Your private git worktree of the repository: `{wt}` (already created, clean, detached HEAD).
  Work ONLY inside it and inside your output directory `{out}`.
* Do NOT read or modify `/repo` or `/verif`, do not commit, do not create other worktrees, do not use git stash.
* Python: `/venv/bin/python`.  Test suite (must pass with each refactoring applied; ~20 s):
  `cd {wt} && /venv/bin/python -m pytest -q -p no:cacheprovider --timeout=900 -x`
  Do not edit tests; change library code under `nptdms/` only (not `nptdms/test/`).
* NOTE: a script located outside the worktree imports the installed copy of nptdms from /repo unless it
  starts with `import sys, os; sys.path.insert(0, os.getcwd())` and is run with the worktree as cwd.

## The property
```json
{prop}
```

## What to deliver (per refactoring N = 1..4) in `{out}`
* `patch{{N}}.diff` - `git -C {wt} diff` with ONLY that refactoring applied (reset with
  `git -C {wt} checkout -- .` between refactorings).
* `note{{N}}.json` - {{"property": "{pid}", "summary": "...what was refactored...",
  "why_equivalent": "...argument that behaviour is unchanged on every input...", "files": [...], "tests_pass": true}}
* You MUST run the full test suite with each patch applied and record the honest result.  Where cheap, also
  run a small script comparing old and new behaviour on a few inputs (not required to deliver).
* Leave the worktree clean when you finish.

Finish with a short plain-text summary of the refactorings you delivered.
"""
os.makedirs('/tmp/seedtask', exist_ok=True)
for line in open('/verif/properties.jsonl'):
    p = json.loads(line)
    pid = p['id']
    if ids and pid not in ids:
        continue
    name = pid + tag
    if tag in ('x', 'y'):
        a = TEMPLATE.index('They are used to check'); b = TEMPLATE.index('## Where to work')
        TEMPLATE = TEMPLATE[:a] + BRIEF_X + '\n' + TEMPLATE[b:]
        TEMPLATE = TEMPLATE.replace('**behaviour-preserving refactorings**', '**property-preserving commits**')
    open('/tmp/seedtask/%s.md' % name, 'w').write(TEMPLATE.format(
        wt='/tmp/wt/' + name, out='/tmp/seedout/' + name, pid=pid, prop=json.dumps(p, indent=1, ensure_ascii=False)))
    print(name)
