#!/bin/sh
# usage: tools/scratch.sh <seeded id>  -> prints the path of a scratch copy of /repo's package with seeded/<id>/patch.diff applied
# (scratch copies live under /tmp/rf and are removed with `rm -rf /tmp/rf`)
id="$1"; d=/tmp/rf/$id
if [ ! -d "$d" ]; then
  mkdir -p "$d" && cp -r /repo/nptdms "$d"/ && (cd "$d" && patch -s -p1 < /verif/seeded/$id/patch.diff) || exit 1
fi
echo "$d"
