#!/usr/bin/env python3
"""One-off vendoring of reference tables for rule TB3 (run at build time; the output is committed).

forward: NIST ITS-90 (SRD 60) forward reference functions, transcribed by ast (no import) from
         /venv's thermocouples_reference/source_NIST.py  -> sa/refdata/nist_its90_forward.json
inverse: the NIST inverse (approximate) polynomials as they stand in the pinned tree of /repo
         (no independent offline source exists) -> sa/refdata/nist_its90_inverse_pinned.json.
         A numerical consistency report inverse(forward(T)) is printed here once, as a sanity check of
         the transcription; it is NOT part of any check.
"""
import ast, json, os, sys
sys.path.insert(0, os.path.dirname(os.path.dirname(os.path.abspath(__file__))))

def fold(e):
    if isinstance(e, ast.Constant): return e.value
    if isinstance(e, ast.UnaryOp) and isinstance(e.op, ast.USub): return -fold(e.operand)
    if isinstance(e, ast.List): return [fold(x) for x in e.elts]
    if isinstance(e, ast.Call) and ast.unparse(e.func) == 'np.array': return fold(e.args[0])
    raise ValueError(ast.unparse(e))

def forward_reference(path):
    tree = ast.parse(open(path).read())
    out = {}
    for n in tree.body:
        if isinstance(n, ast.Assign) and ast.unparse(n.targets[0]) == 'thermocouples':
            for k, v in zip(n.value.keys, n.value.values):
                letter = k.value
                pgp = v.args[0]              # Polynomial_Gaussian_Piecewise_Function([...], 'C', 'mV', ...)
                pieces = []
                for piece in pgp.args[0].elts:
                    tmin, tmax, coefs, gauss = [fold(x) for x in piece.elts]
                    pieces.append({"tmin": tmin, "tmax": tmax, "coefficients_ascending": list(reversed(coefs)), "gaussian": gauss})
                out[letter] = pieces
    return out

if __name__ == '__main__':
    import thermocouples_reference  # only to locate the file
    src = os.path.join(os.path.dirname(thermocouples_reference.__file__), 'source_NIST.py')
    fwd = forward_reference(src)
    here = os.path.dirname(os.path.dirname(os.path.abspath(__file__)))
    json.dump({"source": "NIST ITS-90 thermocouple database (SRD 60) as shipped in thermocouples_reference 0.20 source_NIST.py, transcribed by ast",
               "types": fwd}, open(os.path.join(here, 'sa/refdata/nist_its90_forward.json'), 'w'), indent=1)
    from sa.core import Program
    from sa.rules_thermo import extract_tables
    P = Program()
    tabs = extract_tables(P)
    inv = {k: v["inverse"] for k, v in tabs.items()}
    json.dump({"source": "inverse (voltage -> temperature) polynomials of nptdms/thermocouples.py at the pinned tree (/repo commit 6ac5ca4); NIST publishes these "
                         "coefficients in the same database, no independent copy is available offline",
               "types": inv}, open(os.path.join(here, 'sa/refdata/nist_its90_inverse_pinned.json'), 'w'), indent=1)
    # one-off sanity report (not a check): inverse(forward(T)) - T on a coarse grid, own Horner evaluation
    import math
    def horner(c, x):
        r = 0.0
        for a in reversed(c): r = r * x + a
        return r
    for letter, pieces in fwd.items():
        worst = 0.0
        for pc in pieces:
            for i in range(0, 201):
                t = pc["tmin"] + (pc["tmax"] - pc["tmin"]) * i / 200.0
                v = horner(pc["coefficients_ascending"], t)
                if pc["gaussian"]:
                    a0, a1, a2 = pc["gaussian"]; v += a0 * math.exp(a1 * (t - a2) ** 2)
                for ip in inv[letter]:
                    lo = -1e30 if ip["start"] is None else ip["start"]; hi = 1e30 if ip["end"] is None else ip["end"]
                    if lo <= v < hi:
                        worst = max(worst, abs(horner(ip["coefficients"], v) - t)); break
        print("type %s: max |inverse(forward(T)) - T| on grid = %.4f degC" % (letter, worst))
