#!/bin/sh
# All properties on the clean tree (quick tier) + the whole variant/seeded corpus.
# Exit 1 if the clean tree does not hold, or if a corpus entry that was as expected before (not listed in
# notes/corpus_open.txt) is not as expected now.  `tools/precommit.sh --update` rewrites notes/corpus_open.txt.
cd "$(dirname "$0")/.." || exit 2
if [ "$1" = "--update" ] && [ -f /tmp/rf/corpus_now.txt ] && [ "$2" != "--rerun" ]; then
  # reuse the result of the last full run (a run takes a quarter of an hour)
  cp /tmp/rf/corpus_now.txt notes/corpus_open.txt; echo "open corpus entries: $(wc -l < notes/corpus_open.txt)"; exit 0
fi
bad=0
for p in C01 C02 C03 C04 C05 C07 C08 C09 C10 C11 C12 C13 C14 C15 C16 C18 C19 C20; do
  out=$(./check $p 2>&1 | tail -1)
  case "$out" in *HOLDS*) ;; *) echo "$p: $out"; bad=1;; esac
done
./check --selftest 2>&1 > /tmp/rf/selftest.out
egrep "^selftest" /tmp/rf/selftest.out
egrep "^(MISSED|WRONG|analysis-error|FALSE-ALARM|fired-other-rule)" /tmp/rf/selftest.out | awk '{print $2}' | sort > /tmp/rf/corpus_now.txt
if [ "$1" = "--update" ]; then cp /tmp/rf/corpus_now.txt notes/corpus_open.txt; echo "open corpus entries: $(wc -l < notes/corpus_open.txt)"; fi
touch notes/corpus_open.txt
new=$(comm -23 /tmp/rf/corpus_now.txt notes/corpus_open.txt)
fixed=$(comm -13 /tmp/rf/corpus_now.txt notes/corpus_open.txt | wc -l)
[ -n "$new" ] && { echo "NEW corpus failures:"; echo "$new"; bad=1; }
echo "open corpus entries now: $(wc -l < /tmp/rf/corpus_now.txt) (newly as expected: $fixed)"
[ $bad = 0 ] && echo "clean tree: all 18 properties hold; no regression in the corpus" || { echo "PRECOMMIT FAILED"; exit 1; }
