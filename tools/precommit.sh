#!/bin/sh
# all properties on the clean tree (quick tier) + the variant/seeded corpus; exit 1 unless everything is as expected
cd /verif
bad=0
for p in C01 C02 C03 C04 C05 C07 C08 C09 C10 C11 C12 C13 C14 C15 C16 C18 C19 C20; do
  out=$(./check $p 2>&1 | tail -1)
  case "$out" in *HOLDS*) ;; *) echo "$p: $out"; bad=1;; esac
done
st=$(./check --selftest 2>&1 | egrep "^(MISSED|WRONG|analysis|ANALYSIS)")
[ -n "$st" ] && { echo "$st"; bad=1; }
./check --selftest 2>&1 | egrep "^selftest"
[ $bad = 0 ] && echo "clean tree: all 18 properties hold; no missed variant" || { echo "PRECOMMIT FAILED"; exit 1; }
