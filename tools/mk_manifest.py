#!/usr/bin/env python3
"""Regenerate /verif/MANIFEST.json from sa/propspec.py (claimed properties) and the N/A table below."""
import json, os, sys
sys.path.insert(0, os.path.dirname(os.path.dirname(os.path.abspath(__file__))))
from sa.propspec import PROPERTIES, LEVEL_TEXT, NOT_APPLICABLE, TECHNIQUE

checks = []
for pid in sorted(PROPERTIES):
    spec = PROPERTIES[pid]
    checks.append({
        "property_id": pid,
        "quick_cmd": "./check %s --tier quick" % pid,
        "thorough_cmd": "./check %s --tier thorough" % pid,
        "evidence_file": "/verif/evidence/%s.json" % pid,
        "replay_cmd_template": "./check %s --explain {path}" % pid,
        "engine": "sa",
        "level_claimed": {
            "category": "other",
            "text": LEVEL_TEXT[pid],
            "design_ref": "DESIGN.md section 4, %s" % pid,
        },
        "level_note": "Decided from source only (ast of /repo's working tree; nothing is imported or run). "
                      "Trusted: CPython ast, the engine's CFG/MRO/call resolution, the frozen reviewed tables printed in the "
                      "evidence, NumPy/struct used as oracles for their own rules. NOT decided: " + "; ".join(spec["not_decided"]),
        "technique": TECHNIQUE.get(pid, "static analysis (custom AST/CFG/dataflow rules)"),
    })
na = [{"property_id": pid, "reason": reason} for pid, reason in sorted(NOT_APPLICABLE.items()) if pid not in PROPERTIES]
manifest = {
    "version": 1,
    "setup_cmd": "true",
    "hooks": {
        "guard": "NPTDMS_VERIF",
        "enable": "no hooks: the analysis is source-only, nothing in /repo is instrumented",
        "baseline_off_cmd": "cd /repo && /venv/bin/python -m pytest -ra -q -p no:cacheprovider --timeout=900 --continue-on-collection-errors",
        "source_commits": [],
        "add_only": True,
    },
    "engines": [{
        "name": "sa",
        "path": "/verif/sa",
        "serves_properties": sorted(PROPERTIES),
        "kind_free_text": "repository-specific static analyser: ast loader, resolved program model (MRO, registries, call graph), "
                          "statement-level CFGs with exceptional edges, small abstract interpreters (alias, cursor typestate, dtype, "
                          "numeric kind, coordinate space, taint), rule families per DESIGN.md",
    }],
    "checks": checks,
    "not_applicable": na,
    "notes": "All checks are static analyses of /repo's current source (technique family: static analysis). "
             "Exit 0 = every decided rule instance ok (KNOWN-FINDING lines for listed findings), exit 1 = VIOLATION line(s), "
             "exit 2 = ANALYSIS-ERROR (vanished anchor, instance floor unmet, internal error): the check cannot vouch for the code. "
             "./check --selftest runs the variant corpus and the seeded changes (not part of any property check).",
}
json.dump(manifest, open(os.path.join(os.path.dirname(os.path.dirname(os.path.abspath(__file__))), "MANIFEST.json"), "w"), indent=1)
print("MANIFEST.json: %d checks, %d not_applicable" % (len(checks), len(na)))
