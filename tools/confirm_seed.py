#!/usr/bin/env python3
"""Confirm seeded changes delivered by a sub-agent and file them under /verif/seeded/.
usage: confirm_seed.py <name e.g. C05a> [...]
For each /tmp/seedout/<name>/patchN.diff: in the agent's own scratch worktree /tmp/wt/<name>
(reset to clean first) apply the patch, run the full unedited test suite (must pass), run demoN.py
(must fail), undo the patch, run demoN.py again (must pass).  Only then is the change kept as
/verif/seeded/<name>-<N>/{patch.diff,demo.py,meta.json}."""
import json, os, shutil, subprocess, sys

def sh(cmd, cwd=None, timeout=1800):
    p = subprocess.run(cmd, shell=True, cwd=cwd, capture_output=True, text=True, timeout=timeout)
    return p.returncode, (p.stdout + p.stderr)

def confirm(name):
    wt, out = "/tmp/wt/" + name, "/tmp/seedout/" + name
    res = []
    for n in (1, 2, 3, 4):
        patch, demo, meta = (os.path.join(out, f % n) for f in ("patch%d.diff", "demo%d.py", "meta%d.json"))
        if not (os.path.exists(patch) and os.path.exists(demo)):
            continue
        sh("git checkout -- . && git clean -fdq", cwd=wt)
        rc, o = sh("git apply --check %s" % patch, cwd=wt)
        if rc != 0:
            res.append((n, "patch does not apply: " + o[:200])); continue
        rc0, o0 = sh("/venv/bin/python %s" % demo, cwd=wt, timeout=600)
        sh("git apply %s" % patch, cwd=wt)
        rc_t, o_t = sh("/venv/bin/python -m pytest -q -p no:cacheprovider --timeout=900 -x 2>&1 | tail -3", cwd=wt)
        tests_ok = " passed" in o_t and "failed" not in o_t and "error" not in o_t.lower()
        rc1, o1 = sh("/venv/bin/python %s" % demo, cwd=wt, timeout=600)
        sh("git checkout -- . && git clean -fdq", cwd=wt)
        uses_wt = ("sys.path.insert" in open(demo).read())
        verdict = (rc0 == 0 and tests_ok and rc1 != 0)
        info = dict(name=name, n=n, demo_clean_rc=rc0, tests=o_t.strip().splitlines()[-1] if o_t.strip() else "", demo_patched_rc=rc1,
                    demo_inserts_cwd=uses_wt, confirmed=verdict, patched_tail=o1.strip()[-300:])
        if verdict:
            d = "/verif/seeded/%s-%d" % (name, n)
            os.makedirs(d, exist_ok=True)
            shutil.copy(patch, os.path.join(d, "patch.diff"))
            shutil.copy(demo, os.path.join(d, "demo.py"))
            m = json.load(open(meta)) if os.path.exists(meta) else {}
            m.setdefault("property", name[:3])
            m["confirmed_by_main"] = {
                "ran": ["git apply patch.diff (scratch worktree of /repo HEAD)",
                        "/venv/bin/python -m pytest -q -p no:cacheprovider --timeout=900 -x  -> " + info["tests"],
                        "demo.py with patch -> exit %d" % rc1, "demo.py without patch -> exit %d" % rc0],
            }
            json.dump(m, open(os.path.join(d, "meta.json"), "w"), indent=1)
        res.append((n, info))
    return res

if __name__ == "__main__":
    for name in sys.argv[1:]:
        for n, info in confirm(name):
            print(name, n, json.dumps(info) if isinstance(info, dict) else info, flush=True)
