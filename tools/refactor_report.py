#!/usr/bin/env python3
"""Run every check on every benign refactoring in /verif/seeded and summarise false alarms by rule.
usage: refactor_report.py [--rule RULE] [--only SUBSTR]"""
import sys, os, json, collections
sys.path.insert(0, os.path.dirname(os.path.dirname(os.path.abspath(__file__))))
from concurrent.futures import ThreadPoolExecutor
from sa import selftest
rule = sys.argv[sys.argv.index("--rule") + 1] if "--rule" in sys.argv else None
only = sys.argv[sys.argv.index("--only") + 1] if "--only" in sys.argv else None
vs = [v for v in selftest.load_seeded() if v.get("kind") == "benign" and (not only or only in v["id"])]
with ThreadPoolExecutor(max_workers=16) as ex:
    res = list(ex.map(selftest.run_variant, vs))
viol = collections.Counter(); err = collections.Counter(); lines = {}
clean = 0
for r in res:
    vid = r["v"]["id"].split("/")[1]
    bad = False
    for f in r.get("fired", []):
        rl = f.split(" ")[1]
        k = (rl, vid, f.split(" :: ", 1)[1][:200])
        if k not in lines:
            viol[rl] += 1
            lines[k] = True
        bad = True
    for prop, text in r.get("out", {}).items():
        for line in text.splitlines():
            if "ANALYSIS-ERROR" in line:
                msg = line.split("ANALYSIS-ERROR", 1)[1].split(" ", 2)[2][:150]
                k = ("ERR", vid, msg)
                if k not in lines:
                    err[msg[:90]] += 1
                    lines[k] = True
                bad = True
    clean += (not bad)
print("%d benign refactorings, %d leave every check silent" % (len(res), clean))
print("violations by rule:", dict(viol.most_common()))
print("analysis errors:", sum(err.values()))
for k in sorted(lines):
    if rule is None or k[0] == rule or (rule == "ERR" and k[0] == "ERR"):
        if rule is not None or only is not None:
            print("  %-5s %-8s %s" % k)
