#!/bin/sh
# usage: tools/try_refactor.sh <seeded id substring> [props...]  -> shows violations/errors of every check on that variant
cd /verif && ./check --selftest --seeded-only --only "$1" -v 2>&1 | egrep "fired|ANALYSIS|^ok|^FALSE|^analysis" | cut -c1-330
