#!/usr/bin/env python3
"""File behaviour-preserving refactorings delivered by a sub-agent under /verif/seeded/<name>-N (kind=benign)
after re-running the unedited test suite with the patch applied in the agent's scratch worktree.
usage: confirm_refactor.py <name e.g. C05r> [...]"""
import json, os, shutil, subprocess, sys

def sh(cmd, cwd=None, timeout=1800):
    p = subprocess.run(cmd, shell=True, cwd=cwd, capture_output=True, text=True, timeout=timeout)
    return p.returncode, (p.stdout + p.stderr)

for name in sys.argv[1:]:
    wt, out = "/tmp/wt/" + name, "/tmp/seedout/" + name
    for n in range(1, 6):
        patch, note = os.path.join(out, "patch%d.diff" % n), os.path.join(out, "note%d.json" % n)
        if not os.path.exists(patch):
            continue
        sh("git checkout -- . && git clean -fdq", cwd=wt)
        rc, o = sh("git apply --check %s" % patch, cwd=wt)
        if rc != 0:
            print(name, n, "patch does not apply", o[:200]); continue
        sh("git apply %s" % patch, cwd=wt)
        rc_t, o_t = sh("/venv/bin/python -m pytest -q -p no:cacheprovider --timeout=900 -x 2>&1 | tail -3", cwd=wt)
        sh("git checkout -- . && git clean -fdq", cwd=wt)
        ok = " passed" in o_t and "failed" not in o_t and "error" not in o_t.lower()
        last = o_t.strip().splitlines()[-1] if o_t.strip() else ""
        print(name, n, "tests:", last, "->", "kept" if ok else "DROPPED", flush=True)
        if not ok:
            continue
        d = "/verif/seeded/%s-%d" % (name, n)
        os.makedirs(d, exist_ok=True)
        shutil.copy(patch, os.path.join(d, "patch.diff"))
        m = json.load(open(note)) if os.path.exists(note) else {}
        m.setdefault("property", name[:3])
        m["kind"] = "benign"
        m["confirmed_by_main"] = {"ran": ["git apply patch.diff (scratch worktree of /repo HEAD)",
                                          "/venv/bin/python -m pytest -q -p no:cacheprovider --timeout=900 -x -> " + last]}
        json.dump(m, open(os.path.join(d, "meta.json"), "w"), indent=1)
