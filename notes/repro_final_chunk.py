import sys, os, struct, io
import numpy as np
from nptdms import TdmsFile
from nptdms.test.util import GeneratedFile, segment_objects_metadata, channel_metadata, hexlify_value

def build():
    f = GeneratedFile()
    # two int32 channels, 4 values per chunk each; raw data: A4 B4 A4 B4 A2 (truncated), lead-in with unknown length marker
    meta = segment_objects_metadata(
        channel_metadata("/'g'/'a'", 3, 4),
        channel_metadata("/'g'/'b'", 3, 4))
    data = b"".join(struct.pack("<i", v) for v in
                    [1,2,3,4, 11,12,13,14, 5,6,7,8, 15,16,17,18, 9,10])
    f.add_segment(("kTocMetaData", "kTocRawData", "kTocNewObjList"), meta, data.hex(), incomplete=True)
    return f

tf = build()
with tf.get_tempfile() as tmp:
    full = TdmsFile.read(tmp.file)
    fa, fb = full["g"]["a"][:], full["g"]["b"][:]
    print("eager a", fa, "b", fb)
    tmp.file.seek(0)
    with TdmsFile.open(tmp.file) as lazy:
        b = lazy["g"]["b"]
        print("len b", len(b))
        bad = 0
        for off in range(len(fb) + 1):
            for ln in range(0, len(fb) - off + 1):
                try:
                    got = b.read_data(off, ln)
                    if not np.array_equal(got, fb[off:off + ln]):
                        bad += 1; print("MISMATCH", off, ln, got, fb[off:off+ln])
                except Exception as e:
                    bad += 1; print("RAISED", off, ln, type(e).__name__, str(e)[:80])
        print("FAIL" if bad else "PASS", bad)
        sys.exit(1 if bad else 0)
