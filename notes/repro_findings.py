"""Design-phase notes: concrete reproductions of the defects that the static
rules of DESIGN.md section 5 are expected to report on the pinned tree.

NOT a check and not registered in MANIFEST.json: the deciding step of every
check is source analysis.  This script only documents, for each finding, the
failing input against the real code (the brief asks for that before a finding
may be called genuine).  Run:  /venv/bin/python /verif/notes/repro_findings.py
"""
import io
import logging
import struct

import numpy as np

from nptdms import TdmsFile, TdmsWriter, ChannelObject, types
from nptdms.log import log_manager
from nptdms.test.util import (
    GeneratedFile, segment_objects_metadata, root_metadata, group_metadata,
    channel_metadata, channel_metadata_with_no_data)

log_manager.set_level(logging.CRITICAL)
TOC = ("kTocMetaData", "kTocRawData", "kTocNewObjList")


def attempt(name, fn):
    try:
        print("%-28s -> %s" % (name, fn()))
    except Exception as e:  # noqa
        print("%-28s RAISED %s: %s" % (name, type(e).__name__, e))


def td1_interleaved_complex():  # C01
    f = GeneratedFile()
    md = segment_objects_metadata(
        root_metadata(), group_metadata(),
        channel_metadata("/'Group'/'C1'", 0x08000c, 2), channel_metadata("/'Group'/'C2'", 0x08000c, 2))
    f.add_segment(TOC + ("kTocInterleavedData",), md, struct.pack('<8f', *range(8)), binary_data=True)
    return f.load()['Group']['C1'][:]


def ts1_no_type_channel():  # C03
    f = GeneratedFile()
    md = segment_objects_metadata(root_metadata(), group_metadata(), channel_metadata_with_no_data("/'Group'/'C1'"))
    f.add_segment(("kTocMetaData", "kTocNewObjList"), md, "")
    c = f.load()['Group']['C1']
    out = [repr(c[:])]
    for label, fn in (("read_data", c.read_data), ("iter", lambda: list(c))):
        try:
            out.append("%s=%r" % (label, fn()))
        except Exception as e:  # noqa
            out.append("%s raised %s" % (label, type(e).__name__))
    return out


def cs1_window_overrun():  # C04
    f = GeneratedFile()
    md1 = segment_objects_metadata(root_metadata(), group_metadata(), channel_metadata("/'Group'/'C1'", 3, 2))
    f.add_segment(TOC, md1, struct.pack('<2i', 1, 2), binary_data=True)
    md2 = segment_objects_metadata(channel_metadata("/'Group'/'C2'", 3, 2))
    f.add_segment(TOC, md2, struct.pack('<2i', 100, 101), binary_data=True)
    md3 = segment_objects_metadata(channel_metadata("/'Group'/'C1'", 3, 2))
    f.add_segment(TOC, md3, struct.pack('<6i', 3, 4, 5, 6, 7, 8), binary_data=True)
    with TdmsFile.open(f.get_bytes_io_file()) as t:
        chunks = t._reader.read_raw_data_for_channel("/'Group'/'C1'", 0, 3)
        return "window (0,3) yields %s" % [list(map(int, c.data)) for c in chunks]


def ct1_file_stream_interleaved():  # C05
    f = GeneratedFile()
    md1 = segment_objects_metadata(root_metadata(), group_metadata(), channel_metadata("/'Group'/'C1'", 3, 2))
    f.add_segment(TOC, md1, struct.pack('<8i', *range(8)), binary_data=True)
    with TdmsFile.open(f.get_bytes_io_file()) as t:
        c = t['Group']['C1']
        out = []
        for ch in t.data_chunks():
            out.append([int(x) for x in ch['Group']['C1'][:]])
            c[7]
        return out


def nk1_timestamp_roundtrip():  # C07 / C12
    bad = 0
    sample = range(0, 1000000, 997)
    for us in sample:
        v = np.datetime64('2020-01-01T00:00:16', 'us') + np.timedelta64(us, 'us')
        back = types.TimeStamp.read(io.BytesIO(types.TimeStamp(v).bytes)).as_datetime64()
        bad += back != v
    return "%d of %d sampled microsecond values do not round-trip" % (bad, len(sample))


def bl5b_string_index_length():  # C08
    b = io.BytesIO()
    with TdmsWriter(b) as w:
        w.write_segment([ChannelObject('g', 'c', np.array(['ab', 'c'], dtype=object))])
    raw = b.getvalue()
    i = raw.find(b"/'g'/'c'")
    return "length field %d, bytes in the index %d" % (struct.unpack('<L', raw[i + 8:i + 12])[0], 28)


def nc1_index_only_unknown_length():  # C09
    f = GeneratedFile()
    md1 = segment_objects_metadata(root_metadata(), group_metadata(), channel_metadata("/'Group'/'C1'", 3, 2))
    f.add_segment(TOC, md1, struct.pack('<2i', 1, 2), binary_data=True, incomplete=True)
    return len(TdmsFile.read_metadata(io.BytesIO(f._get_index_contents()))['Group']['C1'])


def td2_defragment_empty_timestamp():  # C10
    f = GeneratedFile()
    md = segment_objects_metadata(root_metadata(), group_metadata(), channel_metadata("/'Group'/'C1'", 0x44, 0))
    f.add_segment(TOC, md, "")
    out = io.BytesIO()
    TdmsWriter.defragment(f.get_bytes_io_file(), out)
    return len(out.getvalue())


def ts1_defragment_no_type():  # C10
    f = GeneratedFile()
    md = segment_objects_metadata(root_metadata(), group_metadata(), channel_metadata_with_no_data("/'Group'/'C1'"))
    f.add_segment(("kTocMetaData", "kTocNewObjList"), md, "")
    out = io.BytesIO()
    TdmsWriter.defragment(f.get_bytes_io_file(), out)
    return len(out.getvalue())


def dt1_float32_linear():  # C14
    b = io.BytesIO()
    with TdmsWriter(b) as w:
        w.write_segment([ChannelObject('g', 'c', np.arange(4, dtype=np.float32), {
            'NI_Number_Of_Scales': 1, 'NI_Scale[0]_Scale_Type': 'Linear',
            'NI_Scale[0]_Linear_Slope': 2.0, 'NI_Scale[0]_Linear_Y_Intercept': 1.0,
            'NI_Scale[0]_Linear_Input_Source': types.Uint32(0xFFFFFFFF)})])
    b.seek(0)
    c = TdmsFile.read(b)['g']['c']
    return "declared %s, returned %s" % (c.dtype, c[:].dtype)


def dt4_big_endian_chunk_dtype():  # C14
    with TdmsFile.open('/repo/nptdms/test/data/big_endian.tdms') as t:
        ch = t.groups()[0].channels()[0]
        chunk = next(iter(ch.data_chunks()))
        return "declared %s, chunk %s, equal=%s" % (ch.dtype, chunk[:].dtype, ch.dtype == chunk[:].dtype)


def dl1_int8_digital_line():  # C11 (before fix a7d2267: OverflowError; after: [1 0 1 0])
    from nptdms.test.test_daqmx import digital_scaler_metadata, daqmx_channel_metadata, segment_toc
    scaler = digital_scaler_metadata(0, 1, 7)          # scale id 0, DAQmx type id 1 = Int8, line = bit 7
    md = segment_objects_metadata(root_metadata(), group_metadata(),
                                  daqmx_channel_metadata("Channel1", 4, [4], [scaler], digital_line_scaler=True))
    f = GeneratedFile()
    f.add_segment(segment_toc(), md, "80 00 00 00" "00 00 00 00" "80 00 00 00" "7F 00 00 00")
    return f.load()["Group"]["Channel1"].raw_data


if __name__ == "__main__":
    for fn in (td1_interleaved_complex, ts1_no_type_channel, cs1_window_overrun, ct1_file_stream_interleaved,
               nk1_timestamp_roundtrip, bl5b_string_index_length, nc1_index_only_unknown_length,
               td2_defragment_empty_timestamp, ts1_defragment_no_type, dt1_float32_linear,
               dt4_big_endian_chunk_dtype, dl1_int8_digital_line):
        attempt(fn.__name__, fn)
