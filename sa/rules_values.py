"""DTA decision-table analysis, IS1 isinstance chain, NK1 exact-integer fields not routed through float,
NK2 scalar/array conversion siblings, TBf fraction table constants, TT1 time track siblings (C07, C12)."""
import ast
import math
from fractions import Fraction

from .registry import rule
from .core import call_name, dotted, walk_shallow, walk_body, unparse, AnchorMissing

INT_RANGES = {"Int8": (-2**7, 2**7 - 1), "Int16": (-2**15, 2**15 - 1), "Int32": (-2**31, 2**31 - 1), "Int64": (-2**63, 2**63 - 1),
              "Uint8": (0, 2**8 - 1), "Uint16": (0, 2**16 - 1), "Uint32": (0, 2**32 - 1), "Uint64": (0, 2**64 - 1),
              "int8": (-2**7, 2**7 - 1), "int16": (-2**15, 2**15 - 1), "int32": (-2**31, 2**31 - 1), "int64": (-2**63, 2**63 - 1),
              "uint8": (0, 2**8 - 1), "uint16": (0, 2**16 - 1), "uint32": (0, 2**32 - 1), "uint64": (0, 2**64 - 1)}


class _NoDecision(Exception):
    pass


def _eval_cond(prog, mod, e, env):
    """Own evaluator of comparison chains over integer-valued names (the function is not executed)."""
    if isinstance(e, ast.BoolOp):
        vals = [_eval_cond(prog, mod, v, env) for v in e.values]
        return all(vals) if isinstance(e.op, ast.And) else any(vals)
    if isinstance(e, ast.UnaryOp) and isinstance(e.op, ast.Not):
        return not _eval_cond(prog, mod, e.operand, env)
    if isinstance(e, ast.Compare):
        left = _eval_num(prog, mod, e.left, env)
        for op, c in zip(e.ops, e.comparators):
            right = _eval_num(prog, mod, c, env)
            ok = {ast.Lt: left < right, ast.LtE: left <= right, ast.Gt: left > right, ast.GtE: left >= right,
                  ast.Eq: left == right, ast.NotEq: left != right}.get(type(op))
            if ok is None:
                raise _NoDecision()
            if not ok:
                return False
            left = right
        return True
    raise _NoDecision()


def _eval_num(prog, mod, e, env):
    if isinstance(e, ast.Name) and e.id in env:
        return env[e.id]
    v = prog.try_fold(e, mod, env={k: v for k, v in env.items()})
    if isinstance(v, (int, float)) and not isinstance(v, bool):
        return v
    raise _NoDecision()


def _chain_result(prog, mod, stmts, env):
    """Walk an if/elif/return chain; -> the Return node's value expression taken for `env`."""
    for s in stmts:
        if isinstance(s, ast.If):
            if _eval_cond(prog, mod, s.test, env):
                r = _chain_result(prog, mod, s.body, env)
                if r is not None:
                    return r
            else:
                r = _chain_result(prog, mod, s.orelse, env)
                if r is not None:
                    return r
        elif isinstance(s, ast.Return):
            return s.value
        elif isinstance(s, (ast.Expr, ast.Pass)):
            continue
        elif isinstance(s, ast.Assign) and len(s.targets) == 1 and isinstance(s.targets[0], ast.Name):
            # a local computed from the value by constant arithmetic (e.g. its bit length)
            env = dict(env)
            env[s.targets[0].id] = _eval_num(prog, mod, s.value, env)
        else:
            raise _NoDecision()
    return None


def _constants_in(prog, mod, node):
    out = set()
    for n in ast.walk(node):
        if isinstance(n, ast.Compare):
            for c in [n.left] + list(n.comparators):
                v = prog.try_fold(c, mod)
                if isinstance(v, int) and not isinstance(v, bool):
                    out.add(v)
    return out


@rule("DTA", "integer property values and integer lists are mapped to a type that can represent them (decision-table analysis)", floor=10)
def dta(ctx, R):
    prog = ctx.prog
    wmod = prog.module("writer")
    # --- to_int_property_value
    fi = prog.func("writer.to_int_property_value")
    p = fi.params[0]
    consts = _constants_in(prog, wmod, fi.node)
    if not consts:
        raise AnchorMissing("writer.to_int_property_value: magnitude thresholds")
    points = {-2**63, 2**64 - 1, 0, -1, 1}
    for c in consts:
        points |= {c - 1, c, c + 1}
    # the boundaries of the types themselves are always examined, whatever constants the function is written with
    for lo_, hi_ in INT_RANGES.values():
        points |= {lo_ - 1, lo_, lo_ + 1, hi_ - 1, hi_, hi_ + 1}
    points = sorted(x for x in points if -2**63 <= x <= 2**64 - 1)
    order = ["Int32", "Int64", "Uint64"]
    cells_bad = []
    for x in points:
        try:
            rv = _chain_result(prog, wmod, fi.node.body, {p: x})
        except _NoDecision:
            R.undecided("writer.to_int_property_value::%d" % x, fi.where(), "chain not understood")
            continue
        cname = rv.func.id if isinstance(rv, ast.Call) and isinstance(rv.func, ast.Name) else None
        want = next((t for t in order if INT_RANGES[t][0] <= x <= INT_RANGES[t][1]), None)
        key = "writer.to_int_property_value::value=%s" % (x if abs(x) < 10 else ("2**%d%+d" % (round(math.log2(abs(x) + 1)) if x > 0 else round(math.log2(abs(x))), 0) if False else x))
        if cname not in INT_RANGES:
            R.undecided(key, fi.where(), "result `%s` is not a known integer type" % (unparse(rv) if rv is not None else None))
            continue
        lo, hi = INT_RANGES[cname]
        if not (lo <= x <= hi):
            R.violation(key, fi.where(), "the value %d is stored as %s, whose range is [%d, %d]: the accepted value cannot be represented (struct.error or wrap)" % (x, cname, lo, hi))
        elif cname != want:
            R.violation(key, fi.where(), "the value %d is stored as %s although the property types are chosen by magnitude (%s expected)" % (x, cname, want))
        else:
            R.ok(key, fi.where(), "%s" % cname)
    # --- _infer_dtype over (max, min)
    try:
        fi = prog.func("writer._infer_dtype")
    except AnchorMissing:
        # renamed / moved: the one function that takes max(...) and min(...) of its argument and tests isinstance(..., int)
        cands = [f for f in prog.functions.values() if f.module.name in ("writer", "types") and f.params and
                 {"max", "min"} <= {call_name(c) for c in walk_body(f.node) if isinstance(c, ast.Call)} and
                 any(isinstance(c, ast.Call) and call_name(c) == "isinstance" for c in walk_body(f.node))]
        if len(cands) != 1:
            R.unrecognised("writer._infer_dtype::decision table", wmod.relpath, "the function that picks an integer dtype from the extremes of a list was not recognised")
            return
        fi = cands[0]
    body = None
    for s in fi.node.body:
        if isinstance(s, ast.If) and "isinstance" in unparse(s.test):
            body = s.body
    if body is None:
        raise AnchorMissing("writer._infer_dtype: integer branch")
    if any(not isinstance(s, (ast.Assign, ast.If, ast.Return, ast.Expr)) for s in body):
        R.unrecognised("writer._infer_dtype::decision table", fi.where(), "the integer branch is not a chain of comparisons written out in the function "
                       "(it contains `%s ...`): the dtype thresholds are not decided" % unparse([s for s in body if not isinstance(s, (ast.Assign, ast.If, ast.Return, ast.Expr))][0]).splitlines()[0][:60])
        return
    consts = _constants_in(prog, wmod, fi.node)
    pts = {-2**63, 2**64 - 1, 0, -1, 1}
    for c in consts:
        pts |= {c - 1, c, c + 1}
    pts = sorted(x for x in pts if -2**63 <= x <= 2**64 - 1)
    chain = [s for s in body if isinstance(s, ast.If)]
    if not chain or not consts:
        R.unrecognised("writer._infer_dtype::decision table", fi.where(), "the integer branch is not a chain of comparisons with constants written in the "
                       "function (%d tests, %d constants): the dtype thresholds are not decided" % (len(chain), len(consts)))
        return
    n_cells = n_rej = 0
    bad = {}
    for mx in pts:
        for mn in pts:
            if mn > mx:
                continue
            n_cells += 1
            try:
                rv = _chain_result(prog, wmod, chain, {"max_value": mx, "min_value": mn})
            except _NoDecision:
                continue
            dt = None
            if isinstance(rv, ast.Call) and call_name(rv) in ("np.dtype", "numpy.dtype") and rv.args:
                dt = prog.try_fold(rv.args[0], wmod)
            if dt not in INT_RANGES:
                continue
            lo, hi = INT_RANGES[dt]
            representable = any(r[0] <= mn and mx <= r[1] for r in INT_RANGES.values())
            if not (lo <= mn and mx <= hi):
                if not representable:
                    n_rej += 1          # no integer dtype holds the list: NumPy rejects it (OverflowError), not an accepted call
                    continue
                # NumPy >= 2 raises OverflowError for out-of-range Python ints: the call is rejected, not silently wrong
                bad.setdefault(dt, []).append((mn, mx))
    for dt, cells in sorted(bad.items()):
        R.note("_infer_dtype picks %s for %d (min,max) cells it cannot hold, e.g. min=%d max=%d; with NumPy >= 2 np.array raises OverflowError there "
               "(rejected input, not an accepted call)" % (dt, len(cells), cells[0][0], cells[0][1]))
    # what must hold: whenever the chosen dtype is used it can hold [min, max]  OR numpy rejects; and boundaries are on powers of two
    expected_thresholds = {2**7, 2**8, 2**15, 2**16, 2**31, 2**32, 2**63}
    got = {abs(c) for c in consts if abs(c) > 1}
    R.check(got == expected_thresholds, "writer._infer_dtype::thresholds", fi.where(), "thresholds are exactly the integer type boundaries %s" % sorted(got),
            "integer dtype thresholds are %s (expected the type boundaries 2**7, 2**8, 2**15, 2**16, 2**31, 2**32, 2**63): lists with values between "
            "a shifted threshold and the real boundary get a dtype that cannot hold them" % sorted(got))
    # non-negative lists: every cell with min >= 0 must be representable by the chosen dtype
    nn_bad = [(dt, c) for dt, cells in bad.items() for c in cells if c[0] >= 0]
    R.check(not nn_bad, "writer._infer_dtype::non-negative lists", fi.where(), "%d (min,max) cells evaluated, every non-negative list gets a dtype that holds it" % n_cells,
            "a list with min=%d max=%d gets dtype %s, which cannot hold it" % ((nn_bad[0][1][0], nn_bad[0][1][1], nn_bad[0][0]) if nn_bad else (0, 0, "")))
    neg_bad = [(dt, c) for dt, cells in bad.items() for c in cells if c[0] < 0 and not dt.startswith("int")]
    R.check(not neg_bad, "writer._infer_dtype::negative values never get an unsigned dtype", fi.where(), "signed dtypes for lists with negative values",
            "a list with a negative value gets the unsigned dtype %s" % (neg_bad[0][0] if neg_bad else ""))


@rule("IS1", "property values are dispatched to the TDMS type of their Python type (no shadowed isinstance test)", floor=9)
def is1(ctx, R):
    """The dispatcher is put in normal form and evaluated for a value of each Python type: every isinstance test is answered with
    Python's / NumPy's own subclass relation (bool is an int, numpy.float64 is a float and a numpy.number, ...), so a test that
    shadows a later one shows up as the wrong result for that type, whatever the order or grouping of the tests."""
    import datetime as _dt
    import numpy as np
    from .sym import Sym, eval_cond, show, alpha
    from .sem import leaves, match, W, find
    prog = ctx.prog
    fi = prog.func("writer._to_tdms_value")
    P = ("param", fi.params[0])
    v = Sym(prog, fi, None, stack=("writer.to_int_property_value",)).function_value()
    if v[0] == "opaque" or len(find(v, ("call", "isinstance", W(), W()))) < 5:
        raise AnchorMissing("writer._to_tdms_value: isinstance chain (found %d tests)" % len(find(v, ("call", "isinstance", W(), W()))))

    class _TdmsType(object):
        pass

    class _Int32(_TdmsType):
        pass

    class _TdmsTimestamp(object):
        pass

    def pyclass(x):
        """Python class denoted by a canonical class reference"""
        if x[0] == "class":
            return {"types.TdmsType": _TdmsType, "timestamp.TdmsTimestamp": _TdmsTimestamp}.get(x[1], type("Other_" + x[1], (), {}))
        if x[0] == "ext" and x[1].startswith("numpy."):
            return getattr(np, x[1].split(".", 1)[1], None)
        if x[0] in ("name", "global", "ext"):
            nm = x[1].split(".")[-1]
            if nm in ("datetime",):
                return _dt.datetime
            import builtins
            return getattr(builtins, nm, None)
        return None
    types_ = [("bool", bool, ("new", "types.Boolean")), ("numpy.bool_", np.bool_, ("new", "types.Boolean")), ("int", int, ("call", "writer.to_int_property_value")),
              ("float", float, ("new", "types.DoubleFloat")), ("datetime", _dt.datetime, ("new", "types.TimeStamp")),
              ("numpy.datetime64", np.datetime64, ("new", "types.TimeStamp")), ("TdmsTimestamp", _TdmsTimestamp, "itself"), ("str", str, ("new", "types.String")),
              ("bytes", bytes, ("new", "types.String")), ("TdmsType", _Int32, "itself"), ("numpy.int16", np.int16, "numpy table"), ("numpy.float64", np.float64, "numpy table")]
    for tname, T, want in types_:
        def orc(c, T=T):
            if isinstance(c, tuple) and c and c[0] == "call" and c[1] == "isinstance" and len(c[2]) == 2 and c[2][0] == P:
                t = c[2][1]
                cands = [pyclass(x) for x in (t[1] if t[0] == "tuple" else [t])]
                if any(k is None for k in cands):
                    return None
                return any(issubclass(T, k) for k in cands)
            return None
        outs = []
        unknown = False
        for conds, leaf in leaves(v):
            vals = [eval_cond(c, orc) for c in conds]
            if any(x is False for x in vals):
                continue
            if any(x is None for x in vals):
                unknown = True
            outs.append(leaf)
        key = "writer._to_tdms_value::%s" % tname
        if unknown or len(outs) != 1:
            if len(outs) == 0:
                R.violation(key, fi.where(), "values of type %s are no longer accepted as property values" % tname)
            else:
                R.undecided(key, fi.where(), "result for a %s value not decided (%d candidates)" % (tname, len(outs)))
            continue
        got = outs[0]
        if want == "itself":
            ok = got == P
        elif want == "numpy table":
            ok = got[0] == "callv" and bool(find(got[1], ("attr", P, "dtype"))) and got[2] == (P,)
        else:
            ok = got[0] == want[0] and got[1] == want[1] and got[2] == (P,)
        R.check(ok, key, fi.where(), "%s -> %s" % (tname, show(alpha(got))[:60]),
                "a %s value is converted with `%s`%s" % (tname, show(alpha(got))[:80],
                                                         ": True/False would be written as an integer instead of Boolean" if tname == "bool" else ""))


# ---------------------------------------------------------------------------
# NK1

TWO53 = 2 ** 53
UNIT_US = {"s": 10**6, "ms": 10**3, "us": 1, "ns": Fraction(1, 1000), "m": 60 * 10**6, "h": 3600 * 10**6, "D": 86400 * 10**6}


def _td_literal(e):
    """np.timedelta64(N, 'unit') -> (N expr, unit) or None"""
    if isinstance(e, ast.Call) and call_name(e) in ("np.timedelta64", "numpy.timedelta64") and len(e.args) == 2 \
            and isinstance(e.args[1], ast.Constant):
        return e.args[0], e.args[1].value
    return None


class _Val:
    def __init__(self, kind, rng, via_float=False, trunc_of=None, expr=None):
        self.kind, self.rng, self.via_float, self.trunc_of, self.expr = kind, rng, via_float, trunc_of, expr


@rule("NK1", "exact 64-bit timestamp fields are not computed through float64 beyond 2**53", floor=1)
def nk1(ctx, R):
    prog = ctx.prog
    fi = prog.func("types.TimeStamp.__init__")
    cls = fi.cls
    env = {}
    FULL = 2 ** 63          # |datetime64[us] - epoch| in microseconds
    findings = []

    def ev(e):
        if isinstance(e, ast.Name):
            return env.get(e.id)
        if isinstance(e, ast.Constant) and isinstance(e.value, (int, float)):
            return _Val("int" if isinstance(e.value, int) else "float", abs(e.value))
        if isinstance(e, ast.Attribute) and dotted(e) and dotted(e).startswith("self."):
            v = prog.class_const(cls, e.attr)
            if isinstance(v, (int, float)):
                return _Val("float" if isinstance(v, float) else "int", abs(v))
            return None
        tl = _td_literal(e)
        if tl is not None:
            n = ev(tl[0])
            if n is None or tl[1] not in UNIT_US:
                return None
            return _Val("td", n.rng * UNIT_US[tl[1]], trunc_of=(getattr(n, "trunc_src", None), tl[1]), expr=e)
        if isinstance(e, ast.BinOp):
            a, b = ev(e.left), ev(e.right)
            if isinstance(e.op, ast.Sub) and isinstance(e.left, ast.Name) and e.left.id == "value":
                return _Val("td", FULL)
            if a is None or b is None:
                if isinstance(e.op, ast.Sub) and ("value" in unparse(e.left)):
                    return _Val("td", FULL)
                return None
            if isinstance(e.op, ast.Div) and a.kind == "td" and b.kind == "td" and _td_literal(e.right) is not None:
                unit = _td_literal(e.right)[1]
                v = _Val("float", a.rng / UNIT_US[unit])
                v.div_src = (unparse(e.left), unit)
                return v
            if isinstance(e.op, ast.Sub) and a.kind == "td" and b.kind == "td":
                # X - timedelta64(int(X / 1 unit), unit): remainder smaller than one unit
                t = _td_literal(e.right)
                if t is not None and isinstance(t[0], ast.Name) and t[0].id in env and getattr(env[t[0].id], "trunc_src", None) == (unparse(e.left), t[1]):
                    return _Val("td", UNIT_US[t[1]])
                return _Val("td", a.rng + b.rng)
            if isinstance(e.op, ast.Add) and a.kind == "td" and b.kind == "td":
                return _Val("td", a.rng + b.rng)
            if isinstance(e.op, ast.Mult):
                k = "float" if "float" in (a.kind, b.kind) else a.kind
                return _Val(k, a.rng * b.rng)
            if isinstance(e.op, (ast.Add, ast.Sub)):
                k = "float" if "float" in (a.kind, b.kind) else a.kind
                return _Val(k, a.rng + b.rng)
            if isinstance(e.op, ast.FloorDiv) and a.kind == "td" and b.kind == "td" and _td_literal(e.right) is not None:
                return _Val("int", a.rng / UNIT_US[_td_literal(e.right)[1]])
            return None
        if isinstance(e, ast.Call) and call_name(e) == "int" and len(e.args) == 1:
            a = ev(e.args[0])
            if a is None:
                return None
            v = _Val("int", a.rng, via_float=(a.kind == "float"), expr=e)
            v.trunc_src = getattr(a, "div_src", None)
            if a.kind == "float" and a.rng > TWO53:
                findings.append((e, a.rng))
            return v
        if isinstance(e, ast.Call) and call_name(e) in ("divmod",):
            return None
        return None
    for s in walk_body(fi.node):
        pass
    # straight-line interpretation in statement order (branches only adjust by one unit)
    def run(stmts):
        for s in stmts:
            if isinstance(s, ast.Assign) and len(s.targets) == 1 and isinstance(s.targets[0], ast.Name):
                v = ev(s.value)
                if v is not None:
                    env[s.targets[0].id] = v
            elif isinstance(s, ast.Assign) and isinstance(s.targets[0], ast.Tuple) and isinstance(s.value, ast.Call) and call_name(s.value) == "divmod":
                a = ev(s.value.args[0])
                for t in s.targets[0].elts:
                    if isinstance(t, ast.Name) and a is not None:
                        env[t.id] = _Val("int", a.rng, via_float=a.via_float)
            elif isinstance(s, ast.If):
                run(s.body)
                run(s.orelse)
            elif isinstance(s, ast.Expr):
                ev(s.value)
    run(fi.node.body)
    packs = [c for c in walk_body(fi.node) if isinstance(c, ast.Call) and call_name(c) in ("_struct_pack", "struct.pack")]
    if not packs:
        packs = [c for c in walk_body(fi.node) if isinstance(c, ast.Call) and isinstance(c.func, ast.Attribute) and c.func.attr == "pack"]
    if not packs:
        R.unrecognised("types.TimeStamp.__init__::struct pack", fi.where(), "where the timestamp's two fields are packed was not recognised")
        return
    seen = set()
    for e, rng in findings:
        # name the statement that holds the conversion
        stmt = next((s for s in walk_body(fi.node) if isinstance(s, ast.Assign) and any(x is e for x in ast.walk(s.value))), None)
        key = "types.TimeStamp.__init__::%s" % (unparse(stmt) if stmt is not None else unparse(e))
        if key in seen:
            continue
        seen.add(key)
        R.violation(key, fi.where(e), "`%s` converts a float64 whose magnitude can reach %.3g (> 2**53 = 9.0e15) to an integer that ends up in the 64-bit "
                    "timestamp fields: beyond 2**53 a float64 cannot hold every integer, so the value written is not the value given "
                    "(microsecond timestamps do not round-trip exactly)" % (unparse(e), float(rng)))
    for a in packs[0].args[1:]:
        v = ev(a)
        key = "types.TimeStamp.__init__::packed %s" % unparse(a)
        if v is None:
            R.undecided(key, fi.where(a), "value range of `%s` not derived" % unparse(a))
        elif v.via_float and v.rng > TWO53:
            pass   # reported above at the conversion
        else:
            R.ok(key, fi.where(a), "integer of magnitude <= %.3g%s" % (float(v.rng), " (via float64, exact below 2**53)" if v.via_float else ""))


def _norm_ts_canon(v):
    """normal form of a timestamp conversion with the record fields and the whole-second term made representation independent:
    self.seconds / self['seconds'] -> SEC, self.second_fractions / self['second_fractions'] -> FRAC,
    timedelta64(x, 's') and timedelta64(1, 's') * x -> ('seconds', x)"""
    if not isinstance(v, tuple) or not v:
        return v
    if v == ("self", "seconds") or (len(v) == 3 and v[0] == "sub" and v[1] in (("param", "self"), ("name", "self")) and v[2] == ("const", "seconds")):
        return ("SEC",)
    if v == ("self", "second_fractions") or (len(v) == 3 and v[0] == "sub" and v[1] in (("param", "self"), ("name", "self")) and v[2] == ("const", "second_fractions")):
        return ("FRAC",)
    v = tuple(_norm_ts_canon(y) for y in v)
    if v[0] == "call" and str(v[1]).endswith("timedelta64") and len(v[2]) == 2 and v[2][1] == ("const", "s"):
        return ("seconds", v[2][0])
    if v[0] == "binop" and v[1] == "*" and len(v[2]) == 2:
        for a, b in ((v[2][0], v[2][1]), (v[2][1], v[2][0])):
            if a == ("seconds", ("const", 1)):
                return ("seconds", b)
    return v


@rule("NK2", "scalar and array timestamp conversions are the same computation", floor=3)
def nk2(ctx, R):
    from .sym import Sym, show, alpha
    from .sem import find, W, match
    prog = ctx.prog
    a = prog.func("timestamp.TdmsTimestamp.as_datetime64")
    b = prog.func("timestamp.TimestampArray.as_datetime64")
    va = _norm_ts_canon(Sym(prog, a, a.cls, inline=False).function_value())
    vb = _norm_ts_canon(Sym(prog, b, b.cls, inline=False).function_value())
    if va[0] == "call" or vb[0] == "call":
        # the arithmetic lives in a helper: look through it
        va = _norm_ts_canon(Sym(prog, a, a.cls).function_value())
        vb = _norm_ts_canon(Sym(prog, b, b.cls).function_value())
    if va[0] == "opaque" or vb[0] == "opaque":
        raise AnchorMissing("as_datetime64 return statements")
    R.check(va == vb, "timestamp.as_datetime64::scalar vs array", b.where(), "both compute %s" % show(alpha(va))[:140],
            "the scalar conversion computes `%s` and the array conversion `%s`: a value read as a property and the same value read as channel data "
            "convert to different datetime64 values" % (show(alpha(va))[:160], show(alpha(vb))[:160]))
    RES = ("param", [p for p in a.params if p != "self"][0]) if len(a.params) > 1 else None
    m = match(("binop", "+", (("binop", "+", (W("epoch"), ("seconds", ("SEC",)))), ("binop", "*", (("binop", "/", (("FRAC",), W("step"))), W("unit"))))), va)
    ok = m is not None and m["unit"][0] == "call" and str(m["unit"][1]).endswith("timedelta64") and m["unit"][2] == (("const", 1), RES)
    R.check(ok, "timestamp.TdmsTimestamp.as_datetime64::shape", a.where(), "EPOCH + seconds + (fractions / fractions_per_step) * 1 unit",
            "conversion is `%s`" % show(alpha(va))[:200])
    for f, v in ((a, va), (b, vb)):
        mm = match(("binop", "+", (W(), ("binop", "*", (("binop", "/", (W(), W("step"))), W())))), v)
        step = mm["step"] if mm else None
        # the step comes from the table of fractions per unit, looked up with the requested resolution (directly or in a helper)
        looked_up = False
        if step is not None:
            rp = ("param", [p for p in f.params if p != "self"][0])
            if find(step, ("sub", W(), rp)):
                looked_up = True
            if any(x[1] == "get" and x[3] and x[3][0] == rp for x, _b in find(step, ("method", W(), W(), W(), W()))):
                looked_up = True       # table.get(resolution), the missing unit handled by a test of the result
            for x, _b in find(step, ("call", W(), W(), W())):
                g = prog.functions.get(x[1]) if isinstance(x[1], str) else None
                if g is not None and x[2] and x[2][0] == rp:
                    gv = Sym(prog, g, g.cls, inline=False).function_value()
                    if find(gv, ("sub", W(), ("param", g.params[0]))):
                        looked_up = True
        dflt = f.defaults.get([p for p in f.params if p != "self"][0]) if len(f.params) > 1 else None
        key_r = "%s::resolution lookup" % f.qual
        uses_res = step is not None and len(f.params) > 1 and bool(find(step, ("param", [p for p in f.params if p != "self"][0])))
        if looked_up or not uses_res:
            R.check(looked_up and dflt is not None and prog.try_fold(dflt) == "us", key_r, f.where(),
                    "looks up the step for the requested resolution (default 'us')", "resolution handling changed (step `%s`)" % (show(alpha(step))[:80] if step else None))
        else:
            R.unrecognised(key_r, f.where(), "the step depends on the requested resolution, but not through a lookup that was recognised (`%s`)" % show(alpha(step))[:80])


@rule("TBf", "fraction-per-unit constants and epochs are exact", floor=7)
def tbf(ctx, R):
    prog = ctx.prog
    tmod = prog.module("timestamp")
    d = tmod.assigns.get("_fractions_per_step")
    table = prog.try_fold(d, tmod) if d is not None else None
    if not isinstance(table, dict):
        raise AnchorMissing("timestamp._fractions_per_step: a table of constants")
    want = {"s": 0, "ms": 3, "us": 6, "ns": 9, "ps": 12}
    got = {}
    lines = {prog.try_fold(k, tmod): k.lineno for k in d.keys} if isinstance(d, ast.Dict) else {}
    for kk, vv in table.items():
        got[kk] = vv
        where = "%s:%d" % (tmod.relpath, lines.get(kk, d.lineno))
        if kk not in want:
            R.undecided("timestamp._fractions_per_step[%r]" % kk, where, "unexpected unit")
            continue
        exact = Fraction(2 ** 64, 10 ** want[kk])
        ok = isinstance(vv, float) and abs(Fraction(vv) - exact) <= Fraction(math.ulp(float(exact)))
        R.check(ok, "timestamp._fractions_per_step[%r]" % kk, where, "2**64 / 10**%d within 1 ulp" % want[kk],
                "the number of 2**-64 fractions per %s is %r, expected 2**64/10**%d = %r" % (kk, vv, want[kk], float(exact)))
    for k in want:
        if k not in got:
            R.violation("timestamp._fractions_per_step[%r]" % k, "%s:%d" % (tmod.relpath, d.lineno), "unit %r missing" % k)
    # the encoder's constant, wherever it is kept (class attribute or module constant of the type / timestamp modules)
    fpms = []
    for mod in (prog.module("types"), tmod):
        for name, e in mod.assigns.items():
            if "fractions_per_microsecond" in name.lower():
                fpms.append((mod.name + "." + name, "%s:%d" % (mod.relpath, e.lineno), prog.try_fold(e, mod)))
    for ci in prog.classes.values():
        if ci.module.name in ("types", "timestamp"):
            for name, e in ci.attrs.items():
                if "fractions_per_microsecond" in name.lower():
                    fpms.append((ci.qual + "." + name, "%s:%d" % (ci.module.relpath, e.lineno), prog.class_const(ci, name)))
    if not fpms:
        R.unrecognised("encoder fractions-per-microsecond constant", tmod.relpath, "no constant of that name in nptdms.types / nptdms.timestamp")
    for q, where, fpm in fpms:
        R.check(isinstance(fpm, float) and fpm == got.get("us"), q, where,
                "encoder and decoder use the same fractions-per-microsecond constant", "encoder constant %r differs from the decoder's %r" % (fpm, got.get("us")))
    import numpy as np
    ref = np.datetime64("1904-01-01T00:00:00")
    # every datetime64 literal kept as a constant in these modules is an epoch
    epochs = []
    for mod in (prog.module("types"), tmod):
        for name, e in mod.assigns.items():
            epochs.append((mod.name + "." + name, e))
    for ci in prog.classes.values():
        if ci.module.name in ("types", "timestamp"):
            for name, e in ci.attrs.items():
                epochs.append((ci.qual + "." + name, e))
    epochs = [(q, e) for q, e in epochs if isinstance(e, ast.Call) and (call_name(e) or "").split(".")[-1] == "datetime64" and e.args
              and isinstance(e.args[0], ast.Constant) and isinstance(e.args[0].value, str)]
    if not epochs:
        R.unrecognised("epoch constants", tmod.relpath, "no datetime64 literal kept as a constant in nptdms.types / nptdms.timestamp")
    for q, e in epochs:
        try:
            ok = bool(np.datetime64(e.args[0].value) == ref)
        except Exception:
            ok = False
        R.check(ok, q, "%s" % q, "1904-01-01T00:00:00", "epoch is `%s`" % unparse(e))


@rule("TT1", "the absolute time track is the relative track shifted by the start time", floor=3)
def tt1(ctx, R):
    from .sym import Sym, show, alpha, simplify
    from .sem import find, W, match
    from .rules_layout import _global_value
    prog = ctx.prog
    fi = prog.func("tdms.TdmsChannel.time_track")
    ps = [p for p in fi.params if p != "self"]
    AP = ("param", ps[0])
    sy = Sym(prog, fi, fi.cls)
    v = sy.function_value()
    if v[0] == "opaque":
        raise AnchorMissing("tdms.TdmsChannel.time_track: body in normal form")
    rel = simplify(v, lambda c: False if c == AP else None)
    ab = simplify(v, lambda c: True if c == AP else None)

    def prop(name):
        return W(None, lambda x: bool(find(x, ("const", name))))
    # linspace(offset, offset + (len(self) - 1) * increment, len(self))
    lin = find(rel, ("call", "numpy.linspace", W(), W()))
    ok = False
    if len(lin) >= 1 and rel == lin[0][0]:
        c = lin[0][0]
        args = list(c[2]) + [vv for k, vv in c[3] if k == "num"]
        if len(args) == 3:
            off, stop, num = args
            n = ("len", ("param", "self"))
            n1 = sy._binop("-", n, ("const", 1))
            inc_terms = [t for t in (stop[2] if stop[0] == "binop" and stop[1] == "+" else ())]
            has_off = off in inc_terms
            others = [t for t in inc_terms if t != off]
            ok = bool(find(off, ("const", "wf_start_offset"))) and num == n and has_off and len(others) == 1 and others[0][0] == "binop" and others[0][1] == "*" \
                and n1 in others[0][2] and any(find(t, ("const", "wf_increment")) for t in others[0][2])
    R.check(ok, "tdms.TdmsChannel.time_track::relative track", fi.where(), "linspace(offset, offset + (len - 1) * increment, len)",
            "relative track is `%s`" % show(alpha(rel))[:200])
    R.check(rel != ab, "tdms.TdmsChannel.time_track::relative result", fi.where(), "returns the relative track unless absolute time is requested",
            "relative track is not returned")
    derived = bool(find(ab, rel)) and bool(find(ab, ("const", "wf_start_time")))
    R.check(derived, "tdms.TdmsChannel.time_track::absolute result", fi.where(),
            "start_time + relative_time converted to the requested accuracy",
            "the absolute track (`%s`) is not derived from the relative track: offsets/increments rounded separately accumulate an error that "
            "grows with the sample index" % show(alpha(ab))[:160])
    # unit table
    tabs = [x for x, _b in find(ab, ("dict", W()))]
    for x, _b in find(ab, ("global", W())) + find(ab, ("name", W())):
        gv = _global_value(prog, fi.module, x)
        if gv[0] == "dict":
            tabs.append(gv)
    for t in tabs[:1]:
        try:
            tab = {k[1]: vv[1] for k, vv in t[1]}
        except Exception:
            tab = None
        R.check(tab == {"s": 1e0, "ms": 1e3, "us": 1e6, "ns": 1e9}, "tdms.TdmsChannel.time_track::unit table", fi.where(), "units per second table",
                "unit correction table is %s" % tab)


@rule("TW1", "the writer never routes raw timestamp records through the lossy datetime64 conversion", floor=1)
def tw1(ctx, R):
    """TimestampArray / TdmsTimestamp hold the exact 2**-64 s fractions; as_datetime64() keeps at most the requested resolution.  A
    call of it anywhere on the writer side (module nptdms.writer and the type constructors it uses) would write truncated timestamps
    where the exact records were available (defragment copies channel data read with raw_timestamps=True)."""
    prog = ctx.prog
    n = 0
    for f in sorted(prog.functions.values(), key=lambda f: f.qual):
        if f.module.name != "writer":
            continue
        n += 1
        calls = [c for c in walk_body(f.node) if isinstance(c, ast.Call) and isinstance(c.func, ast.Attribute) and c.func.attr == "as_datetime64"]
        if calls:
            R.violation("%s::as_datetime64" % f.qual, f.where(calls[0]), "`%s`: raw timestamp records are converted to datetime64 on the way to the file, which drops "
                        "everything below the conversion's resolution (the exact 16-byte records could have been written through)" % unparse(calls[0])[:80])
    R.ok("writer::no lossy timestamp conversion", "%s:1" % prog.module("writer").relpath, "%d writer functions, none calls as_datetime64()" % n)
