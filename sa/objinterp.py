"""Small interprocedural abstract interpreter for the has_data typestate of segment objects (rule HD1).

Abstract values:  ('obj', id)  an object (ids: 'IN' the incoming object, 'copyN', 'newN'),  ('bool', b),  ('hdr',) the raw data
index header,  ('tuple', (v...)),  ('?',) anything else.  A state maps variable names to values and object ids to their has_data
flag; the interpreter enumerates the paths of loop-free functions, follows calls of package helpers (module functions and methods on
self) with their arguments bound, and records which object is put into the segment's object list.
"""
import ast

from .core import dotted, call_name

UNKNOWN = ("?",)


class Path:
    """one execution path: variable bindings, has_data flags, the placed object, a return value"""

    def __init__(self, vars=None, flags=None, placed=None, notes=None):
        self.vars = dict(vars or {})
        self.flags = dict(flags or {})
        self.placed = placed
        self.ret = None
        self.done = False
        self.notes = list(notes or [])
        self.counter = 0

    def clone(self):
        p = Path(self.vars, self.flags, self.placed, self.notes)
        p.ret, p.done, p.counter = self.ret, self.done, self.counter
        return p

    def fresh(self, prefix):
        self.counter += 1
        return "%s%d" % (prefix, self.counter)


class ObjInterp:
    def __init__(self, prog, module, hdr_kind, consts, list_attr="ordered_objects", flag_attr="has_data", ctor_flag=False, max_depth=4):
        self.prog = prog
        self.module = module
        self.hdr_kind = hdr_kind          # 'NO_DATA' | 'MATCHES' | 'NEW_INDEX'
        self.consts = consts              # folded constant value -> kind
        self.list_attr = list_attr
        self.flag_attr = flag_attr
        self.ctor_flag = ctor_flag
        self.max_depth = max_depth
        self.unknown_flag_reads = []

    # ---------------------------------------------------------------- functions
    def run(self, fi, self_cls, args, path, depth=0):
        """-> list of paths after the call (ret holds the returned value)"""
        p = path.clone()
        saved_vars = p.vars
        p.vars = dict(args)
        p.ret, p.done = None, False
        outs = self.block(fi.node.body, [p], fi, self_cls, depth)
        res = []
        for q in outs:
            r = q.ret if q.ret is not None else ("const", None)
            q.vars = dict(saved_vars)
            q.ret, q.done = r, False
            res.append(q)
        return res

    def block(self, stmts, paths, fi, cls, depth):
        for s in stmts:
            nxt = []
            for p in paths:
                if p.done:
                    nxt.append(p)
                else:
                    nxt.extend(self.stmt(s, p, fi, cls, depth))
            paths = nxt
            if len(paths) > 400:
                raise RuntimeError("path explosion")
        return paths

    def stmt(self, s, p, fi, cls, depth):
        if isinstance(s, ast.Expr):
            return [q for q, _v in self.expr(s.value, p, fi, cls, depth)]
        if isinstance(s, ast.Assign):
            out = []
            for q, v in self.expr(s.value, p, fi, cls, depth):
                for t in s.targets:
                    self.assign(t, v, q, fi, cls)
                out.append(q)
            return out
        if isinstance(s, ast.Return):
            if s.value is None:
                p.ret, p.done = ("const", None), True
                return [p]
            out = []
            for q, v in self.expr(s.value, p, fi, cls, depth):
                q.ret, q.done = v, True
                out.append(q)
            return out
        if isinstance(s, ast.If):
            out = []
            for q, tv in self.test(s.test, p, fi, cls, depth):
                if tv is not False:
                    q1 = q.clone() if tv is None else q
                    self.refine(s.test, q1, True, fi)
                    out.extend(self.block(s.body, [q1], fi, cls, depth))
                if tv is not True:
                    q2 = q.clone() if tv is None else q
                    self.refine(s.test, q2, False, fi)
                    out.extend(self.block(s.orelse, [q2], fi, cls, depth))
            return out
        if isinstance(s, ast.Raise):
            return []          # the path ends with an error: nothing is left in the list by it
        if isinstance(s, (ast.Pass, ast.Assert, ast.Import, ast.ImportFrom)):
            return [p]
        if isinstance(s, ast.Try):
            out = self.block(s.body, [p], fi, cls, depth)
            return self.block(s.finalbody, out, fi, cls, depth) if s.finalbody else out
        if isinstance(s, (ast.With,)):
            return self.block(s.body, [p], fi, cls, depth)
        if isinstance(s, (ast.For, ast.While)):
            p.notes.append("loop not modelled in %s" % fi.qual)
            return [p]
        if isinstance(s, ast.AugAssign):
            return [p]
        return [p]

    def assign(self, t, v, p, fi, cls):
        if isinstance(t, ast.Name):
            p.vars[t.id] = v
        elif isinstance(t, (ast.Tuple, ast.List)):
            for i, e in enumerate(t.elts):
                self.assign(e, v[1][i] if v[0] == "tuple" and i < len(v[1]) else UNKNOWN, p, fi, cls)
        elif isinstance(t, ast.Attribute):
            if t.attr == self.flag_attr:
                base = self.value_of(t.value, p)
                if base[0] == "obj":
                    p.flags[base[1]] = v[1] if v[0] == "bool" else None
        elif isinstance(t, ast.Subscript):
            if isinstance(t.value, ast.Attribute) and t.value.attr == self.list_attr and dotted(t.value.value) == "self":
                p.placed = v

    def value_of(self, e, p):
        if isinstance(e, ast.Name):
            return p.vars.get(e.id, UNKNOWN)
        if isinstance(e, ast.Constant):
            if isinstance(e.value, bool):
                return ("bool", e.value)
            return ("const", e.value)
        return UNKNOWN

    # ---------------------------------------------------------------- expressions -> [(path, value)]
    def expr(self, e, p, fi, cls, depth):
        if isinstance(e, (ast.Name, ast.Constant)):
            return [(p, self.value_of(e, p))]
        if isinstance(e, ast.Tuple):
            outs = [(p, [])]
            for x in e.elts:
                nxt = []
                for q, acc in outs:
                    for q2, v in self.expr(x, q, fi, cls, depth):
                        nxt.append((q2, acc + [v]))
                outs = nxt
            return [(q, ("tuple", tuple(acc))) for q, acc in outs]
        if isinstance(e, ast.Attribute):
            out = []
            for q, b in self.expr(e.value, p, fi, cls, depth):
                if e.attr == self.flag_attr and b[0] == "obj":
                    f = q.flags.get(b[1])
                    out.append((q, ("bool", f) if f is not None else UNKNOWN))
                else:
                    out.append((q, UNKNOWN))
            return out
        if isinstance(e, ast.IfExp):
            out = []
            for q, tv in self.test(e.test, p, fi, cls, depth):
                if tv is not False:
                    q1 = q.clone() if tv is None else q
                    self.refine(e.test, q1, True, fi)
                    out.extend(self.expr(e.body, q1, fi, cls, depth))
                if tv is not True:
                    q2 = q.clone() if tv is None else q
                    self.refine(e.test, q2, False, fi)
                    out.extend(self.expr(e.orelse, q2, fi, cls, depth))
            return out
        if isinstance(e, ast.Call):
            return self.call(e, p, fi, cls, depth)
        if isinstance(e, (ast.Compare, ast.BoolOp, ast.UnaryOp)):
            return [(q, ("bool", tv) if tv is not None else UNKNOWN) for q, tv in self.test(e, p, fi, cls, depth)]
        return [(p, UNKNOWN)]

    def call(self, c, p, fi, cls, depth):
        prog = self.prog
        # evaluate arguments
        outs = [(p, [])]
        for a in c.args:
            nxt = []
            for q, acc in outs:
                for q2, v in self.expr(a.value if isinstance(a, ast.Starred) else a, q, fi, cls, depth):
                    nxt.append((q2, acc + [v]))
            outs = nxt
        kwouts = []
        for q, acc in outs:
            cur = [(q, {})]
            for k in c.keywords:
                nxt = []
                for q2, kw in cur:
                    for q3, v in self.expr(k.value, q2, fi, cls, depth):
                        kw2 = dict(kw)
                        kw2[k.arg] = v
                        nxt.append((q3, kw2))
                cur = nxt
            kwouts.extend((q2, acc, kw) for q2, kw in cur)
        res = []
        for q, args, kws in kwouts:
            res.extend(self.apply(c, q, args, kws, fi, cls, depth))
        return res

    def apply(self, c, p, args, kws, fi, cls, depth):
        prog = self.prog
        f = c.func
        cn = call_name(c) or ""
        # list placement
        if isinstance(f, ast.Attribute) and isinstance(f.value, ast.Attribute) and f.value.attr == self.list_attr and dotted(f.value.value) == "self":
            if f.attr in ("append", "insert") and args:
                p.placed = args[-1]
            return [(p, UNKNOWN)]
        if cn in ("bool",) and len(args) == 1:
            return [(p, args[0] if args[0][0] == "bool" else UNKNOWN)]
        # shallow copies keep the flag
        if cn.split(".")[-1] in ("copy", "deepcopy") and len(args) == 1 and args[0][0] == "obj":
            oid = p.fresh("copy")
            p.flags[oid] = p.flags.get(args[0][1])
            return [(p, ("obj", oid))]
        # constructors of segment objects
        rc = prog.resolve_class(fi.module, f) if isinstance(f, (ast.Name, ast.Attribute)) and not (isinstance(f, ast.Attribute) and dotted(f.value) in ("self",)) else None
        if rc is not None:
            oid = p.fresh("new")
            p.flags[oid] = self._ctor_flag(rc)
            return [(p, ("obj", oid))]
        # package helpers
        target, tcls = None, None
        if isinstance(f, ast.Attribute) and dotted(f.value) == "self" and cls is not None:
            found = prog.lookup(cls, f.attr)
            if found and found[0] == "method":
                target, tcls = found[2], cls
        elif isinstance(f, (ast.Name, ast.Attribute)):
            r = prog.resolve_expr(fi.module, f)
            if r and r[0] == "func":
                target = r[1]
        if target is not None and depth < self.max_depth and not target.is_generator and target.module.name in (self.module.name, "base_segment", "daqmx"):
            ps = [x for x in target.params if not (target.cls is not None and not target.is_static and x in ("self", "cls"))]
            bound = {}
            for name, v in zip(ps, args):
                bound[name] = v
            for k, v in kws.items():
                bound[k] = v
            if any(isinstance(x, (ast.For, ast.While)) for x in ast.walk(target.node)):
                # helpers with loops (index parsers) do not touch the flag unless they store it
                if any(isinstance(x, ast.Attribute) and x.attr == self.flag_attr and isinstance(x.ctx, ast.Store) for x in ast.walk(target.node)):
                    p.notes.append("%s stores %s in a loop" % (target.qual, self.flag_attr))
                return [(p, UNKNOWN)]
            return [(q, q.ret) for q in self.run(target, tcls, bound, p, depth + 1)]
        # method of an object: leaves the flag alone unless some implementation stores it
        if isinstance(f, ast.Attribute):
            impls = [m for m in prog.functions.values() if m.cls is not None and m.name == f.attr]
            if any(isinstance(x, ast.Attribute) and x.attr == self.flag_attr and isinstance(x.ctx, ast.Store) for m in impls for x in ast.walk(m.node)):
                base = self.value_of(f.value, p)
                if base[0] == "obj":
                    p.flags[base[1]] = None
                    p.notes.append("%s may store %s" % (f.attr, self.flag_attr))
        return [(p, UNKNOWN)]

    def _ctor_flag(self, ci):
        """value of the flag after construction (constant stored by the constructor chain)"""
        from .sem import instance_attrs
        val = None
        for fn, n in instance_attrs(self.prog, ci).get(self.flag_attr, []):
            if isinstance(n, ast.Assign) and isinstance(n.value, ast.Constant) and isinstance(n.value.value, bool):
                val = n.value.value
        return val

    # ---------------------------------------------------------------- conditions -> [(path, True/False/None)]
    def test(self, t, p, fi, cls, depth):
        if isinstance(t, ast.UnaryOp) and isinstance(t.op, ast.Not):
            return [(q, None if v is None else (not v)) for q, v in self.test(t.operand, p, fi, cls, depth)]
        if isinstance(t, ast.BoolOp):
            outs = [(p, True if isinstance(t.op, ast.And) else False)]
            for v in t.values:
                nxt = []
                for q, acc in outs:
                    if (isinstance(t.op, ast.And) and acc is False) or (isinstance(t.op, ast.Or) and acc is True):
                        nxt.append((q, acc))
                        continue
                    for q2, tv in self.test(v, q, fi, cls, depth):
                        if isinstance(t.op, ast.And):
                            r = False if tv is False else (None if (tv is None or acc is None) else True)
                        else:
                            r = True if tv is True else (None if (tv is None or acc is None) else False)
                        nxt.append((q2, r))
                outs = nxt
            return outs
        if isinstance(t, ast.Compare) and len(t.ops) == 1:
            out = []
            for q, l in self.expr(t.left, p, fi, cls, depth):
                for q2, r in self.expr(t.comparators[0], q, fi, cls, depth):
                    out.append((q2, self.compare(t.ops[0], l, r, t, fi)))
            return out
        out = []
        for q, v in self.expr(t, p, fi, cls, depth):
            if v[0] == "bool":
                out.append((q, v[1]))
            elif v[0] == "const":
                out.append((q, bool(v[1])))
            elif v[0] == "obj":
                out.append((q, True))
            else:
                out.append((q, None))
        return out

    def compare(self, op, l, r, node, fi):
        # header against a format constant
        for a, b, bexpr in ((l, r, node.comparators[0]), (r, l, node.left)):
            if a == ("hdr",):
                val = self.prog.try_fold(bexpr, fi.module, default="?")
                kind = self.consts.get(val)
                if kind is not None and isinstance(op, (ast.Eq, ast.NotEq)):
                    res = (self.hdr_kind == kind)
                    return res if isinstance(op, ast.Eq) else (not res)
                return None
        if isinstance(op, (ast.Is, ast.IsNot)):
            if l[0] == "obj" and r[0] == "obj":
                res = l[1] == r[1]
                return res if isinstance(op, ast.Is) else (not res)
            if (l[0] == "obj" and r == ("const", None)) or (r[0] == "obj" and l == ("const", None)):
                return isinstance(op, ast.IsNot)
            return None
        if isinstance(op, (ast.Eq, ast.NotEq)):
            if l[0] in ("bool", "const") and r[0] in ("bool", "const"):
                res = l[1] == r[1]
                return res if isinstance(op, ast.Eq) else (not res)
        return None

    def refine(self, t, p, outcome, fi):
        """learn the flag of an object from a test on it"""
        if isinstance(t, ast.UnaryOp) and isinstance(t.op, ast.Not):
            return self.refine(t.operand, p, not outcome, fi)
        if isinstance(t, ast.Attribute) and t.attr == self.flag_attr:
            b = self.value_of(t.value, p)
            if b[0] == "obj" and p.flags.get(b[1]) is None:
                p.flags[b[1]] = outcome
