"""Variant corpus: (file, old text, new text) edits applied to a scratch copy of /repo/nptdms.
`expect` names the rule that must fire (None = benign, the check must stay silent)."""

VARIANTS = []


def V(id, prop, expect, *edits, **kw):
    d = dict(id=id, prop=prop, expect=expect, edits=list(edits))
    d.update(kw)
    VARIANTS.append(d)


# ---------------------------------------------------------------- C20 (RL)
V("RL2-drop-finally", "C20", "RL2",
  ("tdms.py", "        finally:\n            if not keep_open:\n                self._reader.close()\n",
   "        except ValueError:\n            raise\n        if not keep_open:\n            self._reader.close()\n"))
V("RL2-stmt-before-try", "C20", "RL2",
  ("tdms.py", "        self._reader = TdmsReader(file)\n        try:\n",
   "        self._reader = TdmsReader(file)\n        self._tdms_version = int(self._reader.tdms_version or 0)\n        try:\n"))
V("RL2-read-keeps-open", "C20", "RL2",
  ("tdms.py", "        return TdmsFile(file, raw_timestamps=raw_timestamps, memmap_dir=memmap_dir)\n",
   "        return TdmsFile(file, raw_timestamps=raw_timestamps, memmap_dir=memmap_dir, keep_open=True)\n"))
V("RL7-close-unconditional", "C20", ["RL7", "RL4"],
  ("reader.py", "        if self._file_path is not None:\n            # File path was provided so we opened the file and should close it.\n            self._file.close()\n",
   "        if self._file is not None:\n            self._file.close()\n"))
V("RL7-index-guard-dropped", "C20", "RL7",
  ("reader.py", "            if reading_index_file and self._index_file_path is not None:\n", "            if reading_index_file:\n"))
V("RL4-no-clear", "C20", "RL4",
  ("reader.py", "        # Finally always remove reference to the files\n        self._file = None\n        self._index_file = None\n",
   "        # Finally always remove reference to the files\n        self._index_file = None\n"))
V("RL5-no-early-return", "C20", "RL5",
  ("reader.py", "        if self._file is None and self._index_file is None:\n            # Already closed\n            return\n\n", ""))
V("RL6-no-ensure-open", "C20", "RL6",
  ("reader.py", "        self._ensure_open()\n        if self._segments is None:\n            raise RuntimeError(\n                \"Cannot read data unless metadata has first been read\")\n",
   "        if self._segments is None:\n            raise RuntimeError(\n                \"Cannot read data unless metadata has first been read\")\n"))
V("RL1-open-in-tdms", "C20", "RL1",
  ("tdms.py", "        self._reader = TdmsReader(file)\n", "        self._raw = open(file, 'rb') if isinstance(file, str) else None\n        self._reader = TdmsReader(file)\n"))
V("RL1-owner-in-stream-mode", "C20", "RL1",
  ("reader.py", "            elif tag == b\"TDSm\":\n                self._file = tdms_file\n",
   "            elif tag == b\"TDSm\":\n                self._file = tdms_file\n                self._file_path = getattr(tdms_file, 'name', None)\n"))
V("RL8-unprotected-second-open", "C20", "RL8",
  ("reader.py", "                    try:\n                        self._index_file = open(self._index_file_path, \"rb\")\n                    except Exception:\n                        # Don't leave the data file open if the index file can't be opened\n                        self._file.close()\n                        raise\n",
   "                    self._index_file = open(self._index_file_path, \"rb\")\n"))
V("RL7-close-callers-stream", "C20", "RL7",
  ("tdmsinfo.py", "    tdms_file = TdmsFile.read_metadata(file)\n", "    tdms_file = TdmsFile.read_metadata(file)\n    if hasattr(file, 'close'):\n        file.close()\n"))
V("RL-benign-close-helper", "C20", None,
  ("tdms.py", "        if self._reader is not None:\n            self._reader.close()\n            self._reader = None\n",
   "        reader = self._reader\n        if self._reader is not None:\n            self._reader.close()\n            self._reader = None\n        del reader\n"))
V("RL-benign-rename-local", "C20", None,
  ("reader.py", "            source_path = str(tdms_file)\n            if source_path.endswith(\".tdms_index\"):\n                self._index_file_path = source_path\n",
   "            src_path = str(tdms_file)\n            source_path = src_path\n            if source_path.endswith(\".tdms_index\"):\n                self._index_file_path = source_path\n"))
