"""Variant corpus: (file, old text, new text) edits applied to a scratch copy of /repo/nptdms.
`expect` names the rule that must fire (None = benign, the check must stay silent)."""

VARIANTS = []


def V(id, prop, expect, *edits, **kw):
    d = dict(id=id, prop=prop, expect=expect, edits=list(edits))
    d.update(kw)
    VARIANTS.append(d)


# ---------------------------------------------------------------- C20 (RL)
V("RL2-drop-finally", "C20", "RL2",
  ("tdms.py", "        finally:\n            if not keep_open:\n                self._reader.close()\n",
   "        except ValueError:\n            raise\n        if not keep_open:\n            self._reader.close()\n"))
V("RL2-stmt-before-try", "C20", "RL2",
  ("tdms.py", "        self._reader = TdmsReader(file)\n        try:\n",
   "        self._reader = TdmsReader(file)\n        self._tdms_version = int(self._reader.tdms_version or 0)\n        try:\n"))
V("RL2-read-keeps-open", "C20", "RL2",
  ("tdms.py", "        return TdmsFile(file, raw_timestamps=raw_timestamps, memmap_dir=memmap_dir)\n",
   "        return TdmsFile(file, raw_timestamps=raw_timestamps, memmap_dir=memmap_dir, keep_open=True)\n"))
V("RL7-close-unconditional", "C20", ["RL7", "RL4"],
  ("reader.py", "        if self._file_path is not None:\n            # File path was provided so we opened the file and should close it.\n            self._file.close()\n",
   "        if self._file is not None:\n            self._file.close()\n"))
V("RL7-index-guard-dropped", "C20", "RL7",
  ("reader.py", "            if reading_index_file and self._index_file_path is not None:\n", "            if reading_index_file:\n"))
V("RL4-no-clear", "C20", "RL4",
  ("reader.py", "        # Finally always remove reference to the files\n        self._file = None\n        self._index_file = None\n",
   "        # Finally always remove reference to the files\n        self._index_file = None\n"))
V("RL5-no-early-return", "C20", "RL5",
  ("reader.py", "        if self._file is None and self._index_file is None:\n            # Already closed\n            return\n\n", ""))
V("RL6-no-ensure-open", "C20", "RL6",
  ("reader.py", "        self._ensure_open()\n        if self._segments is None:\n            raise RuntimeError(\n                \"Cannot read data unless metadata has first been read\")\n",
   "        if self._segments is None:\n            raise RuntimeError(\n                \"Cannot read data unless metadata has first been read\")\n"))
V("RL1-open-in-tdms", "C20", "RL1",
  ("tdms.py", "        self._reader = TdmsReader(file)\n", "        self._raw = open(file, 'rb') if isinstance(file, str) else None\n        self._reader = TdmsReader(file)\n"))
V("RL1-owner-in-stream-mode", "C20", "RL1",
  ("reader.py", "            elif tag == b\"TDSm\":\n                self._file = tdms_file\n",
   "            elif tag == b\"TDSm\":\n                self._file = tdms_file\n                self._file_path = getattr(tdms_file, 'name', None)\n"))
V("RL8-unprotected-second-open", "C20", "RL8",
  ("reader.py", "                    try:\n                        self._index_file = open(self._index_file_path, \"rb\")\n                    except Exception:\n                        # Don't leave the data file open if the index file can't be opened\n                        self._file.close()\n                        raise\n",
   "                    self._index_file = open(self._index_file_path, \"rb\")\n"))
V("RL7-close-callers-stream", "C20", "RL7",
  ("tdmsinfo.py", "    tdms_file = TdmsFile.read_metadata(file)\n", "    tdms_file = TdmsFile.read_metadata(file)\n    if hasattr(file, 'close'):\n        file.close()\n"))
_CM_OLD = ("        try:\n            self._read_file(\n                self._reader,\n                read_metadata_only if not self._reader.is_index_file_only() else True,\n"
           "                keep_open\n            )\n        finally:\n            if not keep_open:\n                self._reader.close()\n")
_CM_NEW = ("        with _closing_unless(self._reader, keep_open):\n            self._read_file(\n                self._reader,\n"
           "                read_metadata_only if not self._reader.is_index_file_only() else True,\n                keep_open\n            )\n")
_CM_IMPORT = ("from collections import defaultdict, OrderedDict\n", "from collections import defaultdict, OrderedDict\nfrom contextlib import contextmanager\n")
V("RL2-benign-generator-context-manager", "C20", None,
  ("tdms.py", _CM_OLD, _CM_NEW), ("tdms.py",) + _CM_IMPORT,
  ("tdms.py", "class TdmsGroup(object):", "@contextmanager\ndef _closing_unless(reader, keep_open):\n    try:\n        yield reader\n    finally:\n"
   "        if not keep_open:\n            reader.close()\n\n\nclass TdmsGroup(object):"))
V("RL2-generator-context-manager-without-finally", "C20", "RL2",
  ("tdms.py", _CM_OLD, _CM_NEW), ("tdms.py",) + _CM_IMPORT,
  ("tdms.py", "class TdmsGroup(object):", "@contextmanager\ndef _closing_unless(reader, keep_open):\n    yield reader\n"
   "    if not keep_open:\n        reader.close()\n\n\nclass TdmsGroup(object):"))
V("RL2-generator-context-manager-closes-when-kept-open", "C20", "RL2",
  ("tdms.py", _CM_OLD, _CM_NEW), ("tdms.py",) + _CM_IMPORT,
  ("tdms.py", "class TdmsGroup(object):", "@contextmanager\ndef _closing_unless(reader, keep_open):\n    try:\n        yield reader\n    finally:\n"
   "        if keep_open:\n            reader.close()\n\n\nclass TdmsGroup(object):"))
V("RL-benign-close-helper", "C20", None,
  ("tdms.py", "        if self._reader is not None:\n            self._reader.close()\n            self._reader = None\n",
   "        reader = self._reader\n        if self._reader is not None:\n            self._reader.close()\n            self._reader = None\n        del reader\n"))
V("RL-benign-rename-local", "C20", None,
  ("reader.py", "            source_path = str(tdms_file)\n            if source_path.endswith(\".tdms_index\"):\n                self._index_file_path = source_path\n",
   "            src_path = str(tdms_file)\n            source_path = src_path\n            if source_path.endswith(\".tdms_index\"):\n                self._index_file_path = source_path\n"))

# ---------------------------------------------------------------- C15 (BL3/BL4)
V("BL3-drop-arg-string-read", "C15", "BL3",
  ("tdms_segment.py", "            object_path = types.String.read(file, endianness)\n", "            object_path = types.String.read(file)\n"))
V("BL3-drop-arg-read-property", "C15", "BL3",
  ("tdms_segment.py", "            return [read_property(file, endianness) for _ in range(num_properties)]\n",
   "            return [read_property(file) for _ in range(num_properties)]\n"))
V("BL3-drop-arg-uint64", "C15", "BL3",
  ("tdms_segment.py", "            self.data_size = types.Uint64.read(f, endianness)\n", "            self.data_size = types.Uint64.read(f)\n"))
V("BL3-drop-arg-daqmx-widths", "C15", "BL3",
  ("daqmx.py", "            self.raw_data_widths[width_idx] = types.Uint32.read(f, endianness)\n", "            self.raw_data_widths[width_idx] = types.Uint32.read(f)\n"))
V("BL3-const-prefix-props", "C15", "BL3",
  ("tdms_segment.py", "        num_properties = _struct_unpack(endianness + 'L', num_properties_bytes)[0]\n",
   "        num_properties = _struct_unpack('<' + 'L', num_properties_bytes)[0]\n"))
V("BL3-const-format-daqmx-scaler", "C15", "BL3",
  ("daqmx.py", "_struct_unpack(endianness + 'LLLLL', scaler_bytes)", "_struct_unpack('<LLLLL', scaler_bytes)"))
V("BL3-flip-polarity", "C15", "BL3",
  ("tdms_segment.py", "    def _get_data_reader(self):\n        endianness = '>' if (self.toc_mask & toc_properties['kTocBigEndian']) else '<'\n",
   "    def _get_data_reader(self):\n        endianness = '<' if (self.toc_mask & toc_properties['kTocBigEndian']) else '>'\n"))
V("BL3-wrong-flag", "C15", "BL3",
  ("tdms_segment.py", "        endianness = '>' if (self.toc_mask & toc_properties['kTocBigEndian']) else '<'\n\n        new_obj_list",
   "        endianness = '>' if (self.toc_mask & toc_properties['kTocInterleavedData']) else '<'\n\n        new_obj_list"))
V("BL3-nptype-no-newbyteorder", "C15", "BL3",
  ("tdms_segment.py", "            dtype = self.data_type.nptype.newbyteorder(endianness)\n", "            dtype = self.data_type.nptype\n"))
V("BL3-from-bytes-ignores-order", "C15", "BL3",
  ("types.py", "class StructType(TdmsType):", "class StructType(TdmsType):\n    pass\n\n\nclass _Unused(TdmsType):"),
  ("types.py", "        array = byte_array.view()\n        array.dtype = cls.nptype.newbyteorder(endianness)\n        # Convert to native byte order, this doesn't copy if data is already in native order\n        return array.astype(cls.nptype, copy=False)\n\n\n@tds_data_type(0, None)",
   "        array = byte_array.view()\n        array.dtype = cls.nptype\n        return array\n\n\n@tds_data_type(0, None)"),
  known_miss=False)
V("BL3-interleaved-drops-endianness", "C15", "BL3",
  ("tdms_segment.py", "            object_data = obj.data_type.from_bytes(object_data, self.endianness)\n",
   "            object_data = obj.data_type.from_bytes(object_data)\n"))
V("BL4-swap-big-endian-format", "C15", "BL4",
  ("types.py", "                 endianness + 'qQ', data)", "                 endianness + 'Qq', data)"))
V("BL4-big-endian-dtype-order", "C15", "BL4",
  ("types.py", "            dtype = np.dtype([('seconds', '>i8'), ('second_fractions', '>u8')])", "            dtype = np.dtype([('second_fractions', '>u8'), ('seconds', '>i8')])"))
V("BL4-little-literal-in-big-branch", "C15", "BL4",
  ("types.py", "            dtype = np.dtype([('seconds', '>i8'), ('second_fractions', '>u8')])", "            dtype = np.dtype([('seconds', '<i8'), ('second_fractions', '<u8')])"))
V("BL4-encoder-packs-seconds-first", "C15", "BL4",
  ("types.py", "        self.bytes = _struct_pack('<Qq', second_fractions, seconds)\n", "        self.bytes = _struct_pack('<Qq', seconds, second_fractions)\n"))
V("BL4-raw-encoder-signed-fractions", "C15", "BL4",
  ("timestamp.py", "        return _struct_pack('<Qq', self.second_fractions, self.seconds)\n", "        return _struct_pack('<qQ', self.second_fractions, self.seconds)\n"))
V("BL4-read-little-fields-crossed", "C15", "BL4",
  ("types.py", "            (second_fractions, seconds) = _struct_unpack(\n                endianness + 'Qq', data)\n", "            (seconds, second_fractions) = _struct_unpack(\n                endianness + 'Qq', data)\n"))
V("BL4-getitem-indices-crossed", "C15", "BL4",
  ("timestamp.py", "TdmsTimestamp(val[self._field_indices[0]], val[self._field_indices[1]])", "TdmsTimestamp(val[self._field_indices[1]], val[self._field_indices[0]])"))
V("BL4-field-indices-swapped", "C15", "BL4",
  ("timestamp.py", "        if field_names == ('second_fractions', 'seconds'):\n            obj._field_indices = (1, 0)", "        if field_names == ('second_fractions', 'seconds'):\n            obj._field_indices = (0, 1)"))
V("BL3-benign-rename-param", "C15", None,
  ("tdms_segment.py", "def read_property(f, endianness=\"<\"):\n    \"\"\" Read a property from a segment's metadata \"\"\"\n\n    prop_name = types.String.read(f, endianness)\n    prop_data_type = types.tds_data_types[types.Uint32.read(f, endianness)]\n    value = prop_data_type.read(f, endianness)",
   "def read_property(f, byte_order=\"<\"):\n    \"\"\" Read a property from a segment's metadata \"\"\"\n\n    prop_name = types.String.read(f, byte_order)\n    prop_data_type = types.tds_data_types[types.Uint32.read(f, byte_order)]\n    value = prop_data_type.read(f, byte_order)"))
V("BL3-benign-local-alias", "C15", None,
  ("tdms_segment.py", "        num_objects = _struct_unpack(endianness + 'L', num_objects_bytes)[0]\n", "        order = endianness\n        num_objects = _struct_unpack(order + 'L', num_objects_bytes)[0]\n"))
V("BL3-benign-keyword-arg", "C15", None,
  ("tdms_segment.py", "            object_path = types.String.read(file, endianness)\n", "            object_path = types.String.read(file, endianness=endianness)\n"))

# ---------------------------------------------------------------- C05 (CT1/OW4/CE1)
V("CT1-revert-file-level-reseek", "C05", "CT1",
  ("tdms_segment.py", "            yield chunk\n            file.seek(next_chunk_position)\n", "            yield chunk\n"))
V("CT1-delete-channel-reseek", "C05", "CT1",
  ("tdms_segment.py", "            yield chunk\n            file.seek(initial_position + (i + 1) * chunk_size)\n", "            yield chunk\n"))
V("CT1-no-verify-segment-start", "C05", "CT1",
  ("reader.py", "        for segment in self._segments:\n            self._verify_segment_start(segment)\n            for chunk in segment.read_raw_data(self._file):",
   "        for segment in self._segments:\n            for chunk in segment.read_raw_data(self._file):"),
  ("tdms_segment.py", "            yield RawDataChunk.empty()\n\n        f.seek(self.data_position)\n", "            yield RawDataChunk.empty()\n\n        f.seek(self.data_position - f.tell(), os.SEEK_CUR)\n"))
V("CT1-relative-seek-to-data", "C05", "CT1",
  ("tdms_segment.py", "            yield RawChannelDataChunk.empty()\n\n        f.seek(self.data_position)\n", "            yield RawChannelDataChunk.empty()\n\n        f.seek(self.data_position - self.position - 4, os.SEEK_CUR)\n"))
V("CT1-benign-hoist-position", "C05", None,
  ("tdms_segment.py", "        reader = self._get_data_reader()\n        initial_position = file.tell()\n", "        initial_position = file.tell()\n        reader = self._get_data_reader()\n"))
V("OW4-cache-bounds-not-updated", "C05", "OW4",
  ("tdms.py", "        self._cached_chunk = scaled_chunk\n        self._cached_chunk_bounds = (chunk_offset, chunk_offset + len(scaled_chunk))\n",
   "        self._cached_chunk = scaled_chunk\n        if self._cached_chunk_bounds is None:\n            self._cached_chunk_bounds = (chunk_offset, chunk_offset + len(scaled_chunk))\n"))
V("OW4-memo-written-elsewhere", "C05", "OW4",
  ("tdms_segment.py", "        self._calculate_chunks()\n        return properties\n", "        self.chunk_size_cached = 0\n        self._calculate_chunks()\n        return properties\n"))
V("OW4-one-sided-hit-test", "C05", "OW4",
  ("tdms.py", "            if bounds[0] <= index < bounds[1]:\n", "            if index < bounds[1]:\n"))
V("CE1-floor-blocks", "C05", "CE1",
  ("reader.py", "    num_chunks = (len(a) + chunk_size - 1) // chunk_size\n", "    num_chunks = len(a) // chunk_size\n"))

# ---------------------------------------------------------------- C02 (OW1/OW2/HD1/RJ1)
V("OW1-no-copy-update-nodata", "C02", "OW1",
  ("tdms_segment.py", "            if existing_object.has_data:\n                new_obj = copy(existing_object)\n                new_obj.has_data = False\n",
   "            if existing_object.has_data:\n                new_obj = existing_object\n                new_obj.has_data = False\n"))
V("OW1-no-copy-reuse-matches", "C02", "OW1",
  ("tdms_segment.py", "            if not previous_segment_obj.has_data:\n                segment_obj = copy(previous_segment_obj)\n                segment_obj.has_data = True\n",
   "            if not previous_segment_obj.has_data:\n                segment_obj = previous_segment_obj\n                segment_obj.has_data = True\n"))
V("OW1-reread-index-in-place", "C02", "OW1",
  ("tdms_segment.py", "            segment_obj = self._new_segment_object(object_path, raw_data_index_header)\n            segment_obj.has_data = True\n            segment_obj.read_raw_data_index(file, raw_data_index_header, endianness)\n            self.ordered_objects[existing_object_index] = segment_obj\n",
   "            existing_object.has_data = True\n            existing_object.read_raw_data_index(file, raw_data_index_header, endianness)\n"))
V("OW2-share-list-no-slice", "C02", "OW2",
  ("tdms_segment.py", "            self.ordered_objects = previous_segment.ordered_objects[:]\n", "            self.ordered_objects = previous_segment.ordered_objects\n"))
V("OW2-unordered-key", "C02", "OW2",
  ("tdms_segment.py", "        return len(self.objects) == len(other.objects) and all(\n            oa.path == ob.path for (oa, ob) in zip(self.objects, other.objects))",
   "        return set(o.path for o in self.objects) == set(o.path for o in other.objects)"))
V("OW2-benign-list-copy-call", "C02", None,
  ("tdms_segment.py", "            self.ordered_objects = previous_segment.ordered_objects[:]\n", "            self.ordered_objects = list(previous_segment.ordered_objects)\n"))
V("HD1-new-index-without-has-data", "C02", "HD1",
  ("tdms_segment.py", "            # Changed metadata in this segment\n            segment_obj = self._new_segment_object(object_path, raw_data_index_header)\n            segment_obj.has_data = True\n",
   "            # Changed metadata in this segment\n            segment_obj = self._new_segment_object(object_path, raw_data_index_header)\n"))
V("HD1-matches-keeps-no-data", "C02", "HD1",
  ("tdms_segment.py", "            # Re-use object and ensure we set has data to true for this segment\n            if not existing_object.has_data:\n                new_obj = copy(existing_object)\n                new_obj.has_data = True\n                self.ordered_objects[existing_object_index] = new_obj\n",
   "            # Re-use object and ensure we set has data to true for this segment\n            pass\n"))
V("HD1-flag-flipped-in-place", "C02", ["HD1", "OW1"],
  ("tdms_segment.py", "            if existing_object.has_data:\n                new_obj = copy(existing_object)\n                new_obj.has_data = False\n                self.ordered_objects[existing_object_index] = new_obj\n",
   "            if existing_object.has_data:\n                existing_object.has_data = False\n"))
V("HD1-reuse-no-data-keeps-flag", "C02", "HD1",
  ("tdms_segment.py", "            if previous_segment_obj.has_data:\n                segment_obj = copy(previous_segment_obj)\n                segment_obj.has_data = False\n            else:\n                segment_obj = previous_segment_obj\n",
   "            segment_obj = previous_segment_obj\n"))
V("RJ1-unseen-object-not-rejected", "C02", "RJ1",
  ("tdms_segment.py", "                if raw_data_index_header == RAW_DATA_INDEX_MATCHES_PREVIOUS:\n                    raise ValueError(\"Raw data index for %s says to reuse previous structure, \"\n                                     \"but we have not seen this object before\" % object_path)\n                elif raw_data_index_header != RAW_DATA_INDEX_NO_DATA:",
   "                if raw_data_index_header not in (RAW_DATA_INDEX_MATCHES_PREVIOUS, RAW_DATA_INDEX_NO_DATA):"))
V("RJ1-type-change-warns-only", "C02", "RJ1",
  ("reader.py", "        raise ValueError(\n            \"Segment data doesn't have the same type as previous \"\n            \"segments for objects %s. Expected type %s but got %s\" %\n            (path, obj.data_type, segment_object.data_type))",
   "        log.warning(\n            \"Segment data doesn't have the same type as previous \"\n            \"segments for objects %s. Expected type %s but got %s\" %\n            (path, obj.data_type, segment_object.data_type))"))

# ---------------------------------------------------------------- C13 (OW3)
V("OW3-strain-astype-nocopy", "C13", "OW3",
  ("scaling.py", "        voltage_out = data.astype(np.double)\n", "        voltage_out = data.astype(np.double, copy=False)\n"))
V("OW3-linear-inplace", "C13", "OW3",
  ("scaling.py", "        data = data.astype(np.dtype('float64'), copy=False)\n        return data * self.slope + self.intercept\n",
   "        data = data.astype(np.dtype('float64'), copy=False)\n        data *= self.slope\n        data += self.intercept\n        return data\n"))
V("OW3-thermistor-out-data", "C13", "OW3",
  ("scaling.py", "            r_t = data / self.excitation_value\n", "            r_t = np.divide(data, self.excitation_value, out=data)\n"))
V("OW3-helper-inplace", "C13", "OW3",
  ("scaling.py", "    if resistance_configuration == 3:\n        return measured_resistance - lead_wire_resistance\n",
   "    if resistance_configuration == 3:\n        measured_resistance -= lead_wire_resistance\n        return measured_resistance\n"),
  ("scaling.py", "            r_t = data / self.excitation_value\n", "            r_t = data\n"))
V("OW3-benign-np-array-copy", "C13", None,
  ("scaling.py", "        voltage_out = data.astype(np.double)\n", "        voltage_out = np.array(data, dtype=np.double)\n"))

V("SD1-binary-operands-swapped", "C13", "SD1",
  ("scaling.py", "            return scaling.scale(left_input_data, right_input_data)\n", "            return scaling.scale(right_input_data, left_input_data)\n"))
V("SD1-first-scale-is-output", "C13", "SD1",
  ("scaling.py", "        final_scale = len(self.scalings) - 1\n        return self._compute_scaled_data(final_scale, raw_channel_data)\n",
   "        final_scale = 0\n        return self._compute_scaled_data(final_scale, raw_channel_data)\n"))
V("SD1-daqmx-fed-raw-data", "C13", "SD1",
  ("scaling.py", "            return scaling.scale_daqmx(raw_channel_data.scaler_data)\n", "            return scaling.scale_daqmx(raw_channel_data.data)\n"))
V("SD1-subtract-built-as-add", "C13", "SD1",
  ("scaling.py", "            scalings[scale_index] = SubtractScaling.from_properties(\n", "            scalings[scale_index] = AddScaling.from_properties(\n"))
V("SD1-benign-helper-and-names", "C13", None,
  ("scaling.py", "        final_scale = len(self.scalings) - 1\n        return self._compute_scaled_data(final_scale, raw_channel_data)\n",
   "        last = len(self.scalings)\n        last -= 1\n        return self._compute_scaled_data(last, raw_channel_data)\n"))

V("AO1-file-scope-first", "C13", "AO1",
  ("scaling.py", "        for p in [channel_properties, group_properties, file_properties])\n", "        for p in [file_properties, group_properties, channel_properties])\n"))
V("AO1-group-from-map-being-filled", "C13", "AO1",
  ("tdms.py", "                    channel_group_properties = object_properties[path.group_path()]\n", "                    channel_group_properties = group_properties[path.group]\n"))
V("AO1-last-scope-wins", "C13", "AO1",
  ("scaling.py", "        return next(s for s in scalings if s is not None)\n", "        return [s for s in scalings if s is not None][-1]\n"))
V("NS1-count-instead-of-max", "C13", "NS1",
  ("scaling.py", "        return max(int(m.group(1)) for m in matches if m is not None) + 1\n", "        return len([m for m in matches if m is not None]) or None\n"))
V("NS1-max-without-plus-one", "C13", "NS1",
  ("scaling.py", "        return max(int(m.group(1)) for m in matches if m is not None) + 1\n", "        return max(int(m.group(1)) for m in matches if m is not None)\n"))
V("ST1-status-inverted", "C13", "ST1",
  ("scaling.py", "    if scaling_status == \"scaled\":\n", "    if scaling_status != \"scaled\":\n"))
V("ST1-status-from-other-property", "C13", "ST1",
  ("scaling.py", "    scaling_status = properties.get(\"NI_Scaling_Status\", \"unscaled\")\n", "    scaling_status = properties.get(\"NI_Scale_Status\", \"unscaled\")\n"))
V("ST1-benign-helper", "C13", None,
  ("scaling.py", "    scaling_status = properties.get(\"NI_Scaling_Status\", \"unscaled\")\n    if scaling_status == \"scaled\":\n",
   "    if \"scaled\" == properties.get(\"NI_Scaling_Status\", \"unscaled\"):\n"))

# ---------------------------------------------------------------- C14 (DT1-DT4, LN1)
V("DT1-revert-linear-ensure-double", "C14", "DT1",
  ("scaling.py", "        data = data.astype(np.dtype('float64'), copy=False)\n        return data * self.slope + self.intercept\n", "        return data * self.slope + self.intercept\n"))
V("DT1-revert-rtd-ensure-double", "C14", "DT1",
  ("scaling.py", "        # Ensure data is double precision\n        data = data.astype(np.dtype('float64'), copy=False)\n        r_t = data / self.current_excitation\n", "        r_t = data / self.current_excitation\n"))
V("DT1-table-declared-int64", "C14", "DT1",
  ("scaling.py", "        elif isinstance(scaling, NoOpScaling):", "        elif isinstance(scaling, TableScaling):\n            return np.dtype('int64')\n        elif isinstance(scaling, NoOpScaling):"))
V("DT1-noop-declares-raw", "C14", "DT1",
  ("scaling.py", "            return self._compute_scale_dtype(scaling.input_source, raw_data_type, scaler_data_types)\n        else:", "            return raw_data_type.nptype\n        else:"))
V("DT1-benign-cast-first", "C14", None,
  ("scaling.py", "        data = data.astype(np.dtype('float64'), copy=False)\n        return data * self.slope + self.intercept\n", "        values = np.asarray(data, dtype=np.float64)\n        return values * self.slope + self.intercept\n"))
V("DT2-slice-empty-raw-dtype", "C14", "DT2",
  ("tdms.py", "        if stop == start:\n            return np.empty((0, ), dtype=self.dtype)\n", "        if stop == start:\n            return np.empty((0, ), dtype=self._raw_data_dtype())\n"))
V("DT2-chunk-empty-raw-dtype", "C14", "DT2",
  ("tdms.py", "            return np.empty((0, ), dtype=self._channel.dtype)\n", "            return np.empty((0, ), dtype=self._channel._raw_data_dtype())\n"))
V("DT4-revert-native-order", "C14", "DT4",
  ("tdms_segment.py", "            data = fromfile(file, dtype=dtype, count=number_values)\n            # Convert to native byte order, this doesn't copy if data is already in native order\n            return data.astype(self.data_type.nptype, copy=False)\n", "            return fromfile(file, dtype=dtype, count=number_values)\n"))
V("LN1-own-multiplication", "C14", "LN1",
  ("reader.py", "            object_metadata.num_values += _number_of_segment_values(segment_object, segment)\n",
   "            if segment_object.has_data:\n                object_metadata.num_values += segment_object.number_values * segment.num_chunks\n"))

# ---------------------------------------------------------------- C08 (BL5/BL6/PO1/WT1)
V("BL5-revert-string-index-20", "C08", "BL5",
  ("writer.py", "                return [Uint32(28), data_type, dimension, num_values, Uint64(total_size)]\n", "                return [Uint32(20), data_type, dimension, num_values, Uint64(total_size)]\n"))
V("BL5-numeric-index-24", "C08", "BL5",
  ("writer.py", "            return [Uint32(20), data_type, dimension, num_values]\n", "            return [Uint32(24), data_type, dimension, num_values]\n"))
V("BL5-string-prefix-char-count", "C08", "BL5",
  ("types.py", "        length = _struct_pack('<L', len(content))\n", "        length = _struct_pack('<L', len(value))\n"))
V("BL5-leadin-without-data-size", "C08", "BL5",
  ("writer.py", "        next_segment_offset = metadata_size + self._data_size()\n", "        next_segment_offset = metadata_size\n"))
V("BL5-metadata-twice", "C08", "BL5",
  ("writer.py", "        file.write(b''.join(val.bytes for val in metadata))\n", "        file.write(b''.join(val.bytes for val in self.metadata()))\n"))
V("BL5-string-size-chars", "C08", "BL5",
  ("writer.py", "        try:\n            encoded_strings = [s.encode(\"utf-8\") for s in data_values]\n        except AttributeError:\n            encoded_strings = data_values\n        return sum(4 + len(s) for s in encoded_strings)\n",
   "        return sum(4 + len(s) for s in data_values)\n"))
V("BL5-data-size-other-predicate", "C08", "BL5",
  ("writer.py", "        for obj in self.objects:\n            if _has_raw_data(obj):\n                data_size += object_data_size(obj.data_type, obj.data)\n",
   "        for obj in self.objects:\n            if hasattr(obj, 'data'):\n                data_size += object_data_size(obj.data_type, obj.data)\n"))
V("BL6-index-data-size-zero", "C08", "BL6",
  ("writer.py", "    def _data_size(self):\n        data_size = 0\n", "    def _data_size(self):\n        data_size = 0\n        if self.is_index_file:\n            return 0\n"))
V("BL6-index-written-to-data-stream", "C08", "BL6",
  ("writer.py", "            segment.write(self._index_file)\n", "            segment.write(self._file)\n"))
V("BL6-index-twin-without-flag", "C08", "BL6",
  ("writer.py", "            segment = TdmsSegment(objects, is_index_file=True, version=self._tdms_version)\n", "            segment = TdmsSegment(objects, version=self._tdms_version)\n"))
V("BL6-index-metadata-differs", "C08", "BL6",
  ("writer.py", "        metadata = self.metadata()\n", "        metadata = [] if self.is_index_file else self.metadata()\n"))
V("BL6-index-different-version", "C08", "BL6",
  ("writer.py", "            segment = TdmsSegment(objects, is_index_file=True, version=self._tdms_version)\n", "            segment = TdmsSegment(objects, is_index_file=True)\n"))
V("PO1-drop-sort", "C08", "PO1",
  ("writer.py", "        path_object_pairs.sort(key=lambda p: _path_ordering_key(p[0]))\n", ""))
V("PO1-state-before-write", "C08", "PO1",
  ("writer.py", "        objects = [p[1] for p in path_object_pairs]\n        segment = TdmsSegment(objects, version=self._tdms_version)\n",
   "        self._root_written = True\n        objects = [p[1] for p in path_object_pairs]\n        segment = TdmsSegment(objects, version=self._tdms_version)\n"))
V("PO1-key-channel-before-group", "C08", "PO1",
  ("writer.py", "    if path.is_group:\n        return 1\n    if path.is_channel:\n        return 2\n", "    if path.is_group:\n        return 2\n    if path.is_channel:\n        return 1\n"))
V("WT1-newobjlist-conditional", "C08", "WT1",
  ("writer.py", "        toc = ['kTocMetaData', 'kTocRawData', 'kTocNewObjList']\n", "        toc = ['kTocMetaData', 'kTocRawData']\n        if not self.is_index_file:\n            toc.append('kTocNewObjList')\n"))
V("C08-benign-rename-local", "C08", None,
  ("writer.py", "        next_segment_offset = metadata_size + self._data_size()\n        raw_data_offset = metadata_size\n        leadin.append(Uint64(next_segment_offset))\n        leadin.append(Uint64(raw_data_offset))\n",
   "        next_offset = metadata_size + self._data_size()\n        data_offset = metadata_size\n        leadin.append(Uint64(next_offset))\n        leadin.append(Uint64(data_offset))\n"))

V("BL5-benign-shared-encode-helper", "C08", None,
  ("writer.py", "def object_data_size(data_type, data_values):\n    if data_type == String:\n        # For string data, the total size is 8 bytes per string for the\n        # offsets to the start of each string, plus the length of each string.\n        try:\n            encoded_strings = [s.encode(\"utf-8\") for s in data_values]\n        except AttributeError:\n            encoded_strings = data_values\n",
   "def _encode_strings(strings):\n    try:\n        encoded = [s.encode(\"utf-8\") for s in strings]\n    except AttributeError:\n        encoded = strings\n    return encoded\n\n\ndef object_data_size(data_type, data_values):\n    if data_type == String:\n        encoded_strings = _encode_strings(data_values)\n"),
  ("writer.py", "def write_string_values(file, strings):\n    try:\n        encoded_strings = [s.encode(\"utf-8\") for s in strings]\n    except AttributeError:\n        # Assume if we can't encode then we already have bytes\n        encoded_strings = strings\n",
   "def write_string_values(file, strings):\n    encoded_strings = _encode_strings(strings)\n"))

# ---------------------------------------------------------------- C01 (TD1, PR1, GR1, UD1, BL1, BL2)
V("TD1-revert-complex-from-bytes", "C01", "TD1",
  ("types.py", "class ComplexSingleFloat(ComplexType):", "class ComplexSingleFloat(TdmsType):"))
V("TD1-timestamp-loses-from-bytes", "C01", "TD1",
  ("types.py", "    @classmethod\n    def from_bytes(cls, byte_array, endianness=\"<\"):\n        \"\"\" Convert an array of bytes to an array of timestamps\n        \"\"\"\n",
   "    @classmethod\n    def _from_bytes_unused(cls, byte_array, endianness=\"<\"):\n        \"\"\" Convert an array of bytes to an array of timestamps\n        \"\"\"\n"))
V("TD1-benign-mixin", "C01", None,
  ("types.py", "class ComplexType(TdmsType):\n    nptype = None\n", "class _FromBytesMixin(object):\n    pass\n\n\nclass ComplexType(_FromBytesMixin, TdmsType):\n    nptype = None\n"))
V("BL1-daqmx-scaler-short-read", "C01", "BL1",
  ("daqmx.py", "        scaler_bytes = open_file.read(20)\n", "        scaler_bytes = open_file.read(16)\n"))
V("BL1-raw-index-short-read", "C01", "BL1",
  ("tdms_segment.py", "        index_bytes = f.read(16)\n", "        index_bytes = f.read(12)\n"))
V("BL2-int16-size-4", "C01", ["BL2", "BL1"],
  ("types.py", "class Int16(StructType):\n    size = 2\n", "class Int16(StructType):\n    size = 4\n"))
V("BL2-duplicate-enum", "C01", "BL2",
  ("types.py", "@tds_data_type(6, np.uint16)", "@tds_data_type(5, np.uint16)"))
V("BL2-struct-code-mismatch", "C01", "BL2",
  ("types.py", "class Uint32(StructType):\n    size = 4\n    struct_declaration = \"L\"", "class Uint32(StructType):\n    size = 4\n    struct_declaration = \"l\""))
V("PR1-groups-in-set", "C01", "PR1",
  ("tdms.py", "        group_properties = OrderedDict()\n", "        group_properties = set()\n"))
V("PR1-first-value-wins", "C01", "PR1",
  ("reader.py", "                for prop, val in properties:\n                    object_metadata.properties[prop] = val\n",
   "                for prop, val in properties:\n                    object_metadata.properties.setdefault(prop, val)\n"))
V("PR1-sorted-objects", "C01", "PR1",
  ("tdms.py", "        for (path_string, obj) in tdms_reader.object_metadata.items():\n            properties = object_properties[path_string]",
   "        for (path_string, obj) in sorted(tdms_reader.object_metadata.items()):\n            properties = object_properties[path_string]"))

# ---------------------------------------------------------------- C03 (MP1, MP3, TS1, OFS1)
V("OFS1-group-chunk-keeps-the-mapping", "C03", "OFS1",
  ("tdms.py", "                channel_offsets[channel.path]))\n            for channel in group.channels())\n", "                channel_offsets[channel.path]))\n            for channel in group.channels())\n        self._offsets = channel_offsets\n"))
V("OFS1-count-advanced-before-yield", "C03", "OFS1",
  ("tdms.py", "            yield DataChunk(self, chunk, channel_offsets)\n            for path, data in chunk.channel_data.items():\n                channel_offsets[path] += len(data)\n",
   "            for path, data in chunk.channel_data.items():\n                channel_offsets[path] += len(data)\n            yield DataChunk(self, chunk, channel_offsets)\n"))
V("OFS1-count-not-advanced", "C03", "OFS1",
  ("tdms.py", "            yield DataChunk(self, chunk, channel_offsets)\n            for path, data in chunk.channel_data.items():\n                channel_offsets[path] += len(data)\n",
   "            yield DataChunk(self, chunk, channel_offsets)\n"))
V("MP1-no-convert-index-chunk", "C03", "MP1",
  ("tdms.py", "        (chunk, offset) = self._reader.read_channel_chunk_for_index(self.path, index)\n        _convert_channel_data_chunk(chunk, self._raw_timestamps)\n",
   "        (chunk, offset) = self._reader.read_channel_chunk_for_index(self.path, index)\n"))
V("MP1-convert-ignores-flag", "C03", "MP1",
  ("tdms.py", "            _convert_data_chunk(chunk, self._raw_timestamps)\n", "            _convert_data_chunk(chunk, False)\n"))
V("MP3-index-returns-raw", "C03", "MP3",
  ("tdms.py", "        scaled_chunk = self._scale_data(chunk)\n", "        scaled_chunk = chunk.data\n"))
V("MP3-slice-unscaled", "C03", "MP3",
  ("tdms.py", "            read_data = self.read_data(start, stop - start)\n", "            read_data = self.read_data(start, stop - start, scaled=False)\n"))
V("MP3-chunk-daqmx-no-error", "C03", "MP3",
  ("tdms.py", "        elif self._raw_data.scaler_data:\n            raise ValueError(\"Missing scaling information for DAQmx data\")\n        else:\n            return self._raw_data.data\n",
   "        else:\n            return self._raw_data.data\n"))
V("TS1-revert-no-type-read", "C03", "TS1",
  ("tdms.py", "        if self.data_type is None:\n            # Channel has no data in any segment, so there is nothing to read\n            return None\n\n", ""))
V("TS1-revert-no-type-iter", "C03", "TS1",
  ("tdms.py", "        if self.data_type is None:\n            # Channel has no data in any segment, so there is nothing to read\n            return\n", ""))

# ---------------------------------------------------------------- C04 (CS1, ES1, CS2, NT1, BD1)
V("CS1-revert-manual-counter-with-continue", "C04", "CS1",
  ("reader.py", "        values_read = 0\n        for segment_index, segment in enumerate(self._segments[start_segment:end_segment + 1], start_segment):\n",
   "        segment_index = start_segment\n        values_read = 0\n        for segment in self._segments[start_segment:end_segment + 1]:\n"),
  ("reader.py", "                yield _trim_channel_chunk(chunk, skip, trim)\n\n    def read_channel_chunk_for_index",
   "                yield _trim_channel_chunk(chunk, skip, trim)\n\n            segment_index += 1\n\n    def read_channel_chunk_for_index"))
V("CS1-benign-manual-counter-all-paths", "C04", None,
  ("reader.py", "        values_read = 0\n        for segment_index, segment in enumerate(self._segments[start_segment:end_segment + 1], start_segment):\n",
   "        segment_index = start_segment - 1\n        values_read = 0\n        for segment in self._segments[start_segment:end_segment + 1]:\n            segment_index += 1\n"))
V("ES1-enumerate-from-zero", "C04", "ES1",
  ("reader.py", "enumerate(self._segments[start_segment:end_segment + 1], start_segment):", "enumerate(self._segments[start_segment:end_segment + 1]):"))
V("CS1-counter-incremented-twice", "C04", "CS1",
  ("reader.py", "        for segment_index, segment in enumerate(self._segments[start_segment:end_segment + 1], start_segment):\n            self._verify_segment_start(segment)\n",
   "        segment_index = start_segment - 1\n        for segment in self._segments[start_segment:end_segment + 1]:\n            segment_index += 1\n            self._verify_segment_start(segment)\n            if segment.num_chunks == 0:\n                segment_index += 1\n                continue\n"))
V("BD1-full-chunks-assumed", "C04", "BD1",
  ("reader.py", "                if segment.final_chunk_lengths_override is None:\n                    final_chunk_size = chunk_size\n                else:\n                    final_chunk_size = segment.final_chunk_lengths_override.get(channel_path, 0)\n                if num_values_to_trim >= final_chunk_size:\n                    num_chunks -= 1\n                    num_values_to_trim -= final_chunk_size\n\n", ""))
V("BD1-stop-chunk-ignores-offset", "C04", "BD1",
  ("tdms_segment.py", "        stop_chunk = self.num_chunks if num_chunks is None else num_chunks + chunk_offset\n", "        stop_chunk = self.num_chunks if num_chunks is None else num_chunks\n"))
V("BD1-index-fetch-to-segment-end", "C04", "BD1",
  ("reader.py", "        chunk_data = next(segment.read_raw_data_for_channel(self._file, channel_path, chunk_index, 1))\n",
   "        chunk_data = next(segment.read_raw_data_for_channel(self._file, channel_path, chunk_index))\n"))
V("BD1-benign-divmod", "C04", None,
  ("reader.py", "                chunk_offset = num_values_to_skip // chunk_size\n                remaining_values_to_skip = num_values_to_skip % chunk_size\n",
   "                (chunk_offset, remaining_values_to_skip) = divmod(num_values_to_skip, chunk_size)\n"))
V("GD1-keeps-scanning-after-channel", "C19", "GD1",
  ("tdms_segment.py", "                current_position = file.tell()\n                break\n", "                current_position = file.tell()\n"))
V("GD1-reads-other-channels-to-skip", "C19", "GD1",
  ("tdms_segment.py", "            elif number_values == obj.number_values:\n                # Seek over data for other channel data\n                current_position += obj.data_size\n",
   "            elif number_values == obj.number_values:\n                # Seek over data for other channel data\n                file.seek(current_position)\n                file.read(obj.data_size)\n                current_position += obj.data_size\n"))
V("CS2-scaler-sliced-differently", "C04", "CS2",
  ("reader.py", "            scale_id: d[skip:len(d) - trim]\n", "            scale_id: d[skip:len(d)]\n"))
V("NT1-length-truthiness", "C04", "NT1",
  ("tdms.py", "            if length is None:\n                num_values = len(self) - offset\n", "            if not length:\n                num_values = len(self) - offset\n"))
V("BD1-read-all-chunks", "C04", "BD1",
  ("reader.py", "                    segment.read_raw_data_for_channel(self._file, channel_path, chunk_offset, num_chunks)):",
   "                    segment.read_raw_data_for_channel(self._file, channel_path, 0, segment.num_chunks)):"))

# ---------------------------------------------------------------- C09 (MP2, TM1, CO1, DF1, MP4)
V("MP2-no-verify-in-channel-read", "C09", "MP2",
  ("reader.py", "enumerate(self._segments[start_segment:end_segment + 1], start_segment):\n            self._verify_segment_start(segment)\n",
   "enumerate(self._segments[start_segment:end_segment + 1], start_segment):\n"))
V("MP2-verify-wrong-tag", "C09", "MP2",
  ("reader.py", "        expected_tag = b'TDSm'\n        tag = self._file.read(4)", "        expected_tag = b'TDSh'\n        tag = self._file.read(4)"))
V("CO1-seek-data-offset-on-index", "C09", "CO1",
  ("reader.py", "                        file.seek(start_position + segment.data_position - segment.position, os.SEEK_SET)\n", "                        file.seek(segment.data_position, os.SEEK_SET)\n"))
V("CO1-benign-regrouped", "C09", None,
  ("reader.py", "                        file.seek(start_position + segment.data_position - segment.position, os.SEEK_SET)\n",
   "                        file.seek(start_position + (segment.data_position - segment.position), os.SEEK_SET)\n"))
V("DF1-flag-not-forwarded", "C09", "DF1",
  ("reader.py", "        (position, toc_mask, data_position, next_segment_pos, segment_incomplete) = self._read_lead_in(\n            file, segment_position, is_index_file)",
   "        (position, toc_mask, data_position, next_segment_pos, segment_incomplete) = self._read_lead_in(\n            file, segment_position)"))
V("MP4-index-only-inverted", "C09", "MP4",
  ("reader.py", "        return self._file is None and self._index_file is not None\n", "        return self._index_file is not None\n"))
V("MP4-no-refusal", "C09", "MP4",
  ("tdms.py", "        if self._reader.is_index_file_only():\n            raise RuntimeError(\"Data cannot be read from index file only\")\n", ""))
V("TM1-toc-mask-big-endian", "C09", "TM1",
  ("reader.py", "toc_mask = _struct_unpack('<l', lead_in_bytes[4:8])[0]", "toc_mask = _struct_unpack('>l', lead_in_bytes[4:8])[0]"))
V("TM1-toc-mask-with-segment-byte-order", "C09", "TM1",
  ("reader.py", "        toc_mask = _struct_unpack('<l', lead_in_bytes[4:8])[0]\n",
   "        toc_mask = _struct_unpack('<l', lead_in_bytes[4:8])[0]\n        toc_mask = _struct_unpack(('>' if toc_mask & 64 else '<') + 'l', lead_in_bytes[4:8])[0]\n"))
V("TM1-benign-unpack-from", "C09", None,
  ("reader.py", "toc_mask = _struct_unpack('<l', lead_in_bytes[4:8])[0]", "(toc_mask,) = struct.unpack_from('<l', lead_in_bytes, 4)"))
V("CO1-clamp-with-index-position", "C09", "CO1",
  ("reader.py", "            if self._data_file_size is not None and next_segment_pos > self._data_file_size:", "            if self._data_file_size is not None and file.tell() > self._data_file_size:"),
  known_miss=True)

# ---------------------------------------------------------------- C10 (KC1, TD2)
V("KC1-no-raw-timestamps", "C10", "KC1",
  ("writer.py", "        file = TdmsFile(source, raw_timestamps=True)\n", "        file = TdmsFile(source)\n"))
V("KC1-scaled-data", "C10", "KC1",
  ("writer.py", "                        channel.read_data(scaled=False),\n", "                        channel.read_data(),\n"))
V("KC1-swapped-names", "C10", "KC1",
  ("writer.py", "                        group.name,\n                        channel.name,\n", "                        channel.name,\n                        group.name,\n"))
V("KC1-skip-empty-channels", "C10", "KC1",
  ("writer.py", "                for channel in group.channels():\n                    new_file.write_segment", "                for channel in group.channels():\n                    if len(channel) == 0:\n                        continue\n                    new_file.write_segment"))
V("TD2-revert-void-exclusion", "C10", "TD2",
  ("writer.py", "    return hasattr(obj, 'data') and obj.data_type is not Void\n", "    return hasattr(obj, 'data')\n"))
V("KC1-benign-keywords", "C10", None,
  ("writer.py", "        with cls(destination, version=version, index_file=index_file) as new_file:", "        with cls(destination, mode='w', version=version, index_file=index_file) as new_file:"))

# ---------------------------------------------------------------- C19 (CG1, GD1, CH1)
V("CG1-channel-read-via-full-reader", "C19", "CG1",
  ("tdms.py", "    def _read_channel_data_chunks(self):\n        if self.data_type is None:\n            # Channel has no data in any segment, so there is nothing to read\n            return\n        for chunk in self._reader.read_raw_data_for_channel(self.path):\n            _convert_channel_data_chunk(chunk, self._raw_timestamps)\n            yield chunk\n",
   "    def _read_channel_data_chunks(self):\n        if self.data_type is None:\n            return\n        for full in self._reader.read_raw_data():\n            chunk = full.channel_data.get(self.path)\n            if chunk is None:\n                continue\n            _convert_channel_data_chunk(chunk, self._raw_timestamps)\n            yield chunk\n"))
V("GD1-no-path-test", "C19", "GD1",
  ("tdms_segment.py", "            elif number_values == obj.number_values:\n                # Seek over data for other channel data\n                current_position += obj.data_size\n",
   "            elif number_values == obj.number_values:\n                # Read over data for other channel data\n                obj.read_values(file, number_values, self.endianness)\n                current_position = file.tell()\n"))
V("CH1-fetch-before-cache", "C19", "CH1",
  ("tdms.py", "            if bounds[0] <= index < bounds[1]:\n", "            if bounds[0] <= index:\n"))

# ---------------------------------------------------------------- C07 / C12 (DTA, IS1, NK1, NK2, TBf, TT1)
V("DTA-threshold-gt-for-gte", "C07", "DTA",
  ("writer.py", "    if value >= 2 ** 31 or value < -2 ** 31:\n        return Int64(value)", "    if value > 2 ** 31 or value < -2 ** 31:\n        return Int64(value)"))
V("DTA-threshold-2-32", "C07", "DTA",
  ("writer.py", "    if value >= 2 ** 31 or value < -2 ** 31:\n        return Int64(value)", "    if value >= 2 ** 32 or value < -2 ** 31:\n        return Int64(value)"))
V("DTA-uint64-threshold-2-64", "C07", "DTA",
  ("writer.py", "    if value >= 2 ** 63:\n        return Uint64(value)", "    if value >= 2 ** 64:\n        return Uint64(value)"))
V("DTA-benign-hex", "C07", None,
  ("writer.py", "    if value >= 2 ** 31 or value < -2 ** 31:\n        return Int64(value)", "    if value >= 0x80000000 or value < -0x80000000:\n        return Int64(value)"))
V("DTA-infer-dtype-uint16-threshold", "C07", "DTA",
  ("writer.py", "        elif max_value >= 2**15 and min_value >= 0:\n            return np.dtype('uint16')", "        elif max_value >= 2**14 and min_value >= 0:\n            return np.dtype('uint16')"))
V("IS1-int-before-bool", "C07", "IS1",
  ("writer.py", "    if isinstance(value, bool) or isinstance(value, np.bool_):\n        return Boolean(value)\n    if isinstance(value, int):\n        return to_int_property_value(value)\n",
   "    if isinstance(value, int):\n        return to_int_property_value(value)\n    if isinstance(value, bool) or isinstance(value, np.bool_):\n        return Boolean(value)\n"))
V("IS1-np-bool-after-number-group", "C07", "IS1",
  ("writer.py", "    if isinstance(value, np.number):\n        return numpy_data_types[value.dtype](value)\n", "    if isinstance(value, (np.number, np.bool_)):\n        return numpy_data_types[value.dtype](value)\n"))
V("IS1-datetime64-as-string", "C07", "IS1",
  ("writer.py", "    if isinstance(value, np.datetime64):\n        return TimeStamp(value)\n", "    if isinstance(value, np.datetime64):\n        return String(str(value))\n"))
V("IS1-benign-grouped-tests", "C07", None,
  ("writer.py", "    if isinstance(value, datetime):\n        return TimeStamp(value)\n    if isinstance(value, np.datetime64):\n        return TimeStamp(value)\n",
   "    if isinstance(value, (datetime, np.datetime64)):\n        return TimeStamp(value)\n"))
V("IS1-float-as-single", "C07", "IS1",
  ("writer.py", "    if isinstance(value, float):\n        return DoubleFloat(value)", "    if isinstance(value, float):\n        return SingleFloat(value)"))
V("NK1-total-microseconds-via-float", "C12", "NK1",
  ("types.py", "        seconds = int(epoch_delta / np.timedelta64(1, 's'))\n        remainder = epoch_delta - np.timedelta64(seconds, 's')\n",
   "        total = int(epoch_delta / np.timedelta64(1, 'us'))\n        seconds = total // 10**6\n        remainder = np.timedelta64(total - seconds * 10**6, 'us')\n"))
V("NK2-array-rounds", "C12", "NK2",
  ("timestamp.py", "                (self['second_fractions'] / fractions_per_step) * np.timedelta64(1, resolution))", "                np.round(self['second_fractions'] / fractions_per_step) * np.timedelta64(1, resolution))"))
V("NK2-scalar-floor-division", "C12", "NK2",
  ("timestamp.py", "                ((self.second_fractions / fractions_per_step) * np.timedelta64(1, resolution)))", "                ((self.second_fractions // fractions_per_step) * np.timedelta64(1, resolution)))"))
V("TBf-ns-constant", "C12", "TBf",
  ("timestamp.py", "    'ns': (10 ** -9) / 2 ** -64,", "    'ns': (10 ** -8) / 2 ** -64,"))
V("TBf-epoch-1970", "C12", "TBf",
  ("timestamp.py", "EPOCH = np.datetime64('1904-01-01 00:00:00', 's')", "EPOCH = np.datetime64('1970-01-01 00:00:00', 's')"))
V("TBf-benign-literal", "C12", None,
  ("timestamp.py", "    's': 1.0 / 2 ** -64,", "    's': float(2 ** 64),"))
V("TT1-absolute-track-from-rounded-increment", "C12", "TT1",
  ("tdms.py", "                (relative_time * unit_correction).astype(time_type))", "                (np.arange(len(self)) * int(increment * unit_correction)).astype(time_type))"))
V("NK2-array-step-per-microsecond-only", "C12", "NK2",
  ("timestamp.py", "    def as_datetime64(self, resolution='us'):\n        \"\"\" Convert to an array of numpy datetime64 objects", "    def as_datetime64(self, resolution='ms'):\n        \"\"\" Convert to an array of numpy datetime64 objects"))
V("TT1-linspace-off-by-one", "C12", "TT1",
  ("tdms.py", "            offset + (len(self) - 1) * increment,\n", "            offset + len(self) * increment,\n"))

V("MP3-cache-stores-raw-chunk", "C03", "MP3",
  ("tdms.py", "        self._cached_chunk = scaled_chunk\n", "        self._cached_chunk = chunk.data\n"))
V("MP3-data-property-skips-scaling", "C03", "MP3",
  ("tdms.py", "        return self._scale_data(self._raw_data)\n", "        return self._raw_data.data\n"))
V("MP3-double-scaling", "C03", "MP3",
  ("tdms.py", "        return self._scale_data(self._raw_data)\n", "        once = self._scale_data(self._raw_data)\n        return self._scaling.scale(once) if self._scaling is not None else once\n"))

V("DT3-timestamp-receiver-milliseconds", "C14", "DT3",
  ("channel_data.py", "            self.data = _new_numpy_array(np.dtype('datetime64[us]'), num_values, memmap_dir)\n",
   "            self.data = _new_numpy_array(np.dtype('datetime64[ms]'), num_values, memmap_dir)\n"))
V("DT3-strings-to-numpy-receiver", "C14", "DT3",
  ("channel_data.py", "    if obj.data_type.nptype is None:\n        return ListDataReceiver(obj)\n", "    if obj.data_type.nptype is None and obj.data_type != types.String:\n        return ListDataReceiver(obj)\n"))
V("DT3-raw-dtype-timestamp-ns", "C14", "DT3",
  ("tdms.py", "            return np.dtype('<M8[us]')\n", "            return np.dtype('<M8[ns]')\n"))
V("LN1-length-counted-separately", "C14", "LN1",
  ("reader.py", "            object_metadata.num_values += _number_of_segment_values(segment_object, segment)\n",
   "            object_metadata.num_values += segment_object.number_values * segment.num_chunks if segment_object.has_data else 0\n"))
V("LN1-benign-local", "C14", None,
  ("reader.py", "            object_metadata.num_values += _number_of_segment_values(segment_object, segment)\n",
   "            n_new = _number_of_segment_values(segment_object, segment)\n            object_metadata.num_values += n_new\n"))

# ---------------------------------------------------------------- C16 (PT1-PT4)
V("PT1-no-doubling", "C16", "PT1",
  ("common.py", "        [\"'\" + c.replace(\"'\", \"''\") + \"'\" for c in components]))", "        [\"'\" + c + \"'\" for c in components]))"))
V("PT1-hand-formatted-group-path", "C16", "PT1",
  ("writer.py", "        return str(ObjectPath(self.group))\n", "        return \"/'%s'\" % self.group\n"))
V("PT2-split-path", "C16", "PT2",
  ("tdms.py", "            path = ObjectPath.from_string(path_string)\n", "            path = ObjectPath(*[p.strip(\"'\") for p in path_string.split('/')[1:]])\n"))
V("PT3-pair-not-consumed", "C16", "PT3",
  ("common.py", "                    component += \"'\"\n                    # Consume second \"'\"\n                    next(chars)\n", "                    component += \"'\"\n"))
V("PT4-channel-data-by-name", "C16", "PT4",
  ("tdms.py", "                    self._channel_data[channel.path] = get_data_receiver(", "                    self._channel_data[channel.name] = get_data_receiver("))
V("PT1-benign-doubling-by-hand", "C16", None,
  ("common.py", "    @property\n    def is_root(self):", "    def _describe(self):\n        return \"group=%r channel=%r\" % (self.group, self.channel)\n\n    @property\n    def is_root(self):"))

V("PT3-single-quote-test-first", "C16", "PT3",
  ("common.py", "                if char == \"'\" and next_char == \"'\":\n                    component += \"'\"\n                    # Consume second \"'\"\n                    next(chars)\n                elif char == \"'\":\n                    yield \"\".join(component)\n                    break\n",
   "                if char == \"'\" and next_char != \"'\" or char == \"'\" and next_char is None:\n                    yield \"\".join(component)\n                    break\n                elif char == \"'\":\n                    component += \"''\"\n                    next(chars)\n"))
V("PT3-quote-ends-component-always", "C16", "PT3",
  ("common.py", "                if char == \"'\" and next_char == \"'\":\n                    component += \"'\"\n                    # Consume second \"'\"\n                    next(chars)\n                elif char == \"'\":\n",
   "                if char == \"'\":\n"))
V("PT3-other-quote-character", "C16", "PT3",
  ("common.py", "            elif next_char is not None and next_char != \"'\":\n", "            elif next_char is not None and next_char != '\"':\n"))
V("PT4-groups-keyed-by-path", "C16", "PT4",
  ("tdms.py", "            self._groups[group_name] = TdmsGroup(group_path, properties, channels)\n", "            self._groups[str(group_path)] = TdmsGroup(group_path, properties, channels)\n"))
V("PT4-group-properties-by-group-path", "C16", "PT4",
  ("tdms.py", "                group_properties[path.group] = properties\n", "                group_properties[path_string] = properties\n"))
V("PT4-implicit-group-from-path", "C16", "PT4",
  ("writer.py", "            path_object_pairs.extend((ObjectPath(g), GroupObject(g)) for g in groups_to_add)\n",
   "            path_object_pairs.extend((ObjectPath(g), GroupObject(str(ObjectPath(g)))) for g in groups_to_add)\n"))
V("PT2-name-stripped", "C16", "PT2",
  ("tdms.py", "                group_properties[path.group] = properties\n", "                group_properties[path.group.strip()] = properties\n"))
V("PT4-benign-renamed-locals", "C16", None,
  ("tdms.py", "                group_properties[path.group] = properties\n", "                gname = path.group\n                group_properties[gname] = properties\n"))

# ---------------------------------------------------------------- C18 (TB1-TB5)
V("TB1-boundary-moved", "C18", ["TB1", "TB3"],
  ("thermocouples.py", "            applicable_range=Range(630.615, None),", "            applicable_range=Range(630.715, None),"))
V("TB2-inclusive-flip", "C18", "TB2",
  ("thermocouples.py", "        return (self.start <= value) & (value < self.end)", "        return (self.start < value) & (value <= self.end)"))
V("TB2-np-polyval", "C18", "TB2",
  ("thermocouples.py", "        return poly.polyval(x, self._coefficients)", "        return np.polyval(self._coefficients, x)"))
V("TB3-forward-digit", "C18", "TB3",
  ("thermocouples.py", "                0.590404211710E-05,", "                0.590404211701E-05,"))
V("TB3-benign-reformat-literal", "C18", None,
  ("thermocouples.py", "                0.590404211710E-05,", "                5.90404211710E-06,"))
V("TB4-k-maps-to-j", "C18", "TB4",
  ("scaling.py", "            10073: thermocouples.type_k,", "            10073: thermocouples.type_j,"))
V("TB5-wrong-branch-factor", "C18", "TB5",
  ("scaling.py", "            milli_volts = data / 1000.0\n", "            milli_volts = data * 1000.0\n"))
V("TB5-benign-1e3", "C18", None,
  ("scaling.py", "            return 1000.0 * self.thermocouple.celsius_to_mv(data)", "            return 1e3 * self.thermocouple.celsius_to_mv(data)"))
V("TB5-direction-swapped", "C18", "TB5",
  ("scaling.py", "        if self.scaling_direction == 1:\n            return 1000.0", "        if self.scaling_direction != 1:\n            return 1000.0"))

# ---------------------------------------------------------------- C11 (SR1, TR1, DL1, SB1)
V("TR1-pair-built-swapped", "C11", "TR1",
  ("daqmx.py", "            dimensions[buffer_index] = (updated_num_values, current_buffer_shape[1])\n",
   "            dimensions[buffer_index] = (current_buffer_shape[1], updated_num_values)\n"))
V("TR1-columns-up-to-size", "C11", "TR1",
  ("daqmx.py", "                        range(byte_offset, byte_offset + scaler_size))\n", "                        range(byte_offset, scaler_size))\n"))
V("TR1-scalers-by-object-position", "C11", "TR1",
  ("daqmx.py", "                    if scaler.raw_buffer_index == raw_buffer_index]\n", "                    if scaler.raw_buffer_index == i]\n"))
V("TR1-strided-view-instead-of-columns", "C11", "TR1",
  ("daqmx.py", "                    this_scaler_data = combined_data[:, byte_columns].ravel()\n", "                    this_scaler_data = combined_data.ravel()[byte_offset::raw_data_width]\n"))
V("TR1-chunk-size-sums-widths-only", "C11", "TR1",
  ("daqmx.py", "    return sum((num_values * width) for (num_values, width) in get_buffer_dimensions(ordered_objects))\n",
   "    return sum((width * width) for (num_values, width) in get_buffer_dimensions(ordered_objects))\n"))
V("TR1-swapped-dims", "C11", "TR1",
  ("daqmx.py", "            combined_data = read_interleaved_segment_bytes(file, raw_data_width, chunk_size)", "            combined_data = read_interleaved_segment_bytes(file, chunk_size, raw_data_width)"))
V("DL1-bit-offset-wrong-modulus", "C11", "DL1",
  ("daqmx.py", "        bit_offset = self.raw_bit_offset % 8", "        bit_offset = self.raw_bit_offset % 16"))
V("SB1-no-break", "C11", "SB1",
  ("daqmx.py", "            updated_buffer_lengths[i] = bytes_remaining // width\n            break\n", "            updated_buffer_lengths[i] = bytes_remaining // width\n            bytes_remaining = 0\n"))
V("SR1-digital-header-not-routed", "C11", "SR1",
  ("tdms_segment.py", "        if raw_data_index_header in (FORMAT_CHANGING_SCALER, DIGITAL_LINE_SCALER):\n            return DaqmxSegmentObject(object_path)", "        if raw_data_index_header in (FORMAT_CHANGING_SCALER,):\n            return DaqmxSegmentObject(object_path)"))
V("BL3-daqmx-metadata-little-endian", "C11", "BL3",
  ("daqmx.py", "         scaler_vector_length) = _struct_unpack(endianness + 'LQL', metadata_bytes)", "         scaler_vector_length) = _struct_unpack('<LQL', metadata_bytes)"))

V("DL1-mask-before-shift-overflows-int8", "C11", "DL1",
  ("daqmx.py", "        return np.bitwise_and(np.right_shift(data, bit_offset), 1)\n",
   "        bitmask = 1 << bit_offset\n        return np.right_shift(np.bitwise_and(data, bitmask), bit_offset)\n"))
V("DL1-benign-operator-form", "C11", None,
  ("daqmx.py", "        return np.bitwise_and(np.right_shift(data, bit_offset), 1)\n", "        return (data >> bit_offset) & 1\n"))


# ---------------------------------------------------------------- C06 (TC) - files cut short
V("TC1-clamp-ge", "C06", "TC1",
  ("reader.py", "if self._data_file_size is not None and next_segment_pos > self._data_file_size:", "if self._data_file_size is not None and next_segment_pos >= self._data_file_size:"))
V("TC1-clamp-without-flag", "C06", "TC1",
  ("reader.py", "                next_segment_pos = self._data_file_size\n                segment_incomplete = True\n", "                next_segment_pos = self._data_file_size\n"))
V("TC1-flag-without-clamp", "C06", "TC1",
  ("reader.py", "                next_segment_pos = self._data_file_size\n                segment_incomplete = True\n", "                segment_incomplete = True\n"))
V("TC1-marker-not-incomplete", "C06", "TC1",
  ("reader.py", "        segment_incomplete = next_segment_offset == 0xFFFFFFFFFFFFFFFF\n        if segment_incomplete:\n",
   "        segment_incomplete = False\n        if next_segment_offset == 0xFFFFFFFFFFFFFFFF:\n"))
V("TC1-benign-min", "C06", None,
  ("reader.py", "            if self._data_file_size is not None and next_segment_pos > self._data_file_size:\n                # The raw data offset is incorrect, and there is less data than expected in this segment\n                next_segment_pos = self._data_file_size\n                segment_incomplete = True\n",
   "            if self._data_file_size is not None:\n                segment_incomplete = next_segment_pos > self._data_file_size\n                next_segment_pos = min(next_segment_pos, self._data_file_size)\n"))
V("TC1-benign-helper", "C06", None,
  ("reader.py", "            if self._data_file_size is not None and next_segment_pos > self._data_file_size:\n", "            if self._beyond_end_of_file(next_segment_pos):\n"),
  ("reader.py", "    def _verify_segment_start(self, segment):", "    def _beyond_end_of_file(self, position):\n        return self._data_file_size is not None and position > self._data_file_size\n\n    def _verify_segment_start(self, segment):"))
V("TC2-short-lead-in-zero-only", "C06", "TC2",
  ("reader.py", "        if len(lead_in_bytes) < 28:\n            raise EOFError\n", "        if len(lead_in_bytes) < 1:\n            raise EOFError\n"))
V("TC2-short-lead-in-le", "C06", "TC2",
  ("reader.py", "        if len(lead_in_bytes) < 28:\n            raise EOFError\n", "        if len(lead_in_bytes) <= 28:\n            raise EOFError\n"))
V("TC2-benign-ne", "C06", None,
  ("reader.py", "        if len(lead_in_bytes) < 28:\n            raise EOFError\n", "        if len(lead_in_bytes) != 28:\n            raise EOFError()\n"))
V("TC2-torn-metadata-le", "C06", "TC2",
  ("reader.py", "            if next_segment_pos < data_position:\n", "            if next_segment_pos <= data_position:\n"))
V("TC2-torn-metadata-only-for-marker", "C06", "TC2",
  ("reader.py", "        if segment_incomplete:\n            if next_segment_pos < data_position:\n", "        if segment_incomplete:\n            if next_segment_offset == 0xFFFFFFFFFFFFFFFF and next_segment_pos < data_position:\n"))
V("TC2-benign-torn-swapped", "C06", None,
  ("reader.py", "            if next_segment_pos < data_position:\n", "            if data_position > next_segment_pos:\n"))
V("TC2-handler-reraises", "C06", "TC2",
  ("reader.py", "                    except EOFError:\n                        # We've finished reading the file\n                        break\n",
   "                    except EOFError:\n                        # We've finished reading the file\n                        if not self._segments:\n                            raise\n                        break\n"))
# ---------------------------------------------------------------- C11 (TR2)
V("TR2-one-length-for-all-buffers", "C11", "TR2",
  ("daqmx.py", "            combined_data = read_interleaved_segment_bytes(\n                f, raw_data_width, number_values)\n",
   "            combined_data = read_interleaved_segment_bytes(\n                f, raw_data_width, all_daqmx_metadata[0].chunk_size)\n") if False else
  ("daqmx.py", "    return sum((num_values * width) for (num_values, width) in get_buffer_dimensions(ordered_objects))",
   "    rows = max(o.number_values for o in ordered_objects)\n    return sum((rows * width) for (_n, width) in get_buffer_dimensions(ordered_objects))"))
V("TR2-benign-named-pairs", "C11", None,
  ("daqmx.py", "    return sum((num_values * width) for (num_values, width) in get_buffer_dimensions(ordered_objects))",
   "    total = 0\n    for dims in get_buffer_dimensions(ordered_objects):\n        rows, row_bytes = dims\n        total += rows * row_bytes\n    return total"))
_RD_OLD = "        if self._raw_data is None:\n            raw_data = self._read_channel_data(offset, length)\n"
V("OW4-window-from-cache-start-only", "C05", "OW4",
  ("tdms.py", _RD_OLD, "        if self._raw_data is None:\n            if scaled and length is not None and self._cached_chunk is not None:\n"
   "                (chunk_start, chunk_end) = self._cached_chunk_bounds\n                if chunk_start <= offset < chunk_end and length >= 0:\n"
   "                    start = offset - chunk_start\n                    return self._cached_chunk[start:start + length].copy()\n"
   "            raw_data = self._read_channel_data(offset, length)\n"))
V("OW4-benign-window-from-cache-both-ends", "C05", None,
  ("tdms.py", _RD_OLD, "        if self._raw_data is None:\n            if scaled and length is not None and self._cached_chunk is not None:\n"
   "                (chunk_start, chunk_end) = self._cached_chunk_bounds\n                if chunk_start <= offset and length >= 0 and offset + length <= chunk_end:\n"
   "                    start = offset - chunk_start\n                    return self._cached_chunk[start:start + length].copy()\n"
   "            raw_data = self._read_channel_data(offset, length)\n"))
V("TR3-dimensions-from-one-channel", "C11", "TR3",
  ("daqmx.py", "\n\ndef get_daqmx_chunk_size(ordered_objects):", "\n    def _read_channel_data_chunk(self, file, data_objects, chunk_index, channel_path):\n"
   "        mine = [o for o in data_objects if o.path == channel_path]\n        chunk = self._read_data_chunk(file, mine, chunk_index)\n"
   "        return chunk.channel_data.get(channel_path, RawChannelDataChunk.empty())\n\n\ndef get_daqmx_chunk_size(ordered_objects):"))
V("TR3-benign-all-objects", "C11", None,
  ("daqmx.py", "\n\ndef get_daqmx_chunk_size(ordered_objects):", "\n    def _read_channel_data_chunk(self, file, data_objects, chunk_index, channel_path):\n"
   "        everything = list(data_objects)\n        chunk = self._read_data_chunk(file, everything, chunk_index)\n"
   "        return chunk.channel_data.get(channel_path, RawChannelDataChunk.empty())\n\n\ndef get_daqmx_chunk_size(ordered_objects):"))
V("RL2-except-exception-instead-of-finally", "C20", "RL2",
  ("tdms.py", "        finally:\n            if not keep_open:\n                self._reader.close()\n",
   "        except Exception:\n            self._reader.close()\n            raise\n        if not keep_open:\n            self._reader.close()\n"))
V("RL2-benign-except-baseexception", "C20", None,
  ("tdms.py", "        finally:\n            if not keep_open:\n                self._reader.close()\n",
   "        except BaseException:\n            if not keep_open:\n                self._reader.close()\n            raise\n        if not keep_open:\n            self._reader.close()\n"))
V("BL4-receiver-keeps-chunk", "C15", "BL4",
  ("channel_data.py", "        if self._raw_timestamps:\n            # Need to be careful", "        if self._raw_timestamps and start_pos == 0 and len(new_data) == len(self.data):\n            self.data = new_data\n        elif self._raw_timestamps:\n            # Need to be careful"))
V("BD1-final-chunk-size-by-modulo", "C04", "BD1",
  ("reader.py", "                if segment.final_chunk_lengths_override is None:\n                    final_chunk_size = chunk_size\n                else:\n                    final_chunk_size = segment.final_chunk_lengths_override.get(channel_path, 0)\n",
   "                final_chunk_size = (segment_end_index - segment_start_index) % chunk_size\n                final_chunk_size = chunk_size if final_chunk_size == 0 else final_chunk_size\n"))
V("BD1-final-chunk-size-modulo-or", "C04", "BD1",
  ("reader.py", "                if segment.final_chunk_lengths_override is None:\n                    final_chunk_size = chunk_size\n                else:\n                    final_chunk_size = segment.final_chunk_lengths_override.get(channel_path, 0)\n",
   "                final_chunk_size = ((segment_end_index - segment_start_index) % chunk_size) or chunk_size\n"))
_ST_OLD = ("    scaling_status = properties.get(\"NI_Scaling_Status\", \"unscaled\")\n    if scaling_status == \"scaled\":\n"
           "        # Data is written with scaling already applied\n        return None\n\n")
_GS_OLD = ("    scalings = (\n        _get_channel_scaling(p)\n        for p in [channel_properties, group_properties, file_properties])\n"
           "    try:\n        return next(s for s in scalings if s is not None)\n    except StopIteration:\n        return None\n")
V("ST1-status-of-the-channel-only", "C13", "ST1",
  ("scaling.py", _ST_OLD, ""),
  ("scaling.py", _GS_OLD, "    if channel_properties.get(\"NI_Scaling_Status\", \"unscaled\") == \"scaled\":\n        return None\n"
   "    for p in [channel_properties, group_properties, file_properties]:\n        s = _get_channel_scaling(p)\n        if s is not None:\n            return s\n    return None\n"))
V("ST1-benign-status-tested-per-scope-in-the-caller", "C13", None,
  ("scaling.py", _ST_OLD, ""),
  ("scaling.py", _GS_OLD, "    for p in [channel_properties, group_properties, file_properties]:\n        if p.get(\"NI_Scaling_Status\", \"unscaled\") == \"scaled\":\n            continue\n"
   "        s = _get_channel_scaling(p)\n        if s is not None:\n            return s\n    return None\n"))
_DT_OLD = ("    @property\n    def data_type(self):\n        try:\n            return numpy_data_types[self.data.dtype]\n")
V("MS1-data-type-memoised-on-the-channel-object", "C08", "MS1",
  ("writer.py", _DT_OLD, "    _data_type = None\n\n    @property\n    def data_type(self):\n        if self._data_type is None:\n            self._data_type = self._find_data_type()\n"
   "        return self._data_type\n\n    def _find_data_type(self):\n        try:\n            return numpy_data_types[self.data.dtype]\n"))
V("MS1-benign-memo-of-nothing-reassignable", "C08", None,
  ("writer.py", _DT_OLD, "    _void = None\n\n    def _void_type(self):\n        if self._void is None:\n            self._void = Void\n        return self._void\n\n"
   "    @property\n    def data_type(self):\n        try:\n            return numpy_data_types[self.data.dtype]\n"))
V("BD1-receiver-sized-without-the-offset", "C04", "BD1",
  ("tdms.py", "            if length is None:\n                num_values = len(self) - offset\n", "            if length is None:\n                num_values = len(self)\n"))
_IX_OLD = "        if index_cache is not None:\n            self.object_index = index_cache.get_index(self.ordered_objects)\n"
_IX_NEW = ("        if index_cache is not None:\n            if existing_objects is not None and not appended:\n                self.object_index = previous_segment.object_index\n"
           "            else:\n                self.object_index = index_cache.get_index(self.ordered_objects)\n")
_AP_OLD = "                self.ordered_objects.append(segment_obj)\n                if raw_data_index_header == RAW_DATA_INDEX_MATCHES_PREVIOUS:\n"
_AP_NEW = "                self.ordered_objects.append(segment_obj)\n                appended = True\n                if raw_data_index_header == RAW_DATA_INDEX_MATCHES_PREVIOUS:\n"
_RU_OLD = "                self._reuse_previous_object(\n                    previous_segment_obj, raw_data_index_header, file, endianness)\n"
_RU_NEW = "                self._reuse_previous_object(\n                    previous_segment_obj, raw_data_index_header, file, endianness)\n                appended = True\n"
_FL_OLD = "        log.debug(\"Reading segment object metadata at %d\", file.tell())\n"
_FL_NEW = "        appended = False\n        log.debug(\"Reading segment object metadata at %d\", file.tell())\n"
V("IN2-flag-forgotten-when-a-known-object-is-re-added", "C02", "IN2",
  ("tdms_segment.py", _IX_OLD, _IX_NEW), ("tdms_segment.py", _AP_OLD, _AP_NEW), ("tdms_segment.py", _FL_OLD, _FL_NEW))
V("IN2-benign-flag-set-by-both-appending-branches", "C02", None,
  ("tdms_segment.py", _IX_OLD, _IX_NEW), ("tdms_segment.py", _AP_OLD, _AP_NEW), ("tdms_segment.py", _RU_OLD, _RU_NEW), ("tdms_segment.py", _FL_OLD, _FL_NEW))
V("CE1-block-slice-ends-at-the-block-size", "C05", "CE1",
  ("reader.py", "    num_chunks = (len(a) + chunk_size - 1) // chunk_size\n    for i in range(num_chunks):\n        offset = i * chunk_size\n        if not (a[offset:offset+chunk_size] == b[offset:offset+chunk_size]).all():\n",
   "    for offset in range(0, len(a), chunk_size):\n        if not (a[offset:chunk_size] == b[offset:chunk_size]).all():\n"))
V("CE1-benign-range-with-step", "C05", None,
  ("reader.py", "    num_chunks = (len(a) + chunk_size - 1) // chunk_size\n    for i in range(num_chunks):\n        offset = i * chunk_size\n        if not (a[offset:offset+chunk_size] == b[offset:offset+chunk_size]).all():\n",
   "    for offset in range(0, len(a), chunk_size):\n        if not (a[offset:offset + chunk_size] == b[offset:offset + chunk_size]).all():\n"))
