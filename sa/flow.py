"""Syntax-directed abstract interpretation skeleton (set-of-states domain).

`FlowInterp` walks function bodies in execution order with a *set of abstract
states* (any hashable values), joining at control-flow merges and iterating
loops to a fixpoint.  Subclasses define the transfer functions:

  on_call(call, states, env)      -> states   (after arguments were evaluated)
  on_assign(stmt, states, env)    -> states   (after the value was evaluated)
  on_augassign(stmt, states, env) -> states
  on_yield(node, states, env)     -> states
  on_test(test, states, env)      -> (states_if_true, states_if_false)  (optional refinement)
  resolve(call, env)              -> [(FuncInfo, self_class)] callees to inline

Generator calls in `for` headers are analysed with the loop body as their
continuation (env['on_yield_cont']).
"""
import ast

from .core import call_name, dotted, AnalysisError

MAX_DEPTH = 14


class FlowInterp:
    def __init__(self, prog):
        self.prog = prog
        self.chain = []
        self.active = []

    # ---- hooks (override) ---------------------------------------------------
    def on_call(self, c, states, env):
        return None   # None -> default handling (inline resolved callees)

    def on_assign(self, s, states, env):
        return states

    def on_augassign(self, s, states, env):
        return states

    def on_yield(self, node, states, env):
        cont = env.get("on_yield_cont")
        return frozenset(cont(states)) if cont else states

    def on_test(self, test, states, env):
        return states, states

    def on_stmt(self, s, states, env):
        return None

    def resolve(self, c, env):
        return []

    def bind(self, callee, call, env, self_cls):
        """extra environment for the callee activation"""
        return {}

    def should_descend(self, callee, env):
        return True

    # ---- driver ---------------------------------------------------------------
    def run_func(self, fi, self_cls, states, depth=0, on_yield_cont=None, extra=None):
        if depth > MAX_DEPTH:
            raise AnalysisError("flow: call nesting bound %d exceeded at %s" % (MAX_DEPTH, fi.qual))
        env = dict(fi=fi, self_cls=self_cls, depth=depth, returns=set(), brk=None, cont=None,
                   on_yield_cont=on_yield_cont)
        if extra:
            env.update(extra)
        self.chain.append(fi.qual)
        try:
            out = self.block(fi.node.body, frozenset(states), env)
        finally:
            self.chain.pop()
        env_out = frozenset(out | env["returns"])
        self.last_env = env
        return env_out

    def block(self, stmts, states, env):
        for s in stmts:
            if not states:
                break
            states = self.stmt(s, states, env)
        return states

    def _loop(self, body, head, env, pre=None):
        exits = frozenset()
        for _ in range(8):
            st = pre(head) if pre else head
            saved = (env["brk"], env["cont"])
            env["brk"], env["cont"] = set(), set()
            body_out = self.block(body, st, env)
            brk, cont = env["brk"], env["cont"]
            env["brk"], env["cont"] = saved
            exits = exits | frozenset(brk)
            new_head = head | body_out | frozenset(cont)
            if new_head == head:
                break
            head = new_head
        return head, exits

    def stmt(self, s, states, env):
        r = self.on_stmt(s, states, env)
        if r is not None:
            return r
        if isinstance(s, ast.If):
            st = self.expr(s.test, states, env)
            t, f = self.on_test(s.test, st, env)
            return self.block(s.body, t, env) | self.block(s.orelse, f, env)
        if isinstance(s, (ast.For, ast.AsyncFor)):
            return self.for_loop(s, states, env)
        if isinstance(s, ast.While):
            head, exits = self._loop(s.body, states, env, pre=lambda h: self.on_test(s.test, self.expr(s.test, h, env), env)[0])
            const_true = isinstance(s.test, ast.Constant) and s.test.value is True
            return (frozenset() if const_true else self.on_test(s.test, head, env)[1]) | exits
        if isinstance(s, (ast.With, ast.AsyncWith)):
            for it in s.items:
                states = self.expr(it.context_expr, states, env)
            return self.block(s.body, states, env)
        if isinstance(s, ast.Try):
            body_out = self.block(s.body, states, env)
            out = body_out
            if s.orelse:
                out = self.block(s.orelse, out, env)
            for h in s.handlers:
                out = out | self.block(h.body, states | body_out, env)
            if s.finalbody:
                out = self.block(s.finalbody, out | states, env)
            return out
        if isinstance(s, ast.Return):
            if s.value is not None:
                states = self.expr(s.value, states, env)
                states = self.on_return(s, states, env)
            env["returns"] |= set(states)
            return frozenset()
        if isinstance(s, ast.Raise):
            if s.exc is not None:
                self.expr(s.exc, states, env)
            return frozenset()
        if isinstance(s, ast.Break):
            if env["brk"] is not None:
                env["brk"] |= set(states)
            return frozenset()
        if isinstance(s, ast.Continue):
            if env["cont"] is not None:
                env["cont"] |= set(states)
            return frozenset()
        if isinstance(s, (ast.FunctionDef, ast.ClassDef, ast.Pass, ast.Import, ast.ImportFrom, ast.Global, ast.Nonlocal)):
            return states
        if isinstance(s, ast.Assign):
            states = self.expr(s.value, states, env)
            for t in s.targets:
                if isinstance(t, (ast.Subscript, ast.Attribute)):
                    states = self.expr(t.value, states, env)
                    if isinstance(t, ast.Subscript):
                        states = self.expr(t.slice, states, env)
            return self.on_assign(s, states, env)
        if isinstance(s, ast.AugAssign):
            states = self.expr(s.value, states, env)
            return self.on_augassign(s, states, env)
        for child in ast.iter_child_nodes(s):
            if isinstance(child, ast.expr):
                states = self.expr(child, states, env)
        return states

    def on_return(self, s, states, env):
        return states

    def _unwrap_iter(self, it):
        while isinstance(it, ast.Call) and call_name(it) in ("enumerate", "iter", "reversed", "list") and it.args:
            it = it.args[0]
        return it

    def for_loop(self, s, states, env):
        it = self._unwrap_iter(s.iter)
        gens, nongens = [], []
        if isinstance(it, ast.Call):
            targets = self.resolve(it, env)
            gens = [(t, c) for (t, c) in targets if t.is_generator]
            nongens = [(t, c) for (t, c) in targets if not t.is_generator]
        out = frozenset()
        if gens:
            st0 = states
            for a in list(it.args) + [k.value for k in it.keywords]:
                st0 = self.expr(a, st0, env)
            exits = frozenset()
            brks = set()
            for (callee, self_cls) in gens:
                def cont(st, s=s, env=env, brks=brks):
                    saved = (env["brk"], env["cont"])
                    env["brk"], env["cont"] = set(), set()
                    st = self.on_loop_target(s, st, env)
                    o = self.block(s.body, st, env)
                    o = o | frozenset(env["cont"])
                    brks |= env["brk"]
                    env["brk"], env["cont"] = saved
                    return o
                exits = exits | self.run_func(callee, self_cls, st0, env["depth"] + 1, on_yield_cont=cont,
                                              extra=self.bind(callee, it, env, self_cls))
            out = out | exits | frozenset(brks)
            if not nongens:
                if s.orelse:
                    out = self.block(s.orelse, out, env)
                return out
        states = self.expr(s.iter, states, env)
        head, exits = self._loop(s.body, states, env, pre=lambda h: self.on_loop_target(s, h, env))
        out = out | head | exits
        if s.orelse:
            out = self.block(s.orelse, out, env)
        return out

    def on_loop_target(self, s, states, env):
        return states

    # ---- expressions ----------------------------------------------------------
    def expr(self, e, states, env):
        if e is None or not states:
            return states
        if isinstance(e, (ast.Yield, ast.YieldFrom)):
            if e.value is not None:
                states = self.expr(e.value, states, env)
            return frozenset(self.on_yield(e, states, env))
        if isinstance(e, ast.Call):
            return self.call(e, states, env)
        if isinstance(e, ast.Lambda):
            return states
        if isinstance(e, (ast.ListComp, ast.SetComp, ast.DictComp, ast.GeneratorExp)):
            for g in e.generators:
                states = self.expr(g.iter, states, env)
            head = states
            for _ in range(4):
                st = head
                for g in e.generators:
                    for c in g.ifs:
                        st = self.expr(c, st, env)
                if isinstance(e, ast.DictComp):
                    st = self.expr(e.key, st, env)
                    st = self.expr(e.value, st, env)
                else:
                    st = self.expr(e.elt, st, env)
                if head | st == head:
                    break
                head = head | st
            return head
        if isinstance(e, ast.IfExp):
            st = self.expr(e.test, states, env)
            t, f = self.on_test(e.test, st, env)
            return self.expr(e.body, t, env) | self.expr(e.orelse, f, env)
        if isinstance(e, ast.BoolOp):
            st = self.expr(e.values[0], states, env)
            out = st
            for v in e.values[1:]:
                st = self.expr(v, st, env)
                out = out | st
            return out
        states = self.on_expr(e, states, env)
        for child in ast.iter_child_nodes(e):
            if isinstance(child, ast.expr):
                states = self.expr(child, states, env)
            elif isinstance(child, ast.keyword):
                states = self.expr(child.value, states, env)
        return states

    def on_expr(self, e, states, env):
        return states

    def call(self, c, states, env):
        # receiver and arguments first
        if isinstance(c.func, ast.Attribute):
            states = self.expr(c.func.value, states, env)
        for a in list(c.args) + [k.value for k in c.keywords]:
            states = self.expr(a, states, env)
        r = self.on_call(c, states, env)
        if r is not None:
            return r
        cn = call_name(c)
        if cn == "next" and c.args and isinstance(self._unwrap_iter(c.args[0]), ast.Call):
            inner = self._unwrap_iter(c.args[0])
            targets = self.resolve(inner, env)
            if targets and all(t.is_generator for t, _ in targets):
                out = frozenset()
                for (callee, self_cls) in targets:
                    out = out | self.run_func(callee, self_cls, states, env["depth"] + 1, on_yield_cont=lambda st: st,
                                              extra=self.bind(callee, inner, env, self_cls))
                return out
        targets = self.resolve(c, env)
        if not targets:
            return states
        out = frozenset()
        for (callee, self_cls) in targets:
            if callee.is_generator or not self.should_descend(callee, env) or any(x is callee for x in self.active):
                out = out | states
                continue
            self.active.append(callee)
            try:
                out = out | self.run_func(callee, self_cls, states, env["depth"] + 1,
                                          on_yield_cont=env.get("on_yield_cont"), extra=self.bind(callee, c, env, self_cls))
            finally:
                self.active.pop()
        return out


def resolve_call(prog, fi, self_cls, c, receivers_fn=None):
    """Shared callee resolution for interpreters: -> [(FuncInfo, self class or None)]"""
    from .callgraph import _receiver_classes, EXTERNAL, EXTERNAL_METHODS
    f = c.func
    if isinstance(f, ast.Name):
        r = prog.resolve_name(fi.module, f.id)
        if r and r[0] == "func":
            return [(r[1], None)]
        if r and r[0] == "class":
            init = prog.lookup(r[1], "__init__")
            return [(init[2], r[1])] if init and init[0] == "method" else []
        return []
    if not isinstance(f, ast.Attribute):
        return []
    name = f.attr
    recv = dotted(f.value)
    if recv in ("self", "cls"):
        cls = self_cls or fi.cls
        if cls is None:
            return []
        found = prog.lookup(cls, name)
        if found and found[0] == "method":
            return [(found[2], cls)]
        return []
    if isinstance(f.value, ast.Call) and call_name(f.value) == "super" and fi.cls is not None:
        for k in prog.mro(fi.cls)[1:]:
            if name in k.methods:
                return [(k.methods[name], self_cls or fi.cls)]
        return []
    if recv is not None:
        r = prog.resolve_expr(fi.module, f.value)
        if r is not None:
            if r[0] == "module":
                rr = prog.resolve_name(r[1], name)
                return [(rr[1], None)] if rr and rr[0] == "func" else []
            if r[0] == "class":
                found = prog.lookup(r[1], name)
                return [(found[2], r[1])] if found and found[0] == "method" else []
            if r[0] == "ext":
                return []
        classes = _receiver_classes(prog, fi, recv, {})
        if classes == EXTERNAL:
            return []
        if classes:
            out = []
            for k in classes:
                found = prog.lookup(k, name)
                if found and found[0] == "method" and (found[2], k) not in out:
                    out.append((found[2], k))
            return out
    if name in EXTERNAL_METHODS:
        return []
    cands = [m for m in prog.functions.values() if m.cls is not None and m.name == name]
    return [(m, m.cls) for m in cands]
