"""DT1-DT4, LN1: channel.dtype / len(channel) describe what reads return (C14)."""
import ast

from .registry import rule
from .core import call_name, dotted, walk_shallow, walk_body, unparse, AnchorMissing, AnalysisError

RAW_DTYPES = ["int8", "int16", "int32", "int64", "uint8", "uint16", "uint32", "uint64", "float32", "float64"]


class Unknown:
    def __repr__(self):
        return "<unknown>"


UNK = Unknown()


class _Return(Exception):
    pass


class DtypeInterp:
    """Abstract interpreter of scale methods over *dtype witnesses*: arrays are zero-length
    NumPy arrays, coefficients read from a file are Python floats; every arithmetic / NumPy
    operation is delegated to NumPy itself (used as an oracle of its own promotion rules, never
    applied to repository data).  Branch conditions that depend on configuration are explored
    both ways; the result is the set of dtypes a call can return."""

    MAX_PATHS = 256

    def __init__(self, prog, coef="pyfloat"):
        import numpy as np
        self.np = np
        self.prog = prog
        self.coef = 1.5 if coef == "pyfloat" else np.float64(1.5)
        self.undecided = []

    # -- entry --------------------------------------------------------------------
    def call_method(self, fi, args, self_attrs=None, depth=0):
        """-> set of result dtypes (np.dtype) or {UNK}"""
        if depth > 6:
            return {UNK}
        params = [p for p in fi.params if p not in ("self", "cls")]
        env0 = dict(zip(params, args))
        results = []
        self._paths = 0
        self._run_block(fi, fi.node.body, env0, results, depth, self_attrs or {})
        out = set()
        for r in results:
            out.add(self._dtype_of(r))
        return out

    def _dtype_of(self, v):
        np = self.np
        if isinstance(v, np.ndarray):
            return v.dtype
        if isinstance(v, np.generic):
            return v.dtype
        if isinstance(v, float):
            return "pyfloat"
        if isinstance(v, int) and not isinstance(v, bool):
            return "pyint"
        return UNK

    def _run_block(self, fi, stmts, env, results, depth, sattrs):
        """Executes stmts; forks on unknown conditions.  Returns list of envs that fall through."""
        envs = [env]
        for s in stmts:
            nxt = []
            for e in envs:
                nxt.extend(self._stmt(fi, s, e, results, depth, sattrs))
            envs = nxt
            if not envs:
                break
        return envs

    def _stmt(self, fi, s, env, results, depth, sattrs):
        np = self.np
        self._paths += 1
        if self._paths > 5000:
            raise AnalysisError("DT1: path explosion in %s" % fi.qual)
        if isinstance(s, ast.Return):
            results.append(self._eval(fi, s.value, env, depth, sattrs) if s.value is not None else None)
            return []
        if isinstance(s, ast.Raise):
            return []
        if isinstance(s, ast.Expr):
            self._eval(fi, s.value, env, depth, sattrs)
            return [env]
        if isinstance(s, ast.Assign):
            v = self._eval(fi, s.value, env, depth, sattrs)
            env = dict(env)
            for t in s.targets:
                if isinstance(t, ast.Name):
                    env[t.id] = v
                elif isinstance(t, ast.Tuple):
                    for i, e in enumerate(t.elts):
                        if isinstance(e, ast.Name):
                            try:
                                env[e.id] = v[i]
                            except Exception:
                                env[e.id] = UNK
                # item stores do not change dtype
            return [env]
        if isinstance(s, ast.AugAssign):
            # in-place: array target keeps its dtype; scalar target follows the operation
            if isinstance(s.target, ast.Name):
                cur = env.get(s.target.id, UNK)
                if not isinstance(cur, np.ndarray):
                    v = self._binop(s.op, cur, self._eval(fi, s.value, env, depth, sattrs))
                    env = dict(env)
                    env[s.target.id] = v
            return [env]
        if isinstance(s, ast.If):
            c = self._eval(fi, s.test, env, depth, sattrs)
            out = []
            if c is UNK or isinstance(c, np.ndarray) or isinstance(c, Unknown):
                out += self._run_block(fi, s.body, dict(env), results, depth, sattrs)
                out += self._run_block(fi, s.orelse, dict(env), results, depth, sattrs)
            elif c:
                out += self._run_block(fi, s.body, dict(env), results, depth, sattrs)
            else:
                out += self._run_block(fi, s.orelse, dict(env), results, depth, sattrs)
            return out
        if isinstance(s, (ast.For, ast.While)):
            # element-wise fix-ups (item stores) do not change dtypes; loop bodies are not executed
            return [env]
        if isinstance(s, (ast.Pass,)):
            return [env]
        self.undecided.append((fi, s, "statement kind %s" % type(s).__name__))
        return [env]

    def _binop(self, op, a, b):
        np = self.np
        if a is UNK or b is UNK:
            return UNK
        import operator
        ops = {ast.Add: operator.add, ast.Sub: operator.sub, ast.Mult: operator.mul, ast.Div: operator.truediv,
               ast.Pow: operator.pow, ast.FloorDiv: operator.floordiv, ast.Mod: operator.mod,
               ast.BitAnd: operator.and_, ast.BitOr: operator.or_}
        f = ops.get(type(op))
        if f is None:
            return UNK
        try:
            with np.errstate(all="ignore"):
                return f(a, b)
        except Exception:
            return UNK

    def _eval(self, fi, e, env, depth, sattrs):
        np = self.np
        if e is None:
            return None
        if isinstance(e, ast.Constant):
            return e.value
        if isinstance(e, ast.Name):
            if e.id in env:
                return env[e.id]
            r = self.prog.resolve_name(fi.module, e.id)
            if r and r[0] == "const":
                v = self.prog.try_fold(r[1], r[2], default=UNK)
                return v
            return UNK
        if isinstance(e, ast.Attribute):
            d = dotted(e)
            if d and d.startswith("self."):
                name = d[5:]
                if name in sattrs:
                    return sattrs[name]
                if "." not in name:
                    return self._self_attr(fi, name)
                return UNK
            if d in ("np.double", "np.float64", "np.float_"):
                return np.float64
            if d in ("np.single", "np.float32"):
                return np.float32
            if d == "np.nan":
                return float("nan")
            if fi.cls is not None and d and d.startswith(fi.cls.name + "."):
                v = self.prog.class_const(fi.cls, d.split(".", 1)[1], default=UNK)
                return v
            if d in ("np.int8", "np.int16", "np.int32", "np.int64", "np.uint8", "np.uint16", "np.uint32", "np.uint64", "np.complex64", "np.complex128", "np.bool_"):
                return getattr(np, d[3:])
            base = self._eval(fi, e.value, env, depth, sattrs)
            if isinstance(base, np.ndarray) and e.attr in ("real", "imag", "T"):
                return getattr(base, e.attr)
            if isinstance(base, np.ndarray) and e.attr == "dtype":
                return base.dtype            # the witness carries the dtype
            if isinstance(base, np.dtype) and e.attr in ("kind", "itemsize", "char", "name"):
                return getattr(base, e.attr)
            return UNK
        if isinstance(e, ast.Tuple):
            return tuple(self._eval(fi, x, env, depth, sattrs) for x in e.elts)
        if isinstance(e, ast.List):
            return [self._eval(fi, x, env, depth, sattrs) for x in e.elts]
        if isinstance(e, ast.UnaryOp):
            v = self._eval(fi, e.operand, env, depth, sattrs)
            if v is UNK:
                return UNK
            try:
                if isinstance(e.op, ast.USub):
                    return -v
                if isinstance(e.op, ast.Not):
                    return UNK if isinstance(v, np.ndarray) else (not v)
                if isinstance(e.op, ast.Invert):
                    return ~v
            except Exception:
                return UNK
            return v
        if isinstance(e, ast.BinOp):
            return self._binop(e.op, self._eval(fi, e.left, env, depth, sattrs), self._eval(fi, e.right, env, depth, sattrs))
        if isinstance(e, ast.Compare):
            l = self._eval(fi, e.left, env, depth, sattrs)
            r = self._eval(fi, e.comparators[0], env, depth, sattrs)
            if isinstance(l, np.ndarray) or isinstance(r, np.ndarray):
                return np.empty(0, dtype=bool)
            if len(e.ops) == 1 and isinstance(l, (str, np.dtype)) and isinstance(r, (str, np.dtype, tuple)) and l is not UNK and r is not UNK:
                # a test of the dtype (its kind, itself): decided by the witness
                try:
                    if isinstance(e.ops[0], ast.Eq):
                        return bool(l == r)
                    if isinstance(e.ops[0], ast.NotEq):
                        return bool(l != r)
                    if isinstance(e.ops[0], ast.In):
                        return l in r
                    if isinstance(e.ops[0], ast.NotIn):
                        return l not in r
                except Exception:
                    return UNK
            return UNK        # configuration-dependent: explore both ways
        if isinstance(e, ast.BoolOp) and all(not isinstance(v_, ast.Compare) or True for v_ in e.values):
            vals = [self._eval(fi, v_, env, depth, sattrs) for v_ in e.values]
            if all(isinstance(v_, bool) for v_ in vals):
                return all(vals) if isinstance(e.op, ast.And) else any(vals)
            if isinstance(e.op, ast.And) and any(v_ is False for v_ in vals):
                return False
            if isinstance(e.op, ast.Or) and any(v_ is True for v_ in vals):
                return True
            return UNK
        if isinstance(e, ast.BoolOp):
            return UNK
        if isinstance(e, ast.Subscript):
            base = self._eval(fi, e.value, env, depth, sattrs)
            if isinstance(base, np.ndarray):
                return base[:0]
            if isinstance(base, (list, tuple)):
                idx = self._eval(fi, e.slice, env, depth, sattrs)
                try:
                    return base[idx]
                except Exception:
                    return UNK
            return UNK
        if isinstance(e, ast.IfExp):
            return UNK
        if isinstance(e, ast.Call):
            return self._call(fi, e, env, depth, sattrs)
        if isinstance(e, ast.Lambda):
            return UNK
        return UNK

    def _self_attr(self, fi, name):
        """Abstract value of a configuration attribute of a scaling object."""
        np = self.np
        if name in ("coefficients",):
            return [self.coef, self.coef]
        if name in ("input_values", "output_values"):
            return np.array([1.0, 2.0])
        if name in ("thermocouple",):
            return ("thermocouple",)
        if name in ("configuration", "excitation_type", "resistance_configuration", "scaling_direction", "scale_id",
                    "input_source", "left_input_source", "right_input_source"):
            return UNK     # integer codes only used in comparisons
        return self.coef

    def _call(self, fi, c, env, depth, sattrs):
        np = self.np
        cn = call_name(c) or ""
        args = [self._eval(fi, a, env, depth, sattrs) for a in c.args]
        kw = {k.arg: self._eval(fi, k.value, env, depth, sattrs) for k in c.keywords if k.arg}
        # methods on witnesses
        if isinstance(c.func, ast.Attribute):
            recv = self._eval(fi, c.func.value, env, depth, sattrs)
            m = c.func.attr
            if isinstance(recv, np.ndarray):
                if m == "astype":
                    try:
                        return recv.astype(args[0] if args else kw.get("dtype"))
                    except Exception:
                        return UNK
                if m in ("copy", "ravel", "reshape", "flatten", "view", "squeeze"):
                    return recv
                if m in ("all", "any"):
                    return UNK
                return UNK
            if recv == ("thermocouple",) and m in ("celsius_to_mv", "mv_to_celsius"):
                tc = self.prog.func("thermocouples.Thermocouple." + m)
                outs = []
                for exp in (None, (1.0, 1.0, 1.0)):
                    outs.append((tc, exp))
                # interpret the method itself (both with and without the exponential term)
                res = []
                for exp in (None, (self.coef, self.coef, self.coef)):
                    sub = []
                    self._run_block(tc, tc.node.body, {tc.params[1]: args[0]}, sub, depth + 1,
                                    {"_exponential_term": exp, "_forward_polynomials": [], "_inverse_polynomials": []})
                    res.extend(sub)
                dts = {self._dtype_of(r) for r in res}
                if len(dts) == 1:
                    return res[0]
                # differing dtypes between branches: return a marker list handled by the caller
                return _Multi(res)
        # numpy functions
        if cn in ("np.dtype", "numpy.dtype"):
            try:
                return np.dtype(args[0])
            except Exception:
                return UNK
        if cn in ("len",):
            return UNK
        if cn in ("np.zeros", "np.empty", "np.ones"):
            dt = kw.get("dtype", args[1] if len(args) > 1 else np.float64)
            try:
                return np.empty(0, dtype=dt)
            except Exception:
                return UNK
        if cn in ("np.zeros_like", "np.empty_like", "np.ones_like", "np.full_like") and args and isinstance(args[0], np.ndarray):
            dt = kw.get("dtype")
            try:
                return np.empty(0, dtype=dt if dt is not None and dt is not UNK else args[0].dtype)
            except Exception:
                return UNK
        if cn == "np.result_type" and args and not kw:
            try:
                return np.result_type(*[a.dtype if isinstance(a, np.ndarray) else a for a in args]) if not any(a is UNK for a in args) else UNK
            except Exception:
                return UNK
        if cn == "np.piecewise" and args:
            x = args[0]
            return np.zeros_like(x) if isinstance(x, np.ndarray) else UNK
        if cn in ("np.polynomial.polynomial.polyval", "poly.polyval", "polyval") and len(args) >= 2:
            try:
                coefs = [a for a in args[1]] if isinstance(args[1], (list, tuple)) else [self.coef]
                coefs = [self.coef if (x is UNK) else x for x in coefs] or [self.coef]
                return np.polynomial.polynomial.polyval(args[0], coefs)
            except Exception:
                return UNK
        if cn == "np.interp" and len(args) >= 3:
            try:
                return np.interp(args[0], np.array([1.0, 2.0]), np.array([1.0, 2.0]))
            except Exception:
                return UNK
        if cn.startswith("np.") and cn.count(".") == 1:
            fn = getattr(np, cn[3:], None)
            if isinstance(fn, np.ufunc) and args and not any(a is UNK for a in args[:fn.nin]):
                try:
                    k2 = {}
                    if "where" in kw and isinstance(kw["where"], np.ndarray):
                        k2["where"] = kw["where"]
                    if "out" in kw and isinstance(kw["out"], np.ndarray):
                        k2["out"] = kw["out"]
                    import warnings
                    with np.errstate(all="ignore"), warnings.catch_warnings():
                        warnings.simplefilter("ignore")
                        return fn(*args[:fn.nin], **k2)
                except Exception:
                    return UNK
            if cn in ("np.where", "np.all", "np.any", "np.logical_not", "np.iscomplex", "np.diff", "np.flip"):
                if cn == "np.logical_not" and args and isinstance(args[0], np.ndarray):
                    return np.empty(0, dtype=bool)
                return UNK
        # package helpers
        r = self.prog.resolve_expr(fi.module, c.func) if isinstance(c.func, (ast.Name, ast.Attribute)) else None
        if r and r[0] == "func":
            callee = r[1]
            sub = []
            params = [p for p in callee.params if p not in ("self", "cls")]
            self._run_block(callee, callee.node.body, dict(zip(params, args)), sub, depth + 1, {})
            dts = {self._dtype_of(x) for x in sub}
            if len(dts) == 1:
                return sub[0]
            return _Multi(sub) if sub else UNK
        if isinstance(c.func, ast.Attribute) and dotted(c.func.value) == "self" and fi.cls is not None:
            found = self.prog.lookup(fi.cls, c.func.attr)
            if found and found[0] == "method":
                return UNK      # scalar helpers (e.g. _solve_quartic_form) used for item stores only
        return UNK


class _Multi:
    def __init__(self, vals):
        self.vals = vals


def _declared_table(prog):
    """What MultiScaling._compute_scale_dtype declares for each scaling class, read from its normal form by evaluating the
    isinstance tests for that class:  class name -> ('const', dtype) | 'raw' | 'scaler' | 'result_type' | 'input';  plus the
    default (a class none of the tests names)."""
    from .sym import Sym, eval_cond, show
    from .sem import leaves, find, W
    fi = prog.func("scaling.MultiScaling._compute_scale_dtype")
    v = Sym(prog, fi, fi.cls).function_value()
    if v[0] == "opaque" or not find(v, ("call", "isinstance", W(), W())):
        raise AnchorMissing("scaling.MultiScaling._compute_scale_dtype: isinstance chain")
    ps = [p for p in fi.params if p != "self"]
    IDX, RAW, SCALERS = ("param", ps[0]), ("param", ps[1]), ("param", ps[2])

    def classify(leaf):
        if leaf[0] == "call" and leaf[1] == fi.qual:
            # the recursion: on the scale's own input source -> the input's type; on the raw-data marker -> the raw type
            a0 = leaf[2][0] if leaf[2] else None
            raw_marker = prog.try_fold(ast.Name(id="RAW_DATA_INPUT_SOURCE", ctx=ast.Load()), fi.module, default=0xFFFFFFFF)
            if a0 is not None and a0 == ("const", raw_marker):
                return "raw"
            return "input"
        if leaf[0] == "call" and str(leaf[1]).split(".")[-1] == "dtype" and leaf[2] and leaf[2][0][0] == "const":
            return ("const", leaf[2][0][1])
        if leaf[0] == "call" and str(leaf[1]).endswith("result_type"):
            return "result_type"
        if leaf[0] == "call" and leaf[1] == fi.qual:
            return "input"
        if find(leaf, SCALERS):
            return "scaler"
        if leaf == ("attr", RAW, "nptype"):
            return "raw"
        return "?"

    def kind_for(ci):
        def orc(c):
            if isinstance(c, tuple) and len(c) == 4 and c[0] == "cmp" and c[1] == "==" and IDX in (c[2], c[3]):
                return False          # not the raw-data input source
            if isinstance(c, tuple) and c and c[0] == "call" and c[1] == "isinstance" and len(c[2]) == 2:
                t = c[2][1]
                names = [x[1] for x in (t[1] if t[0] == "tuple" else [t]) if isinstance(x, tuple) and x[0] == "class"]
                if ci is None:
                    return False
                return any(k.qual in names for k in prog.mro(ci))
            return None
        outs = set()
        for conds, leaf in leaves(v):
            vals = [eval_cond(c, orc) for c in conds]
            if any(x is False for x in vals):
                continue
            outs.add(classify(leaf))
        return outs.pop() if len(outs) == 1 else "?"
    table = {}
    named = set()
    for x, _b in find(v, ("class", W())):
        named.add(x[1])
    for q in sorted(named):
        ci = prog.classes.get(q)
        if ci is not None:
            table[ci.name] = kind_for(ci)
    default = kind_for(None)
    return table, default


def _scaling_classes(prog):
    """scaling classes the factory can construct: every class of nptdms.scaling instantiated (directly or through
    from_properties) by _get_channel_scaling or the module helpers it calls"""
    from .sem import module_region
    from .rules_dispatch import find_scaling_builder
    fi = find_scaling_builder(prog)
    out = []
    for f in module_region(prog, fi):
        nodes = list(walk_body(f.node))
        # module-level tables the code refers to:  _FACTORIES = (('Linear', LinearScaling.from_properties), ...)
        table_nodes = []
        for n in list(nodes):
            if isinstance(n, ast.Name) and n.id in f.module.assigns and not isinstance(f.module.assigns[n.id], ast.Constant):
                table_nodes += list(ast.walk(f.module.assigns[n.id]))
        nodes += table_nodes
        for n in table_nodes:
            # a class named in a table row:  ('Linear', LinearScaling, ())
            if isinstance(n, ast.Name):
                c = prog.resolve_class(f.module, n)
                if c is not None and c.module.name == "scaling" and c not in out and c.name != "MultiScaling":
                    out.append(c)
        for n in nodes:
            c = None
            if isinstance(n, ast.Call) and isinstance(n.func, ast.Attribute) and n.func.attr == "from_properties":
                c = prog.resolve_class(f.module, n.func.value)
            elif isinstance(n, ast.Call) and isinstance(n.func, ast.Name):
                c = prog.resolve_class(f.module, n.func)
            elif isinstance(n, ast.Attribute) and n.attr == "from_properties":
                c = prog.resolve_class(f.module, n.value)
            if c is not None and c.module.name == "scaling" and c not in out and c.name != "MultiScaling":
                out.append(c)
    if len(out) < 10:
        raise AnchorMissing("scaling._get_channel_scaling: scaling class construction sites (found %d)" % len(out))
    return out


@rule("DT1", "the dtype each scale method produces equals the dtype MultiScaling.get_dtype declares", floor=80)
def dt1(ctx, R):
    import numpy as np
    prog = ctx.prog
    table, default = _declared_table(prog)
    classes = _scaling_classes(prog)
    coefs = ["pyfloat"] + (["npfloat"] if ctx.thorough else [])
    orders = ["="]   # inputs are native: DT4 decides that raw arrays are normalised where they are created
    for ci in sorted(classes, key=lambda c: c.qual):
        if "scale" not in ci.methods:
            if ci.name == "DaqMxScalerScaling":
                R.ok(ci.qual, "%s:%d" % (ci.module.relpath, ci.node.lineno), "returns the raw scaler array itself; declared: the scaler's dtype")
                continue
            R.undecided(ci.qual, "%s:%d" % (ci.module.relpath, ci.node.lineno), "no scale method")
            continue
        fi = ci.methods["scale"]
        nargs = len([p for p in fi.params if p != "self"])
        kind = table.get(ci.name, default)
        for coef in coefs:
            for order in orders:
                for d in RAW_DTYPES:
                    dt = np.dtype(d).newbyteorder(order) if order != "=" else np.dtype(d)
                    interp = DtypeInterp(prog, coef)
                    if nargs == 1:
                        inputs = [(np.empty(0, dtype=dt),)]
                        in_dtypes = [(np.dtype(d),)]
                    else:
                        others = RAW_DTYPES if ctx.thorough else [d, "float64", "int16"]
                        inputs = [(np.empty(0, dtype=dt), np.empty(0, dtype=o)) for o in others]
                        in_dtypes = [(np.dtype(d), np.dtype(o)) for o in others]
                    for args, ind in zip(inputs, in_dtypes):
                        outs = interp.call_method(fi, list(args))
                        flat = set()
                        for o in outs:
                            flat.add(o)
                        if kind == ("const", "float64") or (isinstance(kind, tuple) and kind[0] == "const"):
                            want = np.dtype(kind[1])
                        elif kind == "raw" or kind == "input":
                            want = ind[0]
                        elif kind == "result_type":
                            want = np.result_type(*ind)
                        else:
                            want = None
                        key = "%s(%s)%s%s" % (ci.qual, ",".join(str(x) for x in ind),
                                              "" if coef == "pyfloat" else " [numpy scalar coefficients]", "" if order == "=" else " [big-endian input]")
                        where = fi.where()
                        if want is None:
                            R.undecided(key, where, "declared dtype of class %s not understood (%r)" % (ci.name, kind))
                            continue
                        bad = [o for o in flat if o is not UNK and not (isinstance(o, np.dtype) and o == want)]
                        unk = [o for o in flat if o is UNK]
                        if bad:
                            R.violation(key, where, "scale() can return dtype %s for %s input while channel.dtype / empty results declare %s" % (
                                sorted(str(b) for b in bad), ",".join(str(x) for x in ind), want))
                        elif unk or not flat:
                            R.undecided(key, where, "result dtype not inferred on some path")
                        else:
                            R.ok(key, where, "returns %s on every path; declared %s" % (want, want))
    # chains: what a scale that forwards its input declares must follow its input source
    noop = prog.cls("scaling.NoOpScaling")
    kind = table.get("NoOpScaling", default)
    sc = noop.methods.get("scale")
    forwards = sc is not None and any(isinstance(n, ast.Return) and isinstance(n.value, ast.Name) and n.value.id in sc.params for n in walk_body(sc.node))
    has_src = "input_source" in unparse(prog.func("scaling.NoOpScaling.__init__").node)
    if forwards and has_src:
        R.check(kind == "input", "scaling.NoOpScaling::chained after another scale", sc.where(),
                "declared dtype follows the scale's input source",
                "NoOpScaling returns its input unchanged and has an input source, but get_dtype declares the RAW dtype for it: when the "
                "input source is another scale (e.g. a Linear scale producing float64) channel.dtype differs from the dtype of the data returned")


# ---------------------------------------------------------------------------

SCALED_ACCESSORS = {"tdms.TdmsChannel.data", "tdms.TdmsChannel._read_slice", "tdms.ChannelDataChunk._data", "tdms.TdmsChannel.__getitem__",
                    "tdms.TdmsChannel.__iter__", "tdms.TdmsChannel._read_at_index"}
RAW_ACCESSORS = {"tdms.TdmsChannel.raw_data", "tdms.TdmsChannel.raw_scaler_data"}


def _dtype_kind(expr):
    txt = unparse(expr)
    if txt in ("self.dtype", "self._channel.dtype", "channel.dtype"):
        return "declared"
    if "_raw_data_dtype()" in txt:
        return "raw"
    return None


@rule("DT2", "empty results carry the declared dtype (scaled accessors) resp. the raw dtype (raw accessors)", floor=2)
def dt2(ctx, R):
    """Every accessor is put in normal form (helpers that build the empty result inlined; the dtype property and _raw_data_dtype kept
    as opaque terms) and each zero-length array among its possible results is examined: scaled accessors must give it the declared
    dtype, raw accessors and read_data(scaled=False) the raw dtype."""
    from .sym import Sym, show, alpha, simplify
    from .sem import find, W, leaves
    prog = ctx.prog
    RAWQ = "tdms.TdmsChannel._raw_data_dtype"
    keep = (RAWQ,)

    def kind_of(dt):
        if dt is None:
            return "missing"
        if dt == ("self", "dtype") or (dt[0] == "attr" and dt[2] == "dtype" and dt[1][0] in ("self", "attr", "param")):
            return "declared"
        if dt[0] == "call" and dt[1] == RAWQ:
            return "raw"
        if dt[0] == "method" and dt[1] == "_raw_data_dtype":
            return "raw"
        return None

    def empties(v):
        out = []
        for x, _b in find(v, ("call", W("fn", lambda f: isinstance(f, str) and f.split(".")[-1] in ("empty", "zeros", "array")), W(), W())):
            shape = x[2][0] if x[2] else None
            is_empty = shape in (("const", 0), ("tuple", (("const", 0),)), ("list", (("const", 0),)), ("list", ()))
            if not is_empty:
                continue
            dt = dict(x[3]).get("dtype") if x[3] else None
            if dt is None and len(x[2]) > 1:
                dt = x[2][1]
            out.append((x, dt))
        return out
    n_sites = 0
    cases = [(q, "scaled", None) for q in sorted(SCALED_ACCESSORS)] + [(q, "raw", None) for q in sorted(RAW_ACCESSORS)] + \
        [("tdms.TdmsChannel.read_data", "scaled", True), ("tdms.TdmsChannel.read_data", "raw", False)]
    for q, want, flag in cases:
        fi = prog.func(q)
        sy = Sym(prog, fi, fi.cls, stack=keep)
        bound = {"scaled": ("const", flag)} if flag is not None else None
        v = sy.function_value(bound)
        if v[0] == "opaque":
            continue
        v = simplify(v, lambda c: None)
        for x, dt in empties(v):
            n_sites += 1
            dtl = [l for _c, l in leaves(dt)] if dt is not None else [None]
            kinds = {kind_of(l) for l in dtl}
            key = "%s%s::empty result" % (q, "" if flag is None else "(scaled=%s)" % flag)
            if "missing" in kinds:
                R.violation(key, fi.where(), "empty result built without a dtype (NumPy default float64), whatever the channel's type")
            elif None in kinds:
                R.undecided(key, fi.where(), "dtype expression `%s` not understood" % show(alpha(dt))[:80])
            elif want == "scaled":
                R.check(kinds == {"declared"}, key, fi.where(), "declared (scaled) dtype",
                        "an empty result of a scaled accessor is built from the RAW dtype `%s`: for a scaled channel empty reads then "
                        "carry a different dtype than non-empty ones and than channel.dtype" % show(alpha(dt))[:80])
            else:
                R.check(kinds == {"raw"}, key, fi.where(), "raw dtype", "a raw accessor returns an empty array of the declared (scaled) dtype `%s`" % show(alpha(dt))[:80])
    if n_sites < 2:
        raise AnchorMissing("empty-array results of the accessors of nptdms.tdms (found %d)" % n_sites)


def _referenced_region(prog, fi, depth=2):
    """fi plus the module functions it refers to by name (called or passed around)"""
    out, seen, frontier = [fi], {fi.qual}, [fi]
    for _ in range(depth):
        nxt = []
        for f in frontier:
            for n in ast.walk(f.node):
                if isinstance(n, (ast.Name, ast.Attribute)):
                    r = prog.resolve_expr(f.module, n)
                    if r and r[0] == "func" and r[1].qual not in seen:
                        seen.add(r[1].qual)
                        out.append(r[1])
                        nxt.append(r[1])
        frontier = nxt
    return out


_PROG = [None]      # the program being analysed (set by the rules that resolve module constants)


def _np_dtype_of_canon(v):
    """numpy dtype denoted by a canonical value  numpy.dtype(<const>)  or a dtype string constant, else None"""
    import numpy as np
    try:
        if isinstance(v, tuple) and len(v) == 2 and v[0] in ("global", "name") and _PROG[0] is not None:
            # a dtype built once at import time: the one module constant of that name
            defs = [m.assigns[v[1]] for m in _PROG[0].modules.values() if v[1] in m.assigns]
            if len(defs) == 1 and isinstance(defs[0], ast.Call) and (call_name(defs[0]) or "").endswith("dtype") and defs[0].args \
                    and isinstance(defs[0].args[0], ast.Constant):
                return np.dtype(defs[0].args[0].value)
            return None
        if isinstance(v, tuple) and v and v[0] == "call" and str(v[1]).endswith("dtype") and v[2] and v[2][0][0] == "const":
            return np.dtype(v[2][0][1])
        if isinstance(v, tuple) and v and v[0] == "ext" and v[1].startswith("numpy."):
            return np.dtype(getattr(np, v[1].split(".", 1)[1]))
    except Exception:
        return None
    return None


@rule("DT3", "raw dtype table and data receivers agree category by category", floor=4)
def dt3(ctx, R):
    import numpy as np
    from .sym import Sym, show, eval_cond
    from .sem import leaves, flat_conds, find, W
    prog = ctx.prog
    _PROG[0] = prog
    rd = prog.func("tdms.TdmsChannel._raw_data_dtype")
    gr = prog.func("channel_data.get_data_receiver")
    DT = ("self", "data_type")
    v = Sym(prog, rd, rd.cls).function_value()

    def pick(val, scenario):
        """the leaves selected when the data type is as in the scenario"""
        def orc(c):
            if isinstance(c, tuple) and len(c) == 4 and c[0] == "cmp" and c[1] in ("is", "=="):
                for a, b in ((c[2], c[3]), (c[3], c[2])):
                    if a == scenario["dt"] and b[0] == "class":
                        return b[1] == scenario.get("cls")
                    if a == scenario["dt"] and b == ("const", None):
                        return scenario.get("cls") is None and scenario.get("none", False)
                    if a == ("attr", scenario["dt"], "nptype") and b == ("const", None):
                        return not scenario.get("nptype", True)
            return None
        out = []
        for conds, leaf in leaves(val):
            vals = [eval_cond(c, orc) for c in conds]
            if any(x is False for x in vals):
                continue
            out.append(leaf)
        return out
    got = pick(v, {"dt": DT, "cls": "types.String", "nptype": False})
    R.check(len(got) == 1 and _np_dtype_of_canon(got[0]) == np.dtype("O"), "tdms.TdmsChannel._raw_data_dtype::String", rd.where(),
            "strings -> object", "string channels do not declare dtype object (got %s)" % [show(x)[:60] for x in got])
    got = pick(v, {"dt": DT, "cls": "types.TimeStamp", "nptype": True})
    R.check(len(got) == 1 and _np_dtype_of_canon(got[0]) == np.dtype("M8[us]"), "tdms.TdmsChannel._raw_data_dtype::TimeStamp", rd.where(),
            "timestamps -> datetime64[us]", "timestamp channels do not declare datetime64[us] (got %s)" % [show(x)[:60] for x in got])
    got = pick(v, {"dt": DT, "cls": "types.Int32", "nptype": True})
    R.check(len(got) == 1 and got[0] == ("attr", DT, "nptype"), "tdms.TdmsChannel._raw_data_dtype::numeric", rd.where(),
            "numeric -> the type's nptype", "numeric channels do not declare data_type.nptype (got %s)" % [show(x)[:60] for x in got])
    # receivers: constants of the allocation code (constructor and the module helpers it refers to)
    def dtype_consts(q):
        f = prog.func(q)
        out = set()
        for g in _referenced_region(prog, f):
            exprs = [g.node]
            # module-level constants the code refers to:  _DATETIME_DTYPE = np.dtype('datetime64[us]')
            for n in ast.walk(g.node):
                if isinstance(n, ast.Name) and n.id in g.module.assigns:
                    exprs.append(g.module.assigns[n.id])
            for e in exprs:
                for n in ast.walk(e):
                    if isinstance(n, ast.Constant) and isinstance(n.value, str):
                        try:
                            out.add(np.dtype(n.value))
                        except Exception:
                            pass
                    if isinstance(n, ast.Name) and n.id == "object":
                        out.add(np.dtype("O"))
        return f, out
    tr, consts = dtype_consts("channel_data.TimestampDataReceiver.__init__")
    key = "channel_data.TimestampDataReceiver::datetime64[us] storage"
    wrong = [c for c in consts if c.kind == "M" and c != np.dtype("M8[us]")]
    if wrong:
        R.violation(key, tr.where(), "timestamp receiver allocates %s, not datetime64[us] (dtypes named: %s)" % (wrong[0], sorted(str(c) for c in consts)))
    elif np.dtype("M8[us]") in consts:
        R.ok(key, tr.where(), "non-raw timestamps are stored as datetime64[us]")
    else:
        R.undecided(key, tr.where(), "no datetime dtype is named in the receiver's allocation code (dtypes named: %s)" % sorted(str(c) for c in consts))
    lr, consts = dtype_consts("channel_data.ListDataReceiver.__init__")
    R.check(np.dtype("O") in consts, "channel_data.ListDataReceiver::object storage", lr.where(),
            "string data becomes an object array", "list receiver does not produce object arrays for strings")
    nr = prog.func("channel_data.NumpyDataReceiver.__init__")
    uses_nptype = any(isinstance(n, ast.Attribute) and n.attr == "nptype" for g in _referenced_region(prog, nr, depth=1) for n in ast.walk(g.node))
    R.check(uses_nptype, "channel_data.NumpyDataReceiver::nptype storage", nr.where(),
            "numeric receivers allocate data_type.nptype", "numeric receiver does not allocate data_type.nptype")
    # dispatch of get_data_receiver, scenario by scenario
    ODT = ("attr", ("param", gr.params[0]), "data_type")
    gv = Sym(prog, gr, None).function_value()
    scen = [("no data type", {"dt": ODT, "cls": None, "none": True}, None),
            ("DAQmx raw data", {"dt": ODT, "cls": "types.DaqMxRawData", "nptype": False}, "channel_data.DaqmxDataReceiver"),
            ("timestamps", {"dt": ODT, "cls": "types.TimeStamp", "nptype": True}, "channel_data.TimestampDataReceiver"),
            ("strings", {"dt": ODT, "cls": "types.String", "nptype": False}, "channel_data.ListDataReceiver"),
            ("numeric", {"dt": ODT, "cls": "types.Int32", "nptype": True}, "channel_data.NumpyDataReceiver")]
    bad = []
    unknown = []
    for name, sc, want in scen:
        got = pick(gv, sc)
        kinds = {(x[1] if x[0] == "new" else (None if x == ("const", None) else "?")) for x in got}
        if "?" in kinds or len(kinds) != 1:
            unknown.append("%s -> %s" % (name, sorted(str(k) for k in kinds)))
        elif kinds != {want}:
            bad.append("%s -> %s (expected %s)" % (name, kinds.pop(), want))
    if bad:
        R.violation("channel_data.get_data_receiver::dispatch order", gr.where(), "receiver dispatch changed: %s" % "; ".join(bad))
    elif unknown:
        R.undecided("channel_data.get_data_receiver::dispatch order", gr.where(), "dispatch not decided: %s" % "; ".join(unknown))
    else:
        R.ok("channel_data.get_data_receiver::dispatch order", gr.where(), "no type -> None, DAQmx, TimeStamp, list types, numeric")


@rule("DT4", "arrays decoded with the segment's byte order are converted to native order before they are handed out", floor=3)
def dt4(ctx, R):
    prog = ctx.prog
    targets = ["tdms_segment.TdmsSegmentObject.read_values", "types.StructType.from_bytes"]
    if "types.ComplexType.from_bytes" in prog.functions:
        targets.append("types.ComplexType.from_bytes")
    for q in targets:
        fi = prog.func(q)
        uses = [n for n in walk_body(fi.node) if isinstance(n, ast.Call) and isinstance(n.func, ast.Attribute) and n.func.attr == "newbyteorder"]
        if not uses:
            R.undecided(q, fi.where(), "no newbyteorder() in this function any more")
            continue
        # names carrying the byte-ordered array
        tainted = set()
        for n in walk_body(fi.node):
            if isinstance(n, ast.Assign):
                v_has = any(isinstance(x, ast.Call) and isinstance(x.func, ast.Attribute) and x.func.attr == "newbyteorder" for x in ast.walk(n.value))
                for t in n.targets:
                    if v_has and isinstance(t, ast.Name):
                        tainted.add(t.id)
                    if v_has and isinstance(t, ast.Attribute) and t.attr == "dtype" and isinstance(t.value, ast.Name):
                        tainted.add(t.value.id)
        changed = True
        while changed:
            changed = False
            for n in walk_body(fi.node):
                if isinstance(n, ast.Assign) and any(isinstance(x, ast.Name) and x.id in tainted for x in ast.walk(n.value)):
                    conv = isinstance(n.value, ast.Call) and isinstance(n.value.func, ast.Attribute) and n.value.func.attr == "astype"
                    for t in n.targets:
                        if isinstance(t, ast.Name) and t.id not in tainted and not conv:
                            tainted.add(t.id)
                            changed = True
        for r in [n for n in walk_body(fi.node) if isinstance(n, ast.Return) and n.value is not None]:
            v = r.value
            involved = any(isinstance(x, ast.Name) and x.id in tainted for x in ast.walk(v)) or any(
                isinstance(x, ast.Call) and isinstance(x.func, ast.Attribute) and x.func.attr == "newbyteorder" for x in ast.walk(v))
            if not involved:
                continue
            def is_astype(e):
                return isinstance(e, ast.Call) and isinstance(e.func, ast.Attribute) and e.func.attr == "astype" and e.args \
                    and "newbyteorder" not in unparse(e.args[0])
            conv = is_astype(v)
            if not conv and isinstance(v, ast.Call):
                # the conversion behind a helper: a function all of whose results are <its argument>.astype(<plain dtype>)
                from .flow import resolve_call
                tg = resolve_call(prog, fi, fi.cls, v)
                rets = [x for g, _k in tg for x in walk_body(g.node) if isinstance(x, ast.Return)]
                conv = bool(tg) and bool(rets) and all(is_astype(x.value) for x in rets)
            key = "%s::return %s" % (q, unparse(v)[:60])
            R.check(conv, key, fi.where(r), "converted to the native-order dtype before returning",
                    "an array typed with the segment's byte order is returned as is: chunk streams hand it out directly, so for big-endian "
                    "segments chunk[:].dtype differs from channel.dtype")


@rule("LN1", "len(channel) and the lazy offset index count values through one function", floor=3)
def ln1(ctx, R):
    prog = ctx.prog
    try:
        nsv = prog.func("reader._number_of_segment_values")
    except AnchorMissing:
        # renamed / turned into a method: the one function that multiplies values per chunk by the chunk count and knows about
        # truncated final chunks
        cands = [f for f in prog.functions.values() if any(isinstance(n, ast.Attribute) and n.attr == "final_chunk_lengths_override" for n in ast.walk(f.node))
                 and any(isinstance(n, ast.BinOp) and isinstance(n.op, ast.Mult) and "number_values" in unparse(n) and "num_chunks" in unparse(n)
                         for n in ast.walk(f.node))]
        if len(cands) != 1:
            R.unrecognised("values of an object in a segment", prog.module("reader").relpath, "the function that counts an object's values in a segment "
                           "(values per chunk * chunks, truncated final chunk) was not recognised")
            return
        nsv = cands[0]
    # the named function kept as a one-line delegate: the counting function is what it calls
    body_ = [x for x in nsv.node.body if not (isinstance(x, ast.Expr) and isinstance(x.value, ast.Constant))]
    if len(body_) == 1 and isinstance(body_[0], ast.Return) and isinstance(body_[0].value, ast.Call) and not any(
            isinstance(n_, ast.Attribute) and n_.attr == "final_chunk_lengths_override" for n_ in ast.walk(nsv.node)):
        from .flow import resolve_call as _rc
        tgts = [t_ for t_, _k in _rc(prog, nsv, nsv.cls, body_[0].value)]
        if not tgts and isinstance(body_[0].value.func, ast.Attribute):
            tgts = [f_ for f_ in prog.functions.values() if f_.name == body_[0].value.func.attr and f_.cls is not None]
        tgts = [t_ for t_ in tgts if any(isinstance(n_, ast.Attribute) and n_.attr == "final_chunk_lengths_override" for n_ in ast.walk(t_.node))]
        if len(tgts) == 1:
            nsv = tgts[0]
    um = prog.func("reader.TdmsReader._update_object_metadata")
    bi = prog.func("reader.TdmsReader._build_index")
    # every increment of num_values is the funnel applied to the current object and segment
    incs = [n for f_ in prog.functions.values() if f_.module.name == "reader" for n in walk_body(f_.node)
            if isinstance(n, ast.AugAssign) and isinstance(n.target, ast.Attribute) and n.target.attr == "num_values"]
    stores = [n for f in prog.functions.values() if f.module.name == "reader" for n in walk_body(f.node)
              if isinstance(n, (ast.AugAssign, ast.Assign)) and any(isinstance(t, ast.Attribute) and t.attr == "num_values"
                                                                   for t in (n.targets if isinstance(n, ast.Assign) else [n.target]))]
    if not incs:
        raise AnchorMissing("reader.TdmsReader._update_object_metadata: num_values accumulation")
    loopvar = None
    for n in walk_body(um.node):
        if isinstance(n, ast.For) and isinstance(n.target, ast.Name):
            loopvar = n.target.id
    segparam = um.params[1] if len(um.params) > 1 else "segment"
    from .sym import Sym, show
    from .sem import match, W, mentions
    for n in stores:
        f = [x for x in prog.functions.values() if any(y is n for y in walk_body(x.node))][0]
        key = "%s::num_values %s" % (f.qual, "+=" if isinstance(n, ast.AugAssign) else "=")
        if f.qual == "reader.ObjectMetadata.__init__":
            R.ok(key, f.where(n), "initialised to 0")
            continue
        sy = Sym(prog, f, f.cls, stack=(nsv.qual,))
        env, _g = sy.env_at(n)
        val = sy.expr(n.value, env)
        tgt = n.target if isinstance(n, ast.AugAssign) else n.targets[0]
        base = sy.expr(tgt.value, env)
        vals = [(val, base, f)]
        if val[0] == "param":
            # the amount is a parameter of a small method of the metadata object: look at what the callers pass
            from .sem import calls_to as _calls_to, call_arg as _call_arg
            vals = []
            for g in prog.functions.values():
                if g.module.name != "reader":
                    continue
                for c in _calls_to(prog, g, f.qual, g.cls):
                    sg = Sym(prog, g, g.cls, stack=(nsv.qual,))
                    e2, _ = sg.env_at(c)
                    a = _call_arg(prog, c, f, val[1], sg, e2)
                    recv = sg.expr(c.func.value, e2) if isinstance(c.func, ast.Attribute) else ("?",)
                    vals.append((a, recv, g))
        good = isinstance(n, ast.AugAssign) and isinstance(n.op, ast.Add) and bool(vals) and f.module.name == "reader"
        shown = val
        for a, b_, g in vals:
            b = match(("call", nsv.qual, (W("obj"), W("seg")), ()), a) if a is not None else None
            if b is None and a is not None and nsv.cls is not None:
                # the funnel as a method of the segment: <segment>.funnel(<object>)
                b = match(("method", nsv.name, W("seg"), (W("obj"),), ()), a) or match(("call", nsv.qual, (W("seg"), W("obj")), ()), a)
            ok_ = b is not None and b["obj"][0] in ("bv", "param", "item") and mentions(b_, b["obj"])
            if not ok_ and b is not None and b["obj"][0] == "param" and g is f and f.cls is not None and b_ in (("param", "self"), ("name", "self")):
                # a method of the metadata object that is given the segment object: which metadata object it is called on is the
                # caller's business -- there the receiver must be looked up from the object that is passed
                from .sem import calls_to as _ct, call_arg as _ca
                sites = [(h, c) for h in prog.functions.values() if h.module.name == "reader" for c in _ct(prog, h, f.qual, h.cls)]
                ok_ = bool(sites)
                for h, c in sites:
                    sh = Sym(prog, h, h.cls, stack=(nsv.qual,))
                    e3, _ = sh.env_at(c)
                    a_obj = _ca(prog, c, f, b["obj"][1], sh, e3)
                    recv = sh.expr(c.func.value, e3) if isinstance(c.func, ast.Attribute) else None
                    if a_obj is None or recv is None or not mentions(recv, a_obj):
                        ok_ = False
            if not ok_:
                good = False
                shown = a
        R.check(good, key, f.where(n), "accumulates _number_of_segment_values(<this object>, <this segment>)",
                "the channel length is updated by `%s` (= %s), not by _number_of_segment_values applied to the current object and segment: len(channel) "
                "and the number of values actually delivered (which the lazy index computes through that function) can drift apart" % (
                    unparse(n), show(shown)[:80] if shown is not None else None))
    from .region import call_reaches
    calls = [c for c in walk_body(bi.node) if isinstance(c, ast.Call) and call_reaches(ctx, bi, c, {nsv.qual})]
    R.check(bool(calls), "reader.TdmsReader._build_index::uses the funnel", bi.where(), "lazy index counts through _number_of_segment_values",
            "the lazy offset index computes per-segment counts by other means than _number_of_segment_values")
    from .region import call_reaches
    from .cfg import node_calls
    # a count recorded for segment i is computed in round i: in a loop over the segments, what is stored under the loop's own index
    # must not be a value left over from an earlier round (a memo over neighbouring segments forgets what else the count depends on,
    # e.g. the truncated final chunk)
    cfg = ctx.cfg(bi)
    n_tab = 0
    for loop in [n for n in walk_body(bi.node) if isinstance(n, ast.For)]:
        idx = None
        if isinstance(loop.iter, ast.Call) and call_name(loop.iter) == "enumerate" and isinstance(loop.target, ast.Tuple) and loop.target.elts \
                and isinstance(loop.target.elts[0], ast.Name):
            idx = loop.target.elts[0].id
        elif isinstance(loop.iter, ast.Call) and call_name(loop.iter) == "range" and isinstance(loop.target, ast.Name):
            idx = loop.target.id
        if idx is None:
            continue
        inside = lambda x: any(y is x for y in ast.walk(loop))
        for st in [n for n in ast.walk(loop) if isinstance(n, ast.Assign) and len(n.targets) == 1 and isinstance(n.targets[0], ast.Subscript)
                   and isinstance(n.targets[0].slice, ast.Name) and n.targets[0].slice.id == idx]:
            n_tab += 1
            stale = None
            for nm in sorted({x.id for x in ast.walk(st.value) if isinstance(x, ast.Name)}):
                defs = [a for a in ast.walk(loop) if isinstance(a, (ast.Assign, ast.AugAssign, ast.AnnAssign)) and any(
                    isinstance(t, ast.Name) and t.id == nm for t in (a.targets if isinstance(a, ast.Assign) else [a.target]))]
                if not defs or nm == idx:
                    continue
                dn = set(cfg.where(lambda n: n.kind == "stmt" and any(n.ast is d for d in defs)))
                sn = cfg.where(lambda n: n.kind == "stmt" and n.ast is st)
                for h in cfg.where(lambda n: n.kind == "for" and n.ast is loop):
                    starts = [m for m, k in h.succ if k == "loop" and m not in dn]
                    r = cfg.reach(starts, avoid=lambda n: n in dn, follow_exc=False) if starts else set()
                    if any(x in r for x in sn):
                        stale = nm
            key = "%s::entry %s of the per-segment table" % (bi.qual, idx)
            # ... and comes from the counting function in this round: a count answered from a memo (a dictionary keyed by part of what
            # the count depends on) is a count computed for another segment
            if not stale:
                fn_nodes = set(cfg.where(lambda n: any(call_reaches(ctx, bi, c_, {nsv.qual}) for c_ in node_calls(n))))
                sn_ = cfg.where(lambda n: n.kind == "stmt" and n.ast is st)
                inside_calls = any(n.ast is not None and inside(n.ast) for n in fn_nodes)
                if inside_calls:
                    for h in cfg.where(lambda n: n.kind == "for" and n.ast is loop):
                        starts = [m for m, k in h.succ if k == "loop" and m not in fn_nodes]
                        r = cfg.reach(starts, avoid=lambda n: n in fn_nodes, follow_exc=False) if starts else set()
                        if any(x in r for x in sn_):
                            stale = "a count that does not come from %s in this round" % nsv.name
            if stale:
                R.violation(key, bi.where(st), "`%s` can store %s: the count of a segment is taken over from another segment (an earlier round, a memo) instead "
                            "of being computed for this segment" % (unparse(st)[:60], stale if stale.startswith("a count") else "a value of `%s` that was computed in an earlier round of the loop over the segments" % stale))
            else:
                R.ok(key, bi.where(st), "what is stored under the loop's index is computed in the same round")
    # no other place multiplies number_values by a chunk count
    others = []
    for f in prog.functions.values():
        if f is nsv or f.module.name not in ("reader", "tdms"):
            continue
        for n in walk_body(f.node):
            if isinstance(n, ast.BinOp) and isinstance(n.op, ast.Mult):
                txt = unparse(n)
                if "number_values" in txt and "num_chunks" in txt:
                    others.append((f, n))
    R.check(not others, "package::single chunk-count multiplication", nsv.where(), "only _number_of_segment_values multiplies values per chunk by the chunk count",
            "%s recomputes number_values * num_chunks on its own (ignores truncated final chunks)" % (others[0][0].qual if others else ""))
