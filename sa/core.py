"""Engine core: loader, resolved program model, MRO, registries, constant folder.

Everything here works on source text parsed with ``ast``.  Nothing under
/repo is ever imported or executed.
"""
import ast
import hashlib
import os

REPO = os.environ.get("SA_REPO", "/repo")
PKG = "nptdms"

# Frozen list of modules the rules are anchored in.  A missing one is an
# analysis error (exit 2), never a pass.
REQUIRED_MODULES = [
    "base_segment", "channel_data", "common", "daqmx", "reader", "scaling",
    "tdms", "tdms_segment", "thermocouples", "timestamp", "types", "utils",
    "writer", "tdmsinfo", "export.hdf_export", "export.pandas_export",
]


class AnalysisError(Exception):
    """The analysis cannot vouch for the code (vanished anchor, parse failure,
    instance floor unmet, bound exceeded).  Reported as ANALYSIS-ERROR, exit 2."""


class AnchorMissing(AnalysisError):
    pass


# --------------------------------------------------------------------------
# small AST helpers
# --------------------------------------------------------------------------

def unparse(node):
    try:
        return ast.unparse(node)
    except Exception:  # pragma: no cover
        return "<%s>" % type(node).__name__


def dotted(node):
    """'a.b.c' for Name/Attribute chains, else None."""
    parts = []
    while isinstance(node, ast.Attribute):
        parts.append(node.attr)
        node = node.value
    if isinstance(node, ast.Name):
        parts.append(node.id)
        return ".".join(reversed(parts))
    return None


def call_name(call):
    """Dotted name of the callee of an ast.Call (or None)."""
    return dotted(call.func)


def walk_shallow(node, include_self=True):
    """ast.walk that does not descend into nested function/class definitions
    or lambdas (their bodies run at another time)."""
    stack = [node] if include_self else list(ast.iter_child_nodes(node))
    first = True
    while stack:
        n = stack.pop()
        yield n
        for c in ast.iter_child_nodes(n):
            if isinstance(c, (ast.FunctionDef, ast.AsyncFunctionDef, ast.ClassDef, ast.Lambda)):
                continue
            stack.append(c)
        first = False


def walk_body(func_node):
    """All nodes of a function body, not descending into nested defs/lambdas."""
    for stmt in func_node.body:
        for n in walk_shallow(stmt):
            yield n


def calls_in(node, shallow=True):
    it = walk_shallow(node) if shallow else ast.walk(node)
    return [n for n in it if isinstance(n, ast.Call)]


def names_in(node):
    return {n.id for n in ast.walk(node) if isinstance(n, ast.Name)}


def attr_chains_in(node):
    out = set()
    for n in ast.walk(node):
        if isinstance(n, (ast.Attribute, ast.Name)):
            d = dotted(n)
            if d:
                out.add(d)
    return out


def has_yield(node):
    for n in walk_shallow(node):
        if isinstance(n, (ast.Yield, ast.YieldFrom)):
            return True
    return False


def norm(node):
    """Normalised text of a node (formatting-insensitive key for triage)."""
    return unparse(node).strip()


# --------------------------------------------------------------------------
# model
# --------------------------------------------------------------------------

class Module:
    def __init__(self, name, path, source, tree):
        self.name = name
        self.path = path
        self.relpath = os.path.relpath(path, REPO)
        self.source = source
        self.tree = tree
        self.sha256 = hashlib.sha256(source.encode("utf-8")).hexdigest()
        self.imports = {}      # local name -> dotted target ('nptdms.types', 'numpy', 'copy.copy')
        self.star_imports = []  # modules imported with *
        self.assigns = {}      # module-level name -> value expr (last assignment)
        self.assign_nodes = {}  # module-level name -> Assign stmt

    def __repr__(self):
        return "<Module %s>" % self.name


class ClassInfo:
    def __init__(self, module, node):
        self.module = module
        self.node = node
        self.name = node.name
        self.qual = "%s.%s" % (module.name, node.name)
        self.base_exprs = node.bases
        self.bases = []      # resolved ClassInfo objects (package classes only)
        self.ext_bases = []  # dotted names of non-package bases
        self.attrs = {}      # class-level name -> value expr
        self.methods = {}    # name -> FuncInfo
        self.decorators = node.decorator_list

    def __repr__(self):
        return "<Class %s>" % self.qual


class FuncInfo:
    def __init__(self, module, node, cls=None):
        self.module = module
        self.node = node
        self.cls = cls
        self.name = node.name
        self.qual = ("%s.%s.%s" % (module.name, cls.name, node.name)) if cls else "%s.%s" % (module.name, node.name)
        self.is_generator = has_yield_in_func(node)
        self.decorators = [dotted(d) or (call_name(d) if isinstance(d, ast.Call) else None)
                           for d in node.decorator_list]

    @property
    def params(self):
        a = self.node.args
        return [x.arg for x in a.posonlyargs + a.args]

    @property
    def defaults(self):
        """param name -> default expr"""
        a = self.node.args
        pos = a.posonlyargs + a.args
        out = {}
        for p, d in zip(pos[len(pos) - len(a.defaults):], a.defaults):
            out[p.arg] = d
        for p, d in zip(a.kwonlyargs, a.kw_defaults):
            if d is not None:
                out[p.arg] = d
        return out

    @property
    def is_static(self):
        return "staticmethod" in self.decorators

    @property
    def is_classmethod(self):
        return "classmethod" in self.decorators

    @property
    def is_property(self):
        return any(d in ("property", "cached_property") for d in self.decorators)

    def where(self, node=None):
        return "%s:%d" % (self.module.relpath, (node or self.node).lineno)

    def __repr__(self):
        return "<Func %s>" % self.qual


def has_yield_in_func(fnode):
    for stmt in fnode.body:
        if has_yield(stmt):
            return True
    return False


class EnumMember(object):
    """a member of an Enum class of the package, as far as constant folding needs it"""

    def __init__(self, name, value):
        self.name, self.value = name, value

    def __repr__(self):
        return "<%s: %r>" % (self.name, self.value)


class Program:
    def _is_enum_class(self, ci):
        return any(b.split(".")[-1] in ("Enum", "IntEnum", "Flag", "IntFlag", "StrEnum") for b in getattr(ci, "ext_bases", ()) or ())

    def __init__(self, root=None):
        self.root = root or REPO
        self.pkgdir = os.path.join(self.root, PKG)
        self.modules = {}
        self.classes = {}
        self.functions = {}
        self._load()
        self._index()

    # -- loading ---------------------------------------------------------
    def _load(self):
        if not os.path.isdir(self.pkgdir):
            raise AnalysisError("package directory %s not found" % self.pkgdir)
        for dirpath, dirnames, filenames in os.walk(self.pkgdir):
            rel = os.path.relpath(dirpath, self.pkgdir)
            parts = [] if rel == "." else rel.split(os.sep)
            if parts and parts[0] == "test":
                dirnames[:] = []
                continue
            dirnames[:] = sorted(d for d in dirnames if d not in ("test", "__pycache__"))
            for fn in sorted(filenames):
                if not fn.endswith(".py"):
                    continue
                path = os.path.join(dirpath, fn)
                modname = ".".join(parts + [fn[:-3]])
                try:
                    with open(path, encoding="utf-8") as f:
                        src = f.read()
                    tree = ast.parse(src, filename=path)
                except (SyntaxError, UnicodeDecodeError, OSError) as e:
                    raise AnalysisError("cannot parse %s: %s" % (path, e))
                self.modules[modname] = Module(modname, path, src, tree)
        for req in REQUIRED_MODULES:
            if req not in self.modules:
                raise AnchorMissing("module nptdms.%s" % req)
        # performance idioms (prepared struct objects, hoisted bound methods) are read as the plain calls they stand for
        from .desugar import desugar
        self.desugared = sorted(desugar({name: m.tree for name, m in self.modules.items()}))

    def _index(self):
        for mod in self.modules.values():
            for node in mod.tree.body:
                if isinstance(node, ast.Import):
                    for a in node.names:
                        mod.imports[a.asname or a.name.split(".")[0]] = a.name if a.asname else a.name.split(".")[0]
                        if a.asname:
                            mod.imports[a.asname] = a.name
                elif isinstance(node, ast.ImportFrom):
                    base = node.module or ""
                    if node.level:
                        base = PKG + ("." + base if base else "")
                    for a in node.names:
                        if a.name == "*":
                            mod.star_imports.append(base)
                        else:
                            mod.imports[a.asname or a.name] = base + "." + a.name
                elif isinstance(node, ast.Assign):
                    for t in node.targets:
                        if isinstance(t, ast.Name):
                            mod.assigns[t.id] = node.value
                            mod.assign_nodes[t.id] = node
                elif isinstance(node, ast.ClassDef):
                    ci = ClassInfo(mod, node)
                    self.classes[ci.qual] = ci
                    for sub in node.body:
                        if isinstance(sub, ast.FunctionDef):
                            fi = FuncInfo(mod, sub, ci)
                            ci.methods[sub.name] = fi
                            self.functions[fi.qual] = fi
                        elif isinstance(sub, ast.Assign):
                            for t in sub.targets:
                                if isinstance(t, ast.Name):
                                    ci.attrs[t.id] = sub.value
                elif isinstance(node, ast.FunctionDef):
                    fi = FuncInfo(mod, node)
                    self.functions[fi.qual] = fi
        for name in getattr(self, "desugared", ()):
            self.modules[name].imports.setdefault("struct", "struct")
        # resolve bases
        for ci in self.classes.values():
            for b in ci.base_exprs:
                target = self.resolve_class(ci.module, b)
                if target is not None:
                    ci.bases.append(target)
                else:
                    ci.ext_bases.append(dotted(b) or unparse(b))

    # -- lookup ----------------------------------------------------------
    def module(self, name):
        try:
            return self.modules[name]
        except KeyError:
            raise AnchorMissing("module nptdms.%s" % name)

    def cls(self, qual):
        try:
            return self.classes[qual]
        except KeyError:
            # a class that was moved to another module of the package keeps its name: one class of that name is that class
            name = qual.split(".")[-1]
            cands = [c for c in self.classes.values() if c.name == name]
            if len(cands) == 1:
                return cands[0]
            raise AnchorMissing("class %s" % qual)

    def func(self, qual):
        """the function of that qualified name; when it is not where it used to be: the one function of the package with the same
        name (a leading underscore more or less) -- in the same class if it is a method, inherited ones included -- if unique"""
        try:
            return self.functions[qual]
        except KeyError:
            pass
        parts = qual.split(".")
        bare = parts[-1].lstrip("_") if not parts[-1].startswith("__") else parts[-1]
        same = lambda n: (n.lstrip("_") if not n.startswith("__") else n) == bare
        if len(parts) >= 3:
            cname = parts[-2]
            classes = [c for c in self.classes.values() if c.name == cname]
            if len(classes) == 1:
                found = self.lookup(classes[0], parts[-1])
                if found and found[0] == "method":
                    return found[2]
                cands = [m for k in self.mro(classes[0]) for m in k.methods.values() if same(m.name)]
                if len(cands) == 1:
                    return cands[0]
            raise AnchorMissing("function %s" % qual)
        cands = [f for f in self.functions.values() if f.cls is None and same(f.name)]
        if len(cands) == 1:
            return cands[0]
        if not cands:
            # a module-level function that was made a (static) method: the one method of that name in the package
            cands = [f for f in self.functions.values() if f.cls is not None and same(f.name)]
            if len(cands) == 1:
                return cands[0]
        raise AnchorMissing("function %s" % qual)

    def has_func(self, qual):
        return qual in self.functions

    def resolve_name(self, mod, name):
        """Resolve a bare name used in module `mod` to ('class', ClassInfo) /
        ('func', FuncInfo) / ('module', Module) / ('const', expr, Module) /
        ('ext', dotted) / None."""
        q = "%s.%s" % (mod.name, name)
        if q in self.classes:
            return ("class", self.classes[q])
        if q in self.functions:
            return ("func", self.functions[q])
        if name in mod.assigns:
            return ("const", mod.assigns[name], mod)
        tgt = mod.imports.get(name)
        if tgt is None:
            for star in mod.star_imports:
                if star.startswith(PKG + "."):
                    m2 = self.modules.get(star[len(PKG) + 1:])
                    if m2 is not None:
                        r = self.resolve_name(m2, name)
                        if r is not None:
                            return r
            return None
        if tgt == PKG or tgt.startswith(PKG + "."):
            rest = tgt[len(PKG) + 1:] if tgt != PKG else ""
            if rest in self.modules:
                return ("module", self.modules[rest])
            if "." in rest or rest:
                modpart, _, leaf = rest.rpartition(".")
                if modpart in self.modules:
                    return self.resolve_name(self.modules[modpart], leaf)
                if modpart == "" and leaf:
                    # from nptdms import TdmsFile  -> look in __init__ imports
                    init = self.modules.get("__init__")
                    if init is not None and leaf in init.imports:
                        return self.resolve_name(init, leaf)
            return ("ext", tgt)
        return ("ext", tgt)

    def resolve_expr(self, mod, expr):
        """Resolve Name / module.attr expressions to the same tuples as resolve_name."""
        if isinstance(expr, ast.Name):
            return self.resolve_name(mod, expr.id)
        if isinstance(expr, ast.Attribute):
            base = self.resolve_expr(mod, expr.value)
            if base is None:
                return None
            if base[0] == "module":
                return self.resolve_name(base[1], expr.attr)
            if base[0] == "ext":
                return ("ext", base[1] + "." + expr.attr)
            if base[0] == "class":
                found = self.lookup(base[1], expr.attr)
                if found is not None:
                    kind, owner, obj = found
                    if kind == "method":
                        return ("func", obj)
                    return ("classattr", obj, owner)
            return None
        return None

    def resolve_class(self, mod, expr):
        r = self.resolve_expr(mod, expr)
        if r and r[0] == "class":
            return r[1]
        return None

    # -- class hierarchy -------------------------------------------------
    def mro(self, ci):
        out = [ci]
        for b in ci.bases:
            for c in self.mro(b):
                if c not in out:
                    out.append(c)
        return out

    def lookup(self, ci, name):
        """Look up attribute `name` through the MRO.
        -> ('method', owner ClassInfo, FuncInfo) | ('attr', owner, expr) | None"""
        for c in self.mro(ci):
            if name in c.methods:
                return ("method", c, c.methods[name])
            if name in c.attrs:
                return ("attr", c, c.attrs[name])
        return None

    def subclasses(self, ci):
        return [c for c in self.classes.values() if ci in self.mro(c) and c is not ci]

    def is_subclass(self, ci, base):
        return base in self.mro(ci)

    # -- constant folding ------------------------------------------------
    def fold(self, expr, mod=None, env=None, depth=0):
        """Fold a constant expression to a Python value; raise ValueError if not constant."""
        if depth > 20:
            raise ValueError("fold depth")
        env = env or {}
        if isinstance(expr, ast.Constant):
            return expr.value
        if isinstance(expr, ast.UnaryOp):
            v = self.fold(expr.operand, mod, env, depth + 1)
            if isinstance(expr.op, ast.USub):
                return -v
            if isinstance(expr.op, ast.UAdd):
                return +v
            if isinstance(expr.op, ast.Not):
                return not v
            if isinstance(expr.op, ast.Invert):
                return ~v
        if isinstance(expr, ast.BinOp):
            a = self.fold(expr.left, mod, env, depth + 1)
            b = self.fold(expr.right, mod, env, depth + 1)
            ops = {ast.Add: lambda: a + b, ast.Sub: lambda: a - b, ast.Mult: lambda: a * b,
                   ast.Div: lambda: a / b, ast.FloorDiv: lambda: a // b, ast.Mod: lambda: a % b,
                   ast.Pow: lambda: a ** b, ast.LShift: lambda: a << b, ast.RShift: lambda: a >> b,
                   ast.BitOr: lambda: a | b, ast.BitAnd: lambda: a & b, ast.BitXor: lambda: a ^ b}
            f = ops.get(type(expr.op))
            if f is None:
                raise ValueError("op")
            try:
                return f()
            except Exception as e:
                raise ValueError(str(e))
        if isinstance(expr, ast.Tuple):
            return tuple(self.fold(e, mod, env, depth + 1) for e in expr.elts)
        if isinstance(expr, ast.List):
            return [self.fold(e, mod, env, depth + 1) for e in expr.elts]
        if isinstance(expr, ast.Dict):
            return {self.fold(k, mod, env, depth + 1): self.fold(v, mod, env, depth + 1)
                    for k, v in zip(expr.keys, expr.values)}
        if isinstance(expr, ast.Name):
            if expr.id in env:
                return env[expr.id]
            if mod is not None:
                r = self.resolve_name(mod, expr.id)
                if r and r[0] == "const":
                    return self.fold(r[1], r[2], None, depth + 1)
                if r and r[0] == "class" and self._is_enum_class(r[1]):
                    # iterating an Enum class yields its members in definition order: (name, value) records
                    ci = r[1]
                    return [EnumMember(n.targets[0].id, self.fold(n.value, ci.module, None, depth + 1)) for n in ci.node.body
                            if isinstance(n, ast.Assign) and len(n.targets) == 1 and isinstance(n.targets[0], ast.Name) and not n.targets[0].id.startswith("_")]
            raise ValueError("name %s" % expr.id)
        if isinstance(expr, ast.Attribute) and expr.attr == "__members__" and isinstance(expr.value, (ast.Name, ast.Attribute)) and mod is not None:
            r = self.resolve_name(mod, expr.value.id) if isinstance(expr.value, ast.Name) else self.resolve_expr(mod, expr.value)
            if r and r[0] == "class" and self._is_enum_class(r[1]):
                return {m_.name: m_ for m_ in self.fold(ast.Name(id=r[1].name, ctx=ast.Load()), r[1].module, None, depth + 1)}
        if isinstance(expr, ast.Call) and isinstance(expr.func, ast.Attribute) and expr.func.attr in ("items", "keys", "values") and not expr.args and not expr.keywords:
            base = self.fold(expr.func.value, mod, env, depth + 1)
            if isinstance(base, dict):
                return [tuple(kv) for kv in base.items()] if expr.func.attr == "items" else list(getattr(base, expr.func.attr)())
            raise ValueError("method of a non-dict")
        if isinstance(expr, ast.Attribute) and expr.attr in ("value", "name"):
            try:
                base = self.fold(expr.value, mod, env, depth + 1)
            except ValueError:
                base = None
            if isinstance(base, EnumMember):
                return getattr(base, expr.attr)
            if expr.attr == "value" and base is not None and isinstance(expr.value, ast.Attribute) and mod is not None:
                rr = self.resolve_expr(mod, expr.value)
                if rr and rr[0] == "classattr" and self._is_enum_class(rr[2]):
                    return base                      # <Enum>.<member>.value is the member's constant
        if isinstance(expr, ast.Attribute) and expr.attr == "size" and mod is not None and isinstance(expr.value, (ast.Name, ast.Attribute)):
            # <prepared struct>.size: the size of the format it was compiled from
            rb = self.resolve_expr(mod, expr.value) if isinstance(expr.value, ast.Attribute) else self.resolve_name(mod, expr.value.id)
            if rb and rb[0] == "const" and isinstance(rb[1], ast.Call) and (call_name(rb[1]) or "").split(".")[-1] == "Struct" and len(rb[1].args) == 1:
                import struct as _struct
                fmt = self.fold(rb[1].args[0], rb[2], None, depth + 1)
                try:
                    return _struct.calcsize(fmt)
                except Exception as e_:
                    raise ValueError(str(e_))
        if isinstance(expr, ast.Attribute) and mod is not None:
            r = self.resolve_expr(mod, expr)
            if r and r[0] == "const":
                return self.fold(r[1], r[2], None, depth + 1)
            if r and r[0] == "classattr":
                return self.fold(r[1], r[2].module, None, depth + 1)
            raise ValueError("attr")
        if isinstance(expr, ast.Call) and isinstance(expr.func, ast.Attribute) and expr.func.attr in ("bit_length",) and not expr.args and not expr.keywords:
            v = self.fold(expr.func.value, mod, env, depth + 1)
            if isinstance(v, int) and not isinstance(v, bool):
                return v.bit_length()          # pure method of a constant integer
            raise ValueError("bit_length of a non-integer")
        if isinstance(expr, ast.Call):
            fn = call_name(expr)
            if fn in ("float", "int") and len(expr.args) == 1 and not expr.keywords:
                v = self.fold(expr.args[0], mod, env, depth + 1)
                if isinstance(v, EnumMember):
                    v = v.value
                return float(v) if fn == "float" else int(v)
            PURE = {"dict": dict, "tuple": tuple, "list": list, "set": set, "frozenset": frozenset, "sorted": sorted, "len": len, "range": range,
                    "zip": zip, "enumerate": enumerate, "min": min, "max": max, "sum": sum, "abs": abs, "round": round, "pow": pow, "reversed": reversed,
                    "bool": bool, "str": str}
            if fn in PURE and fn not in env and not (mod is not None and self.resolve_name(mod, fn)):
                # pure builtins applied to constants (tables computed from tables)
                args = [self.fold(a, mod, env, depth + 1) for a in expr.args]
                kws = {k.arg: self.fold(k.value, mod, env, depth + 1) for k in expr.keywords if k.arg}
                if any(k.arg is None for k in expr.keywords):
                    raise ValueError("**kwargs")
                try:
                    r = PURE[fn](*args, **kws)
                    return list(r) if fn in ("zip", "enumerate", "range", "reversed") else r
                except Exception as e:
                    raise ValueError(str(e))
        if isinstance(expr, (ast.ListComp, ast.GeneratorExp, ast.SetComp, ast.DictComp)):
            out = []

            def bind(t, v, e):
                if isinstance(t, ast.Name):
                    e[t.id] = v
                elif isinstance(t, (ast.Tuple, ast.List)):
                    vs = list(v)
                    if len(vs) != len(t.elts):
                        raise ValueError("unpack")
                    for tt, vv in zip(t.elts, vs):
                        bind(tt, vv, e)
                else:
                    raise ValueError("target")

            def gen(i, e):
                if len(out) > 4096:
                    raise ValueError("comprehension too large")
                if i == len(expr.generators):
                    if isinstance(expr, ast.DictComp):
                        out.append((self.fold(expr.key, mod, e, depth + 1), self.fold(expr.value, mod, e, depth + 1)))
                    else:
                        out.append(self.fold(expr.elt, mod, e, depth + 1))
                    return
                g = expr.generators[i]
                try:
                    items = list(self.fold(g.iter, mod, e, depth + 1))
                except TypeError as ex:
                    raise ValueError(str(ex))
                for it in items:
                    e2 = dict(e)
                    bind(g.target, it, e2)
                    if all(self.fold(c, mod, e2, depth + 1) for c in g.ifs):
                        gen(i + 1, e2)
            gen(0, dict(env))
            if isinstance(expr, ast.DictComp):
                return dict(out)
            if isinstance(expr, ast.SetComp):
                return set(out)
            return out
        if isinstance(expr, ast.Subscript) and mod is not None:
            base = self.fold(expr.value, mod, env, depth + 1)
            idx = self.fold(expr.slice, mod, env, depth + 1)
            try:
                return base[idx]
            except Exception as e:
                raise ValueError(str(e))
        raise ValueError("not constant: %s" % type(expr).__name__)

    def try_fold(self, expr, mod=None, env=None, default=None):
        try:
            return self.fold(expr, mod, env)
        except ValueError:
            return default

    # -- registries reconstructed from source ----------------------------
    def tds_types(self):
        """Classes registered through @tds_data_type(enum, nptype[, set_np_type]).
        -> list of dict(cls, enum, nptype (str or None), set_np)"""
        out = []
        types_mod = self.module("types")
        self.func("types.tds_data_type")
        for ci in self.classes.values():
            if ci.module is not types_mod:
                continue
            for d in ci.decorators:
                if isinstance(d, ast.Call) and call_name(d) == "tds_data_type":
                    args = list(d.args)
                    kw = {k.arg: k.value for k in d.keywords}
                    enum_e = args[0] if args else kw.get("enum_value")
                    np_e = args[1] if len(args) > 1 else kw.get("np_type")
                    set_e = args[2] if len(args) > 2 else kw.get("set_np_type")
                    enum = self.try_fold(enum_e, types_mod)
                    nptype = None
                    if np_e is not None and not (isinstance(np_e, ast.Constant) and np_e.value is None):
                        nptype = dotted(np_e) or unparse(np_e)
                    set_np = True if set_e is None else bool(self.try_fold(set_e, types_mod, default=True))
                    out.append(dict(cls=ci, enum=enum, nptype=nptype, set_np=set_np, node=d))
        if not out:
            raise AnchorMissing("no @tds_data_type registrations in nptdms.types")
        return out

    def class_const(self, ci, name, default=None):
        """Fold a class attribute through the MRO."""
        found = self.lookup(ci, name)
        if found is None or found[0] != "attr":
            return default
        return self.try_fold(found[2], found[1].module, default=default)


def np_dtype_of(nptype_text):
    """Map 'np.int8' / 'np.single' ... to a numpy dtype using numpy as an oracle."""
    import numpy as np
    if nptype_text is None:
        return None
    name = nptype_text.split(".")[-1]
    return np.dtype(getattr(np, name))
