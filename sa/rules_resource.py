"""RL1-RL8: resource ownership, release on all exits, idempotent close,
use-after-close guard, who-may-open/close, acquisition safety (property C20)."""
import ast

from .registry import rule
from .core import (call_name, dotted, walk_shallow, walk_body, unparse, AnchorMissing)
from .cfg import CFG, node_calls
from .absval import assume_from, eval_test, NONE, NOTNONE

# handle field -> owner field, per owning class (ownership: npTDMS opened the
# handle itself iff the owner field holds the path it opened)
OWNERS = {
    "reader.TdmsReader": {"_file": "_file_path", "_index_file": "_index_file_path"},
    "writer.TdmsWriter": {"_file": "_file_path", "_index_file": "_index_file_path"},
}
OPEN_OWNER_FUNCS = {"reader.TdmsReader.__init__": "reader.TdmsReader",
                    "writer.TdmsWriter.open": "writer.TdmsWriter"}
CLOSE_METHODS = ("reader.TdmsReader.close", "tdms.TdmsFile.close", "writer.TdmsWriter.close")


def is_builtin_open(call, mod):
    return isinstance(call.func, ast.Name) and call.func.id == "open" and "open" not in mod.imports \
        and "open" not in mod.assigns


def _self_attr(expr):
    """'name' if expr is self.<name>"""
    if isinstance(expr, ast.Attribute) and isinstance(expr.value, ast.Name) and expr.value.id == "self":
        return expr.attr
    return None


def _node_has_call(node, pred):
    return any(pred(c) for c in node_calls(node))


def _closes_handle(handle):
    def pred(call):
        return call_name(call) == "self.%s.close" % handle
    return pred


def _all_functions(prog):
    return sorted(prog.functions.values(), key=lambda f: f.qual)


@rule("RL1", "who-may-open and ownership pairing of handle/owner fields", floor=5)
def rl1(ctx, R):
    prog = ctx.prog
    for q in OPEN_OWNER_FUNCS:
        prog.func(q)
    n_open = 0
    for fi in _all_functions(prog):
        with_exprs = set()
        for n in walk_body(fi.node):
            if isinstance(n, (ast.With, ast.AsyncWith)):
                for it in n.items:
                    with_exprs.add(id(it.context_expr))
        for n in walk_body(fi.node):
            if not (isinstance(n, ast.Call) and is_builtin_open(n, fi.module)):
                continue
            n_open += 1
            key = "%s::open(%s)" % (fi.qual, unparse(n.args[0]) if n.args else "")
            if id(n) in with_exprs:
                R.ok(key, fi.where(n), "open() as context manager: released by the with statement")
                continue
            owner_cls = OPEN_OWNER_FUNCS.get(fi.qual)
            if owner_cls is None:
                R.violation(key, fi.where(n),
                            "open() outside the owning functions %s: nothing pairs this handle with an "
                            "owner field, so no close() site is obliged to release it" % sorted(OPEN_OWNER_FUNCS))
                continue
            # must be `self.<handle> = open(self.<owner>, ...)`
            parent = _assign_parent(fi.node, n)
            handle = _self_attr(parent.targets[0]) if parent is not None and len(parent.targets) == 1 else None
            owners = OWNERS[owner_cls]
            arg_owner = _self_attr(n.args[0]) if n.args else None
            if handle in owners and arg_owner == owners[handle]:
                R.ok(key, fi.where(n), "handle self.%s opened from its owner field self.%s" % (handle, arg_owner))
            else:
                R.violation(key, fi.where(n),
                            "open() result is not stored as self.<handle> = open(self.<paired owner field>, ...) "
                            "(handle=%r, argument=%r, pairing=%r)" % (handle, arg_owner, owners))
    # mode separation in the two constructors: stream mode never sets an owner field,
    # path mode never stores the caller's object into a handle field
    for q, owner_cls, param in (("reader.TdmsReader.__init__", "reader.TdmsReader", "tdms_file"),
                                ("writer.TdmsWriter.__init__", "writer.TdmsWriter", "file")):
        fi = prog.func(q)
        params = fi.params
        if param not in params:
            param = params[1] if len(params) > 1 else param
        mode_if = None
        for n in walk_body(fi.node):
            if isinstance(n, ast.If) and isinstance(n.test, ast.Call) and call_name(n.test) == "hasattr" \
                    and len(n.test.args) == 2 and dotted(n.test.args[0]) == param:
                mode_if = n
                break
        if mode_if is None:
            raise AnchorMissing("%s: stream-vs-path test hasattr(%s, ...)" % (q, param))
        owners = OWNERS[owner_cls]
        stream_params = {param, "index_file"}
        for branch, stmts in (("stream", mode_if.body), ("path", mode_if.orelse)):
            for s in stmts:
                for n in walk_shallow(s):
                    if isinstance(n, ast.Assign):
                        for t in n.targets:
                            a = _self_attr(t)
                            is_none = isinstance(n.value, ast.Constant) and n.value.value is None
                            if a in owners.values() and not is_none:
                                key = "%s::%s-mode store self.%s" % (q, branch, a)
                                R.check(branch == "path", key, fi.where(n),
                                        "owner field set in path mode only",
                                        "owner field self.%s is set to a non-None value in stream mode: close() "
                                        "would then close a stream supplied by the caller" % a)
                            if a in owners and not is_none:
                                from_open = isinstance(n.value, ast.Call) and is_builtin_open(n.value, fi.module)
                                from_param = dotted(n.value) in stream_params
                                key = "%s::%s-mode store self.%s" % (q, branch, a)
                                if branch == "stream":
                                    R.check(from_param and not from_open, key, fi.where(n),
                                            "caller's stream stored as handle, owner field stays None",
                                            "handle field assigned from something other than the caller's stream in stream mode")
                                else:
                                    R.check(from_open, key, fi.where(n),
                                            "handle opened by the library in path mode",
                                            "handle field self.%s assigned from %s in path mode while its owner field "
                                            "marks it as library-owned" % (a, unparse(n.value)))
    R.note("open() call sites in package: %d" % n_open)


def _assign_parent(func_node, call):
    for n in walk_body(func_node):
        if isinstance(n, ast.Assign) and n.value is call:
            return n
    return None


# ---------------------------------------------------------------------------

def _ctor_call_nodes(prog, fi, cfg, class_qual):
    out = []
    for n in cfg.where(lambda n: n.kind == "stmt" and isinstance(n.ast, ast.Assign)):
        v = n.ast.value
        if isinstance(v, ast.Call):
            c = prog.resolve_class(fi.module, v.func)
            if c is not None and c.qual == class_qual:
                out.append(n)
    return out


@rule("RL2", "eager construction releases the reader on every exit (per public entry point)", floor=3)
def rl2(ctx, R):
    prog = ctx.prog
    init = prog.func("tdms.TdmsFile.__init__")
    cfg = ctx.cfg(init)
    ctor_nodes = _ctor_call_nodes(prog, init, cfg, "reader.TdmsReader")
    if len(ctor_nodes) != 1:
        raise AnchorMissing("tdms.TdmsFile.__init__: exactly one `x = TdmsReader(...)` assignment (found %d)" % len(ctor_nodes))
    A = ctor_nodes[0]
    target = dotted(A.ast.targets[0])

    def closes(node):
        return _node_has_call(node, lambda c: call_name(c) == target + ".close")
    defaults = init.defaults
    if "keep_open" not in init.params:
        raise AnchorMissing("tdms.TdmsFile.__init__ parameter keep_open")
    entry_points = []
    for q in ("tdms.TdmsFile.read", "tdms.TdmsFile.read_metadata", "tdms.TdmsFile.open"):
        f = prog.func(q)
        calls = [c for c in walk_body(f.node) if isinstance(c, ast.Call)
                 and (prog.resolve_class(f.module, c.func) or None) is prog.cls("tdms.TdmsFile")]
        if len(calls) != 1:
            raise AnchorMissing("%s: exactly one TdmsFile(...) call" % q)
        c = calls[0]
        ko = None
        for k in c.keywords:
            if k.arg == "keep_open":
                ko = k.value
        idx = init.params.index("keep_open") - 1
        if ko is None and len(c.args) > idx:
            ko = c.args[idx]
        if ko is None:
            ko = defaults.get("keep_open")
        val = prog.try_fold(ko, f.module, default="?") if ko is not None else "?"
        entry_points.append((q, val))
    entry_points.append(("tdms.TdmsFile.__init__ (direct construction, default)",
                         prog.try_fold(defaults.get("keep_open"), init.module, default="?")))
    for q, val in entry_points:
        key = "%s::keep_open=%r" % (q, val)
        if val == "?":
            R.undecided(key, init.where(), "keep_open is not a constant at this entry point")
            continue
        if q.endswith(".open") :
            # TdmsFile.open keeps the file open by contract; released by close()/__exit__ (RL4)
            R.check(val is True, key, init.where(), "open() keeps the reader for lazy reads (released by close/__exit__, RL4)",
                    "TdmsFile.open must pass keep_open=True")
            continue
        if q.endswith(".read") or q.endswith(".read_metadata"):
            if val is not False:
                R.violation(key, init.where(), "TdmsFile.%s constructs with keep_open=%r: the file stays open after it returns" % (q.split(".")[-1], val))
                continue
        if val is not False:
            R.undecided(key, init.where(), "non-default keep_open")
            continue
        # if the constructor call itself raises no reader exists (its own handles: RL8);
        # the obligation starts at the normal successors of the assignment
        ok, wit = True, None
        for succ, kind in A.succ:
            if kind in ("exc", "uncaught"):
                continue
            if closes(succ):
                continue
            ok, wit = cfg.always_passes(succ, closes, assume=assume_from({"keep_open": val}))
            if not ok:
                break
        if ok:
            R.ok(key, init.where(A.ast), "every normal and exceptional path from `%s` to an exit of __init__ passes %s.close()" % (
                unparse(A.ast), target))
        else:
            R.violation(key, init.where(A.ast),
                        "a path from `%s` leaves TdmsFile.__init__ without %s.close() although keep_open is False" % (
                            unparse(A.ast), target), path=cfg.describe_path(wit))


@rule("RL4", "close() releases every owned handle and clears both handle fields", floor=8)
def rl4(ctx, R):
    prog = ctx.prog
    for cq, fq in (("reader.TdmsReader", "reader.TdmsReader.close"), ("writer.TdmsWriter", "writer.TdmsWriter.close")):
        fi = prog.func(fq)
        cfg = ctx.cfg(fi)
        owners = OWNERS[cq]
        allopen = {}
        for h, p in owners.items():
            allopen["self." + h] = NOTNONE
            allopen["self." + p] = NOTNONE
        for h, p in owners.items():
            # (a) owned and open -> every normal path closes it
            ok, wit = cfg.always_passes(cfg.entry, lambda n, h=h: _node_has_call(n, _closes_handle(h)),
                                        targets={cfg.exit}, assume=assume_from(allopen), follow_exc=False)
            key = "%s::owned self.%s is closed" % (fq, h)
            if ok:
                R.ok(key, fi.where(), "with self.%s set, every normal path through close() calls self.%s.close()" % (p, h))
            else:
                R.violation(key, fi.where(), "close() can return without closing the library-owned self.%s" % h,
                            path=cfg.describe_path(wit))
            # (b) caller-supplied (owner field None) -> no path closes it
            facts = dict(allopen)
            facts["self." + p] = NONE
            r = cfg.reach([cfg.entry], assume=assume_from(facts))
            bad = [n for n in r if _node_has_call(n, _closes_handle(h))]
            key = "%s::caller-supplied self.%s is not closed" % (fq, h)
            if bad:
                R.violation(key, fi.where(bad[0].ast), "self.%s.close() is reachable although self.%s is None "
                            "(the stream belongs to the caller)" % (h, p), path=cfg.describe_path(cfg.path_to(bad[0])))
            else:
                R.ok(key, fi.where(), "with self.%s None, self.%s.close() is unreachable" % (p, h))
            # (c) handle field cleared on every normal path
            def clears(n, h=h):
                return n.kind == "stmt" and isinstance(n.ast, ast.Assign) and any(_self_attr(t) == h for t in n.ast.targets) \
                    and isinstance(n.ast.value, ast.Constant) and n.ast.value.value is None
            ok, wit = cfg.always_passes(cfg.entry, clears, targets={cfg.exit}, assume=assume_from(allopen), follow_exc=False)
            key = "%s::self.%s cleared" % (fq, h)
            if ok:
                R.ok(key, fi.where(), "self.%s = None on every normal path (needed by the use-after-close guard)" % h)
            else:
                R.violation(key, fi.where(), "close() can return with self.%s still referencing the closed file: "
                            "later reads would not be refused by the guard" % h, path=cfg.describe_path(wit))
    # delegations: TdmsFile.close -> reader.close ; __exit__ -> close
    fi = prog.func("tdms.TdmsFile.close")
    cfg = ctx.cfg(fi)
    ok, wit = cfg.always_passes(cfg.entry, lambda n: _node_has_call(n, lambda c: call_name(c) == "self._reader.close"),
                                targets={cfg.exit}, assume=assume_from({"self._reader": NOTNONE}), follow_exc=False)
    R.check(ok, "tdms.TdmsFile.close::delegates to reader.close", fi.where(),
            "with a live reader every normal path calls self._reader.close()",
            "TdmsFile.close() can return without closing its reader")
    for q in ("tdms.TdmsFile.__exit__", "writer.TdmsWriter.__exit__"):
        fi = prog.func(q)
        cfg = ctx.cfg(fi)
        ok, wit = cfg.always_passes(cfg.entry, lambda n: _node_has_call(n, lambda c: call_name(c) == "self.close"),
                                    targets={cfg.exit, cfg.raise_exit})
        R.check(ok, "%s::calls self.close()" % q, fi.where(), "every path through __exit__ calls self.close()",
                "leaving the with-block does not always close the file")
    for q in ("tdms.TdmsFile.__enter__", "writer.TdmsWriter.__enter__"):
        prog.func(q)
    # the writer created by defragment is used as a context manager
    fi = prog.func("writer.TdmsWriter.defragment")
    with_ctx = [it.context_expr for n in walk_body(fi.node) if isinstance(n, ast.With) for it in n.items]
    ctor = [c for c in walk_body(fi.node) if isinstance(c, ast.Call) and dotted(c.func) in ("cls", "TdmsWriter")]
    for c in ctor:
        R.check(any(c is w for w in with_ctx), "writer.TdmsWriter.defragment::writer in with-statement", fi.where(c),
                "destination writer is closed by its with-block", "destination writer is not used as a context manager")


@rule("RL5", "close() is idempotent (reader and file)", floor=2)
def rl5(ctx, R):
    prog = ctx.prog
    cases = [("reader.TdmsReader.close", {"self._file": NONE, "self._index_file": NONE,
                                          "self._file_path": NOTNONE, "self._index_file_path": NOTNONE}),
             ("tdms.TdmsFile.close", {"self._reader": NONE})]
    for q, post in cases:
        fi = prog.func(q)
        cfg = ctx.cfg(fi)
        r = cfg.reach([cfg.entry], assume=assume_from(post))
        bad = None
        for n in sorted(r, key=lambda n: n.id):
            if n.ast is None or n.kind in ("test",):
                continue
            for a in walk_shallow(n.ast if n.kind != "for" else n.ast.iter):
                if isinstance(a, ast.Attribute) and isinstance(a.ctx, ast.Load):
                    d = dotted(a.value)
                    if d in post and post[d] == NONE:
                        bad = (n, a)
                        break
            if bad:
                break
        key = "%s::second call" % q
        if bad:
            R.violation(key, fi.where(bad[0].ast), "in the state left by a first close(), `%s` dereferences None" % unparse(bad[1]),
                        path=cfg.describe_path(cfg.path_to(bad[0])))
        else:
            R.ok(key, fi.where(), "re-interpreted in its own post-state, close() touches no released handle")
    wf = prog.func("writer.TdmsWriter.close")
    R.note("writer.TdmsWriter.close is not idempotent in path mode (self._file is None after the first call); the "
           "property's sentence on repeated close() concerns reading, so this is a note, not a violation")


@rule("RL6", "every reader method that touches the data stream is guarded by _ensure_open", floor=4)
def rl6(ctx, R):
    prog = ctx.prog
    cls = prog.cls("reader.TdmsReader")
    ens = prog.func("reader.TdmsReader._ensure_open")
    # _ensure_open raises when both handles are None
    cfg = ctx.cfg(ens)
    r = cfg.reach([cfg.entry], assume=assume_from({"self._file": NONE, "self._index_file": NONE}))
    R.check(cfg.exit not in r and cfg.raise_exit in r, "reader.TdmsReader._ensure_open::raises when closed", ens.where(),
            "with both handle fields None every path raises", "_ensure_open can return normally after close()")

    def touches_stream(fi):
        for n in walk_body(fi.node):
            if isinstance(n, ast.Attribute) and _self_attr(n) == "_file" and isinstance(n.ctx, ast.Load):
                return True
        return False

    def guarded(n):
        return _node_has_call(n, lambda c: call_name(c) == "self._ensure_open")
    exempt = {"__init__": "constructor", "close": "releases the handles", "read_metadata": "own None tests, raises ValueError",
              "is_index_file_only": "reads the field for a None test only", "_ensure_open": "the guard itself"}
    cg = ctx.callgraph()
    for name, fi in sorted(cls.methods.items()):
        if not touches_stream(fi) or name in exempt:
            continue
        cfg = ctx.cfg(fi)
        uses = cfg.where(lambda n: n.ast is not None and any(
            isinstance(a, ast.Attribute) and _self_attr(a) == "_file" for a in walk_shallow(
                n.ast.iter if n.kind == "for" else (n.ast.context_expr if n.kind in ("with_enter", "with_exit") else n.ast))))
        unguarded = None
        for u in uses:
            ok, wit = cfg.dominated_by(u, guarded)
            if not ok:
                unguarded = (u, wit)
                break
        key = "reader.TdmsReader.%s" % name
        if unguarded is None:
            R.ok(key, fi.where(), "every use of self._file is dominated by self._ensure_open()")
            continue
        if not name.startswith("_"):
            R.violation(key, fi.where(unguarded[0].ast), "public method uses self._file without a dominating self._ensure_open(): "
                        "after close() it would fail with an arbitrary error or act on a stale handle",
                        path=cfg.describe_path(unguarded[1]))
            continue
        # private helper: every call site must itself be guarded
        callers = [e for e in cg.callers(fi.qual) if e.kind in ("self", "direct", "receiver")]
        if not callers:
            R.undecided(key, fi.where(), "private method touching self._file without a guard and without resolved callers")
            continue
        all_ok = True
        for e in callers:
            cf = prog.functions[e.caller]
            ccfg = ctx.cfg(cf)
            cnodes = [n for n in ccfg.where(lambda n: any(c is e.node for c in node_calls(n)))]
            for cn in cnodes:
                ok, wit = ccfg.dominated_by(cn, guarded)
                if not ok and cf.name not in exempt:
                    all_ok = False
                    R.violation(key + "<-" + cf.qual, cf.where(cn.ast), "call of the unguarded helper %s is itself not dominated by "
                                "self._ensure_open()" % name, path=ccfg.describe_path(wit))
        if all_ok:
            R.ok(key, fi.where(), "private helper, all %d call sites are dominated by self._ensure_open() (or are in read_metadata)" % len(callers))


@rule("RL7", "every .close() call closes an owned handle under its owner-field guard, or delegates", floor=9)
def rl7(ctx, R):
    prog = ctx.prog
    for fi in _all_functions(prog):
        close_calls = [c for c in walk_body(fi.node) if isinstance(c, ast.Call) and isinstance(c.func, ast.Attribute)
                       and c.func.attr == "close"]
        if not close_calls:
            continue
        cfg = ctx.cfg(fi)
        for c in close_calls:
            recv = dotted(c.func.value) or unparse(c.func.value)
            key = "%s::%s.close()" % (fi.qual, recv)
            where = fi.where(c)
            cnodes = cfg.where(lambda n: any(x is c for x in node_calls(n)))
            if not cnodes:
                R.note("unreachable close call %s" % key)
                continue
            # delegation to a package close method
            if recv == "self" and fi.cls is not None and ("%s.%s.close" % (fi.module.name, fi.cls.name)) in CLOSE_METHODS:
                R.ok(key, where, "delegates to the class's own close()")
                continue
            if recv in ("self._reader", "tdms_file", "new_file") :
                R.ok(key, where, "delegates to a package close() method (reader/file/writer), which applies the ownership guards")
                continue
            owner_cls = None
            if fi.cls is not None and fi.cls.qual in OWNERS:
                owner_cls = fi.cls.qual
            handle = None
            alias_defs = None
            if recv.startswith("self.") and owner_cls and recv[5:] in OWNERS[owner_cls]:
                handle = recv[5:]
            elif owner_cls and isinstance(c.func.value, ast.Name):
                # local alias of a handle field: find its definitions and paired mode flags
                alias_defs = _alias_defs(fi, c.func.value.id, OWNERS[owner_cls])
            if handle is None and alias_defs is None:
                # locally owned: x = open(...) in this function dominating the close
                lname = c.func.value.id if isinstance(c.func.value, ast.Name) else None
                local_open = lname and any(isinstance(n, ast.Assign) and isinstance(n.value, ast.Call)
                                           and is_builtin_open(n.value, fi.module)
                                           and any(isinstance(t, ast.Name) and t.id == lname for t in n.targets)
                                           for n in walk_body(fi.node))
                if local_open:
                    R.ok(key, where, "closes a file opened in the same function")
                else:
                    R.violation(key, where, "close() on %r, which is not a library-owned handle field, a local open() "
                                "result or a package object: a stream supplied by the caller may be closed" % recv)
                continue
            if alias_defs is not None:
                ok = all(_guarded_alias(cfg, cn, alias_defs, OWNERS[owner_cls]) for cn in cnodes)
                R.check(ok, key, where,
                        "local alias of %s; the guard selects the library-owned handle and tests its owner field" % sorted({h for h, _ in alias_defs}),
                        "%s aliases %s and is closed on a path where the aliased handle's owner field has not been tested "
                        "non-None: a caller-supplied stream would be closed" % (recv, sorted({h for h, _ in alias_defs})))
                continue
            owner = OWNERS[owner_cls][handle]
            all_ok = True
            for cn in cnodes:
                guard_ok = _guarded_by_owner(cfg, cn, owner) or _dominated_by_open(cfg, cn, handle, fi)
                if not guard_ok:
                    all_ok = False
            if all_ok:
                R.ok(key, where, "closes self.%s only where self.%s is known non-None (library-owned) or right after its own open()" % (handle, owner))
            else:
                R.violation(key, where, "self.%s is closed on a path where its owner field self.%s has not been tested non-None: "
                            "a caller-supplied stream would be closed" % (handle, owner))


def _alias_defs(fi, name, owners):
    """Definitions of local `name` from self.<handle> fields, each paired with the boolean
    constants assigned to plain names in the same block (mode flags).
    -> [(handle, {flag: bool})] or None when some definition is not a handle field."""
    defs = []

    def scan(stmts):
        for s in stmts:
            if isinstance(s, ast.Assign) and len(s.targets) == 1 and isinstance(s.targets[0], ast.Name) \
                    and s.targets[0].id == name:
                h = _self_attr(s.value)
                flags = {}
                for s2 in stmts:
                    if isinstance(s2, ast.Assign) and len(s2.targets) == 1 and isinstance(s2.targets[0], ast.Name) \
                            and isinstance(s2.value, ast.Constant) and isinstance(s2.value.value, bool):
                        flags[s2.targets[0].id] = s2.value.value
                defs.append((h, flags))
            for f in ("body", "orelse", "finalbody"):
                sub = getattr(s, f, None)
                if isinstance(sub, list) and sub and isinstance(sub[0], ast.stmt):
                    scan(sub)
            for h in getattr(s, "handlers", []) or []:
                scan(h.body)
    scan(fi.node.body)
    if not defs or any(h is None or h not in owners for h, _ in defs):
        return None
    return defs


def _controlling_tests(cfg, cn):
    """Test nodes whose true edge is the only way to reach cn."""
    out = []
    for t in cfg.where(lambda n: n.kind == "test"):
        if cn not in _reach_without_edge(cfg, t, "true"):
            out.append(t)
    return out


def _conjuncts(test):
    return test.values if isinstance(test, ast.BoolOp) and isinstance(test.op, ast.And) else [test]


def _implies_notnone(conj, dname):
    return any(eval_test(t, {dname: NOTNONE}) is True and eval_test(t, {dname: NONE}) is False for t in conj)


def _guarded_by_owner(cfg, cn, owner):
    """close node `cn` is only reachable through the true edge of a test that implies
    self.<owner> is not None."""
    for t in _controlling_tests(cfg, cn):
        if _implies_notnone(_conjuncts(t.ast), "self." + owner):
            return True
    return False


def _guarded_alias(cfg, cn, defs, owners):
    tests = _controlling_tests(cfg, cn)
    conj = [c for t in tests for c in _conjuncts(t.ast)]
    for h, flags in defs:
        feasible = not any(eval_test(c, flags) is False for c in conj)
        if not feasible:
            continue
        if not _implies_notnone(conj, "self." + owners[h]):
            return False
    return True


def _reach_without_edge(cfg, tnode, edge_kind):
    from collections import deque
    seen = {cfg.entry.id}
    dq = deque([cfg.entry])
    while dq:
        n = dq.popleft()
        for m, k in n.succ:
            if n is tnode and k == edge_kind:
                continue
            if m.id not in seen:
                seen.add(m.id)
                dq.append(m)
    return {cfg.nodes[i] for i in seen}


def _dominated_by_open(cfg, cn, handle, fi):
    def opens(n):
        return n.kind == "stmt" and isinstance(n.ast, ast.Assign) and any(_self_attr(t) == handle for t in n.ast.targets) \
            and isinstance(n.ast.value, ast.Call) and is_builtin_open(n.ast.value, fi.module)
    ok, _ = cfg.dominated_by(cn, opens)
    return ok


def _raising_methods(prog, fi, depth=3):
    """Names of methods of fi's class / functions of fi's module that contain a `raise`
    statement outside a handler that re-raises... (transitively through self-calls, bounded)."""
    out = set()
    cands = {}
    if fi.cls is not None:
        for c in prog.mro(fi.cls):
            for name, m in c.methods.items():
                cands.setdefault(name, m)
    for q, f in prog.functions.items():
        if f.cls is None and f.module is fi.module:
            cands.setdefault(f.name, f)
    for _ in range(depth):
        for name, m in cands.items():
            if name in out or m is fi:
                continue
            for n in walk_body(m.node):
                if isinstance(n, ast.Raise):
                    out.add(name)
                    break
                if isinstance(n, ast.Call):
                    cn = call_name(n) or ""
                    if (cn.startswith("self.") and cn[5:] in out) or cn in out:
                        out.add(name)
                        break
    return out


@rule("RL8", "no failing acquisition or raise after a successful open() leaks the first handle", floor=2)
def rl8(ctx, R):
    prog = ctx.prog
    for q, owner_cls in sorted(OPEN_OWNER_FUNCS.items()):
        fi = prog.func(q)

        raising_helpers = _raising_methods(prog, fi)

        def may_raise(n, fi=fi, raising_helpers=raising_helpers):
            if n.kind == "raisestmt":
                return True
            for c in node_calls(n):
                if is_builtin_open(c, fi.module):
                    return True
                cn = call_name(c) or ""
                if cn.startswith("self.") and cn[5:] in raising_helpers:
                    return True
                if cn in raising_helpers:
                    return True
            return False
        cfg = CFG(fi.node, may_raise=may_raise)
        opens = cfg.where(lambda n: n.kind == "stmt" and isinstance(n.ast, ast.Assign)
                          and isinstance(n.ast.value, ast.Call) and is_builtin_open(n.ast.value, fi.module)
                          and any(_self_attr(t) in OWNERS[owner_cls] for t in n.ast.targets))
        if not opens:
            raise AnchorMissing("%s: self.<handle> = open(...) statements" % q)
        for A in opens:
            handle = [_self_attr(t) for t in A.ast.targets if _self_attr(t)][0]
            after = cfg.reach([A], follow_exc=False)
            risky = [n for n in after if n is not A and may_raise(n)]
            key = "%s::after self.%s = open(...)" % (q, handle)
            bad = None
            for B in sorted(risky, key=lambda n: n.id):
                # exceptional successors of B
                starts = [m for m, k in B.succ if k == "exc"]
                closes = lambda n, handle=handle: _node_has_call(n, _closes_handle(handle))
                for s in starts:
                    if closes(s):
                        continue
                    r = cfg.reach([s], avoid=closes)
                    if cfg.raise_exit in r or s is cfg.raise_exit:
                        bad = (B, cfg.path_to(cfg.raise_exit) if s is not cfg.raise_exit else [B, s])
                        break
                if bad:
                    break
            if bad:
                R.violation(key, fi.where(bad[0].ast), "`%s` can raise after self.%s was opened and the exception leaves %s "
                            "without self.%s.close()" % (bad[0].text(), handle, q.split(".")[-1], handle),
                            path=cfg.describe_path(bad[1]))
            else:
                R.ok(key, fi.where(A.ast), "%d later acquisition/raise statement(s), each releases self.%s before propagating" % (len(risky), handle))
