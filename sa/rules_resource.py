"""RL1-RL8: resource ownership, release on all exits, idempotent close,
use-after-close guard, who-may-open/close, acquisition safety (property C20)."""
import ast

from .registry import rule
from .core import (call_name, dotted, walk_shallow, walk_body, unparse, AnchorMissing)
from .cfg import CFG, node_calls
from .absval import assume_from, eval_test, NONE, NOTNONE

# handle field -> owner field, per owning class (ownership: npTDMS opened the
# handle itself iff the owner field holds the path it opened)
OWNERS = {
    "reader.TdmsReader": {"_file": "_file_path", "_index_file": "_index_file_path"},
    "writer.TdmsWriter": {"_file": "_file_path", "_index_file": "_index_file_path"},
}
OPEN_OWNER_FUNCS = {"reader.TdmsReader.__init__": "reader.TdmsReader",
                    "writer.TdmsWriter.open": "writer.TdmsWriter"}
CLOSE_METHODS = ("reader.TdmsReader.close", "tdms.TdmsFile.close", "writer.TdmsWriter.close")


def model_unfit(prog, cq):
    """The ownership rules model a handle-owning class as: handle fields and owner (path) fields of the class itself, assigned in its
    own methods from None, open(...), a parameter, another handle field or a local that carries one of those.  -> None when the class
    has that shape, else the reason (then the rules say `not recognised` instead of guessing)."""
    cls = prog.cls(cq)
    fields = set(OWNERS[cq]) | set(OWNERS[cq].values())
    seen = set()
    for m in cls.methods.values():
        params = set(m.params)
        local_ok = set(params)

        def ok_value(v, depth=0):
            if isinstance(v, ast.Constant):
                return True
            if isinstance(v, ast.IfExp):
                return ok_value(v.body) and ok_value(v.orelse)
            if isinstance(v, ast.Call):
                return True          # open(...), an opener helper, os.path...: classified by the interpreter
            d = dotted(v)
            if d is None:
                return isinstance(v, (ast.BinOp, ast.JoinedStr, ast.Compare, ast.BoolOp))
            root = d.split(".")[0]
            if root == "self":
                return d.count(".") == 1
            return d.count(".") == 0          # a plain local or parameter; `helper.attr` is an object the model does not follow
        for n in walk_body(m.node):
            if isinstance(n, ast.Call) and call_name(n) == "setattr" and n.args and dotted(n.args[0]) == "self" and not (
                    len(n.args) > 1 and isinstance(n.args[1], ast.Constant)):
                return "%s assigns fields of self by computed name (`%s`)" % (m.qual, unparse(n)[:50])
            if isinstance(n, ast.Assign):
                for t in n.targets:
                    for tt in (t.elts if isinstance(t, (ast.Tuple, ast.List)) else [t]):
                        a = _self_attr(tt)
                        if a in fields:
                            seen.add(a)
                            if not ok_value(n.value):
                                return "%s assigns self.%s from `%s`, an attribute of another object" % (m.qual, a, unparse(n.value)[:50])
    missing = sorted(f for f in OWNERS[cq] if f not in seen)
    if missing:
        return "%s no longer assigns the handle field(s) %s itself" % (cq, ", ".join("self." + f for f in missing))
    return None


def gen_cm_closed_params(ctx, g, facts, on):
    """For a generator function used as a context manager (contextlib.contextmanager): the parameters p such that every path from the
    (single) yield to the end of the generator -- `on`='exit': when the block ends normally and when it raises; `on`='error': when it
    raises -- passes `p.close()`, given what is known about the other parameters (facts: name -> value)."""
    if not g.is_generator or not any((d or "").split(".")[-1] == "contextmanager" for d in g.decorators):
        return set()
    from .cfg import default_may_raise
    is_yield = lambda n: n.kind == "stmt" and isinstance(n.ast, ast.Expr) and isinstance(n.ast.value, ast.Yield)
    # the block of the with statement runs at the yield: whatever it raises is raised there
    cfg = CFG(g.node, may_raise=lambda n: is_yield(n) or default_may_raise(n))
    ys = cfg.where(is_yield)
    if len(ys) != 1:
        return set()
    y = ys[0]
    out = set()
    for p in g.params:
        closes = lambda n, p=p: _node_has_call(n, lambda c: call_name(c) == p + ".close")
        ok = True
        for m, k in y.succ:
            if on == "error" and k not in ("exc", "uncaught"):
                continue
            if closes(m):
                continue
            good, _w = cfg.always_passes(m, closes, assume=assume_from(facts))
            ok = ok and good
        if ok and any(True for m, k in y.succ if on != "error" or k in ("exc", "uncaught")):
            out.add(p)
    return out


def cm_call_binding(prog, mod, e):
    """(package function, {param: arg expr}) for `with f(args)` where f is a package function"""
    if not (isinstance(e, ast.Call) and isinstance(e.func, (ast.Name, ast.Attribute))):
        return None, {}
    r = prog.resolve_expr(mod, e.func)
    if not (r and r[0] == "func"):
        return None, {}
    g = r[1]
    ps = [p for p in g.params if not (g.cls is not None and not g.is_static and p in ("self", "cls"))]
    b = dict(zip(ps, e.args))
    b.update({k.arg: k.value for k in e.keywords if k.arg})
    return g, b


def is_builtin_open(call, mod):
    return isinstance(call.func, ast.Name) and call.func.id == "open" and "open" not in mod.imports \
        and "open" not in mod.assigns


def _self_attr(expr):
    """'name' if expr is self.<name>"""
    if isinstance(expr, ast.Attribute) and isinstance(expr.value, ast.Name) and expr.value.id == "self":
        return expr.attr
    return None


def _node_has_call(node, pred):
    return any(pred(c) for c in node_calls(node))


def _closes_handle(handle):
    def pred(call):
        return call_name(call) == "self.%s.close" % handle
    return pred


def _all_functions(prog):
    return sorted(prog.functions.values(), key=lambda f: f.qual)


def _scn(**answers):
    """scenario oracle over canonical conditions: decides the input-dependent tests of the constructors"""
    def oracle(c):
        if not isinstance(c, tuple) or not c:
            return None
        if c[0] == "call" and c[1] == "hasattr" and len(c[2]) == 2 and c[2][1] == ("const", "read"):
            p = c[2][0]
            who = p[1] if p[0] == "param" else None
            return answers.get("stream:%s" % who, answers.get("stream"))
        if c[0] == "cmp" and c[1] == "==" and c[3][0] == "const" and c[3][1] in (b"TDSh", b"TDSm"):
            return answers.get("tag") == c[3][1]
        if c[0] == "method" and c[1] == "endswith" and c[3] and c[3][0] == ("const", ".tdms_index"):
            return answers.get("index_path")
        if c[0] == "call" and c[1] in ("os.path.isfile", "os.path.exists", "posixpath.isfile"):
            return answers.get("isfile")
        if c[0] == "call" and c[1] == "isinstance" and len(c[2]) == 2 and c[2][0] == ("param", "index_file"):
            return answers.get("index_is_bool")
        if c == ("param", "index_file"):
            return answers.get("index_true")
        return None
    return oracle


READER_SCENARIOS = [
    ("stream holding an index (TDSh)", dict(stream=True, tag=b"TDSh")),
    ("stream holding data (TDSm)", dict(stream=True, tag=b"TDSm")),
    ("path of a .tdms_index file", dict(stream=False, index_path=True)),
    ("path of a .tdms file without index", dict(stream=False, index_path=False, isfile=False)),
    ("path of a .tdms file with an index beside it", dict(stream=False, index_path=False, isfile=True)),
]
WRITER_SCENARIOS = [
    ("data stream and index stream", {"stream:file": True, "stream:index_file": True}),
    ("data stream, no index", {"stream:file": True, "stream:index_file": False, "index_is_bool": True, "index_true": False}),
    ("path with index file", {"stream:file": False, "stream:index_file": False, "index_is_bool": True, "index_true": True}),
    ("path without index file", {"stream:file": False, "stream:index_file": False, "index_is_bool": True, "index_true": False}),
]


def construct(prog, cq, answers, then=()):
    """Abstractly run <class>.__init__ (and further methods) under a scenario; -> set of final states"""
    from .resinterp import ResInterp, initial_state
    cls = prog.cls(cq)
    owners = OWNERS[cq]
    handles = {"self." + h for h in owners}
    ofields = {"self." + p_ for p_ in owners.values()}
    it = ResInterp(prog, cls, handles, modules={cls.module.name}, scenario=_scn(**answers), owner_fields=ofields)
    states = frozenset([initial_state({})])
    for m in ("__init__",) + tuple(then):
        fi = prog.func("%s.%s" % (cq, m))
        states = it.run_func(fi, cls, states)
    return states


@rule("RL1", "who-may-open and ownership pairing of handle/owner fields", floor=12)
def rl1(ctx, R):
    from .resinterp import sget
    prog = ctx.prog
    owner_classes = {prog.cls(q) for q in OWNERS}
    n_open = 0
    for fi in _all_functions(prog):
        with_exprs = set()
        for n in walk_body(fi.node):
            if isinstance(n, (ast.With, ast.AsyncWith)):
                for it in n.items:
                    with_exprs.add(id(it.context_expr))
        for n in walk_body(fi.node):
            if not (isinstance(n, ast.Call) and is_builtin_open(n, fi.module)):
                continue
            n_open += 1
            key = "%s::open(%s)" % (fi.qual, unparse(n.args[0]) if n.args else "")
            if id(n) in with_exprs:
                R.ok(key, fi.where(n), "open() as context manager: released by the with statement")
            elif fi.cls in owner_classes:
                R.ok(key, fi.where(n), "open() inside a handle-owning class (ownership decided by the constructor scenarios below)")
            elif any(isinstance(r, ast.Return) and r.value is n for r in walk_body(fi.node)) and ctx.callgraph().callers(fi.qual) and all(
                    prog.functions[e.caller].cls in owner_classes for e in ctx.callgraph().callers(fi.qual)):
                R.ok(key, fi.where(n), "the handle is returned to its only callers, methods of handle-owning classes (ownership decided by the "
                     "constructor scenarios below)")
            elif fi.cls is not None and fi.cls not in owner_classes and fi.module in {k.module for k in owner_classes}:
                R.undecided(key, fi.where(n), "open() in %s, a helper class of a module with a handle-owning class: how this handle is paired with an owner "
                            "is not modelled" % fi.cls.qual)
            else:
                R.violation(key, fi.where(n), "open() outside the handle-owning classes %s: nothing pairs this handle with an owner field, so no close() "
                            "site is obliged to release it" % sorted(OWNERS))
    # ownership invariant after construction, per input scenario
    for cq, scenarios, then in (("reader.TdmsReader", READER_SCENARIOS, ()), ("writer.TdmsWriter", WRITER_SCENARIOS, ("open",))):
        owners = OWNERS[cq]
        init = prog.func(cq + ".__init__")
        unfit = model_unfit(prog, cq)
        if unfit:
            R.unrecognised("%s::ownership" % cq, init.where(), "handle / owner field model does not apply: %s" % unfit)
            continue
        for name, answers in scenarios:
            outs = construct(prog, cq, answers, then)
            key = "%s::%s" % (cq, name)
            if not outs:
                R.undecided(key, init.where(), "constructor has no normal exit in this scenario")
                continue
            bad = None
            for st in outs:
                for h, p_ in owners.items():
                    origin = sget(st, "origin", "self." + h)
                    hn = sget(st, "null", "self." + h)
                    pn = sget(st, "null", "self." + p_)
                    owned = pn == NOTNONE
                    if origin == "open" and not owned:
                        bad = "self.%s is opened by the library but its owner field self.%s is not set: close() will never release it" % (h, p_)
                    elif origin and origin.startswith("caller") and owned:
                        bad = "self.%s holds the caller's object (%s) while its owner field self.%s is set: close() would close a stream supplied by the caller" % (h, origin, p_)
                    elif owned and origin != "open":
                        bad = "owner field self.%s is set although self.%s was not opened by the library (%s)" % (p_, h, origin or hn)
            if bad:
                R.violation(key, init.where(), "after construction from a %s: %s" % (name, bad))
            else:
                summary = {h: sget(next(iter(outs)), "origin", "self." + h) or "None" for h in owners}
                R.ok(key, init.where(), "handles %s, owner fields set exactly for library-opened handles" % summary)
    R.note("open() call sites in package: %d" % n_open)


@rule("ST2", "a stream supplied by the caller is used as it is: no wrapper object is put between the library and the stream", floor=2)
def st2(ctx, R):
    """For every constructor scenario in which a handle field ends up holding something that came from the caller, that something
    must be the caller's object itself (a parameter, possibly through locals), not a new object constructed around it: a buffering
    wrapper reads ahead of what is asked for and closes the caller's stream when it is finalised."""
    from .resinterp import sget
    prog = ctx.prog
    n = 0
    for cq, scenarios, then in (("reader.TdmsReader", READER_SCENARIOS, ()), ("writer.TdmsWriter", WRITER_SCENARIOS, ("open",))):
        owners = OWNERS[cq]
        init = prog.func(cq + ".__init__")
        if model_unfit(prog, cq):
            R.unrecognised("%s::stream as supplied" % cq, init.where(), "handle / owner field model does not apply: %s" % model_unfit(prog, cq))
            n += 2
            continue
        for name, answers in scenarios:
            outs = construct(prog, cq, answers, then)
            wrapped = None
            seen_caller = False
            for st in outs:
                for h in owners:
                    origin = sget(st, "origin", "self." + h) or ""
                    if origin.startswith("caller:"):
                        seen_caller = True
                        src = origin[len("caller:"):]
                        if "(" in src:
                            wrapped = (h, src)
            if not seen_caller:
                continue
            n += 1
            key = "%s::%s" % (cq, name)
            if wrapped:
                R.violation(key, init.where(), "constructed from a %s, self.%s holds `%s`, a new object around the caller's stream, not the stream itself: "
                            "its buffering reads more than is asked for and its finaliser closes the caller's stream" % (name, wrapped[0], wrapped[1]))
            else:
                R.ok(key, init.where(), "the handle field holds the caller's object itself")
    if n < 2:
        raise AnchorMissing("constructor scenarios with a caller-supplied stream (found %d)" % n)


def _assign_parent(func_node, call):
    for n in walk_body(func_node):
        if isinstance(n, ast.Assign) and n.value is call:
            return n
    return None


# ---------------------------------------------------------------------------

def _ctor_call_nodes(prog, fi, cfg, class_qual):
    out = []
    for n in cfg.where(lambda n: n.kind == "stmt" and isinstance(n.ast, ast.Assign)):
        v = n.ast.value
        if isinstance(v, ast.Call):
            c = prog.resolve_class(fi.module, v.func)
            if c is not None and c.qual == class_qual:
                out.append(n)
    return out


@rule("RL2", "eager construction releases the reader on every exit (per public entry point)", floor=3)
def rl2(ctx, R):
    prog = ctx.prog
    init = prog.func("tdms.TdmsFile.__init__")
    # "returns or raises": KeyboardInterrupt / SystemExit raised while the file is being read leave through `except Exception`
    # untouched, so only a bare except or BaseException (or a finally / a context manager) covers every exit
    cfg = ctx.cfg(init, catch_all_names=("BaseException",))
    ctor_nodes = _ctor_call_nodes(prog, init, cfg, "reader.TdmsReader")
    if len(ctor_nodes) != 1:
        raise AnchorMissing("tdms.TdmsFile.__init__: exactly one `x = TdmsReader(...)` assignment (found %d)" % len(ctor_nodes))
    A = ctor_nodes[0]
    targets_ = [dotted(t) for t in A.ast.targets if dotted(t)]       # reader = self._reader = TdmsReader(file): either name is the reader
    target = targets_[0]

    def cm_closes(node, val):
        """`with K(.., target, .., keep_open ..)` of a package context manager whose __exit__ always closes the field holding
        `target` under what is known about keep_open: leaving the block (any way) closes; so does entering it when constructing
        and entering the manager cannot fail (its __init__ / __enter__ only store and return)"""
        from .region import ctor_fields
        if node.kind not in ("with_exit", "with_enter"):
            return False
        e = node.ast.context_expr
        if not (isinstance(e, ast.Call) and isinstance(e.func, (ast.Name, ast.Attribute))):
            return False
        K = prog.resolve_class(init.module, e.func)
        if K is None:
            # a generator based context manager of the package:  with _closing_unless(reader, keep_open): ...
            g, b = cm_call_binding(prog, init.module, e)
            if g is None:
                return False
            facts = {}
            for p_, a in b.items():
                if isinstance(a, ast.Name) and a.id == "keep_open":
                    facts[p_] = val
                elif isinstance(a, ast.Constant) and isinstance(a.value, bool):
                    facts[p_] = a.value
            closed = gen_cm_closed_params(ctx, g, facts, "exit")
            hit = any(dotted(a) in targets_ and p_ in closed for p_, a in b.items())
            if not hit:
                return False
            if node.kind == "with_exit":
                return True
            # entering: the generator runs up to its yield; fine when nothing before the yield can fail
            first = [st for st in g.node.body if not (isinstance(st, ast.Expr) and isinstance(st.value, ast.Constant))]
            return bool(first) and (isinstance(first[0], ast.Try) or (isinstance(first[0], ast.Expr) and isinstance(first[0].value, ast.Yield)))
        if "__exit__" not in K.methods:
            return False
        kinit = K.methods.get("__init__")
        cf = ctor_fields(K)
        bound = {}
        for pos, a in enumerate(e.args):
            if pos in cf:
                bound[cf[pos][0]] = a
        for k in e.keywords:
            for pos, (fld, pn) in cf.items():
                if k.arg == pn:
                    bound[fld] = k.value
        tf = [f for f, a in bound.items() if dotted(a) in targets_]
        if not tf:
            return False
        facts = {}
        for f, a in bound.items():
            if isinstance(a, ast.Name) and a.id == "keep_open":
                facts["self." + f] = val
            elif isinstance(a, ast.Constant) and isinstance(a.value, bool):
                facts["self." + f] = a.value
        xf = K.methods["__exit__"]
        xcfg = ctx.cfg(xf)
        ok, _w = xcfg.always_passes(xcfg.entry, lambda n: _node_has_call(n, lambda c: call_name(c) in ["self.%s.close" % f for f in tf]),
                                    targets={xcfg.exit}, assume=assume_from(facts), follow_exc=False)
        if not ok:
            return False
        if node.kind == "with_exit":
            return True
        simple = lambda f: f is None or all(isinstance(st, (ast.Assign, ast.Return, ast.Pass, ast.Expr)) and not any(isinstance(x, ast.Call) for x in ast.walk(st))
                                            for st in f.node.body)
        return simple(kinit) and simple(K.methods.get("__enter__"))
    _val = [None]

    def closes(node):
        return _node_has_call(node, lambda c: call_name(c) in [t + ".close" for t in targets_]) or cm_closes(node, _val[0])
    defaults = init.defaults
    if "keep_open" not in init.params:
        raise AnchorMissing("tdms.TdmsFile.__init__ parameter keep_open")
    entry_points = []
    for q in ("tdms.TdmsFile.read", "tdms.TdmsFile.read_metadata", "tdms.TdmsFile.open"):
        f = prog.func(q)
        calls = [c for c in walk_body(f.node) if isinstance(c, ast.Call)
                 and (prog.resolve_class(f.module, c.func) or None) is prog.cls("tdms.TdmsFile")]
        if len(calls) != 1:
            raise AnchorMissing("%s: exactly one TdmsFile(...) call" % q)
        c = calls[0]
        ko = None
        for k in c.keywords:
            if k.arg == "keep_open":
                ko = k.value
        idx = init.params.index("keep_open") - 1
        if ko is None and len(c.args) > idx:
            ko = c.args[idx]
        if ko is None:
            ko = defaults.get("keep_open")
        val = prog.try_fold(ko, f.module, default="?") if ko is not None else "?"
        entry_points.append((q, val))
    entry_points.append(("tdms.TdmsFile.__init__ (direct construction, default)",
                         prog.try_fold(defaults.get("keep_open"), init.module, default="?")))
    for q, val in entry_points:
        key = "%s::keep_open=%r" % (q, val)
        if val == "?":
            R.undecided(key, init.where(), "keep_open is not a constant at this entry point")
            continue
        if q.endswith(".open") :
            # TdmsFile.open keeps the file open by contract; released by close()/__exit__ (RL4)
            R.check(val is True, key, init.where(), "open() keeps the reader for lazy reads (released by close/__exit__, RL4)",
                    "TdmsFile.open must pass keep_open=True")
            continue
        if q.endswith(".read") or q.endswith(".read_metadata"):
            if val is not False:
                R.violation(key, init.where(), "TdmsFile.%s constructs with keep_open=%r: the file stays open after it returns" % (q.split(".")[-1], val))
                continue
        if val is not False:
            R.undecided(key, init.where(), "non-default keep_open")
            continue
        # if the constructor call itself raises no reader exists (its own handles: RL8);
        # the obligation starts at the normal successors of the assignment
        ok, wit = True, None
        _val[0] = val
        for succ, kind in A.succ:
            if kind in ("exc", "uncaught"):
                continue
            if closes(succ):
                continue
            ok, wit = cfg.always_passes(succ, closes, assume=assume_from({"keep_open": val}))
            if not ok:
                break
        if ok:
            R.ok(key, init.where(A.ast), "every normal and exceptional path from `%s` to an exit of __init__ passes %s.close()" % (
                unparse(A.ast), target))
        else:
            R.violation(key, init.where(A.ast),
                        "a path from `%s` leaves TdmsFile.__init__ without %s.close() although keep_open is False" % (
                            unparse(A.ast), target), path=cfg.describe_path(wit))


def _owner_scenarios(cq):
    owners = OWNERS[cq]
    allopen = {}
    for h, p_ in owners.items():
        allopen["self." + h] = NOTNONE
        allopen["self." + p_] = NOTNONE
    return owners, allopen


def _run_method(prog, cls, fi, facts):
    from .resinterp import ResInterp, initial_state
    handles = {"self." + h for h in OWNERS[cls.qual]}
    it = ResInterp(prog, cls, handles, modules={cls.module.name})
    outs = it.run_func(fi, cls, frozenset([initial_state(facts)]))
    return outs


@rule("RL4", "close() releases every owned handle and clears both handle fields", floor=8)
def rl4(ctx, R):
    from .resinterp import sget
    prog = ctx.prog
    for cq, fq in (("reader.TdmsReader", "reader.TdmsReader.close"), ("writer.TdmsWriter", "writer.TdmsWriter.close")):
        fi = prog.func(fq)
        cls = prog.cls(cq)
        if model_unfit(prog, cq):
            R.unrecognised("%s::owned handles" % fq, fi.where(), "handle / owner field model does not apply: %s" % model_unfit(prog, cq))
            continue
        owners, allopen = _owner_scenarios(cq)
        outs = _run_method(prog, cls, fi, allopen)
        if not outs:
            R.violation(fq + "::returns", fi.where(), "close() has no normal exit when everything is open")
            continue
        for h, p_ in owners.items():
            hn = "self." + h
            # (a) owned and open -> closed on every normal path
            missing = [st for st in outs if not sget(st, "closed", hn)]
            R.check(not missing, "%s::owned %s is closed" % (fq, hn), fi.where(), "with self.%s set, every normal path through close() closes %s" % (p_, hn),
                    "close() can return without closing the library-owned %s" % hn)
            # (c) cleared
            notclr = [st for st in outs if sget(st, "null", hn) != "none"]
            R.check(not notclr, "%s::%s cleared" % (fq, hn), fi.where(), "%s = None on every normal path (needed by the use-after-close guard)" % hn,
                    "close() can return with %s still referencing the closed file: later reads would not be refused by the guard" % hn)
            # (b) caller-supplied (owner field None) -> never closed
            facts = dict(allopen)
            facts["self." + p_] = NONE
            outs_b = _run_method(prog, cls, fi, facts)
            bad = [sget(st, "closed", hn) for st in outs_b if sget(st, "closed", hn)]
            R.check(not bad, "%s::caller-supplied %s is not closed" % (fq, hn), fi.where(), "with self.%s None, %s is never closed" % (p_, hn),
                    "%s is closed although self.%s is None, i.e. the stream belongs to the caller (%s)" % (hn, p_, bad[0] if bad else ""))
    # delegations: TdmsFile.close -> reader.close ; __exit__ -> close
    fi = prog.func("tdms.TdmsFile.close")
    cfg = ctx.cfg(fi)
    from .region import nodes_reaching
    closers = nodes_reaching(ctx, fi, cfg, {"reader.TdmsReader.close"})
    aliases = _aliases_of(fi, "self._reader")

    def is_close(n):
        return n in closers or _node_has_call(n, lambda c: call_name(c) in {a + ".close" for a in aliases})
    facts = {a: NOTNONE for a in aliases}
    ok, wit = cfg.always_passes(cfg.entry, is_close, targets={cfg.exit}, assume=assume_from(facts), follow_exc=False)
    R.check(ok, "tdms.TdmsFile.close::delegates to reader.close", fi.where(),
            "with a live reader every normal path calls the reader's close()",
            "TdmsFile.close() can return without closing its reader")
    for q in ("tdms.TdmsFile.__exit__", "writer.TdmsWriter.__exit__"):
        fi = prog.func(q)
        cfg = ctx.cfg(fi)
        target = q.rsplit(".", 1)[0] + ".close"
        cl = nodes_reaching(ctx, fi, cfg, {target})
        ok, wit = cfg.always_passes(cfg.entry, lambda n: n in cl, targets={cfg.exit, cfg.raise_exit})
        R.check(ok, "%s::calls self.close()" % q, fi.where(), "every path through __exit__ calls close()",
                "leaving the with-block does not always close the file")
    for q in ("tdms.TdmsFile.__enter__", "writer.TdmsWriter.__enter__"):
        prog.func(q)
    # the writer created by defragment is used as a context manager
    fi = prog.func("writer.TdmsWriter.defragment")
    with_ctx = [it.context_expr for n in walk_body(fi.node) if isinstance(n, ast.With) for it in n.items]
    ctor = [c for c in walk_body(fi.node) if isinstance(c, ast.Call) and dotted(c.func) in ("cls", "TdmsWriter")]
    for c in ctor:
        R.check(any(c is w for w in with_ctx), "writer.TdmsWriter.defragment::writer in with-statement", fi.where(c),
                "destination writer is closed by its with-block", "destination writer is not used as a context manager")


def _aliases_of(fi, dname):
    """local names that are plain aliases of `dname` in fi (x = self._reader / self._reader = x)"""
    out = {dname}
    changed = True
    while changed:
        changed = False
        for n in walk_body(fi.node):
            if isinstance(n, ast.Assign):
                names = [dotted(t) for t in n.targets] + [dotted(n.value)]
                names = [x for x in names if x]
                if any(x in out for x in names) and all(isinstance(t, (ast.Name, ast.Attribute)) for t in n.targets) and dotted(n.value):
                    for x in names:
                        if x not in out:
                            out.add(x)
                            changed = True
    return out


@rule("RL5", "close() is idempotent (reader and file)", floor=2)
def rl5(ctx, R):
    from .resinterp import sget
    prog = ctx.prog
    fi = prog.func("reader.TdmsReader.close")
    cls = prog.cls("reader.TdmsReader")
    post = {"self._file": NONE, "self._index_file": NONE, "self._file_path": NOTNONE, "self._index_file_path": NOTNONE}
    outs = _run_method(prog, cls, fi, post)
    bad = [x for st in outs for x in st if x[0] == "deref-none"]
    R.check(bool(outs) and not bad, "reader.TdmsReader.close::second call", fi.where(), "re-interpreted in its own post-state, close() touches no released handle",
            "in the state left by a first close(), a released handle is dereferenced (%s)" % (bad[0][2] if bad else "no normal exit"))
    fi = prog.func("tdms.TdmsFile.close")
    cfg = ctx.cfg(fi)
    aliases = _aliases_of(fi, "self._reader")
    post = {a: NONE for a in aliases}
    r = cfg.reach([cfg.entry], assume=assume_from(post))
    bad = None
    for n in sorted(r, key=lambda n: n.id):
        if n.ast is None or n.kind in ("test",):
            continue
        for a in walk_shallow(n.ast if n.kind != "for" else n.ast.iter):
            if isinstance(a, ast.Attribute) and isinstance(a.ctx, ast.Load) and dotted(a.value) in post:
                bad = (n, a)
                break
        if bad:
            break
    R.check(bad is None, "tdms.TdmsFile.close::second call", fi.where(), "a second close() finds no reader and does nothing",
            "in the state left by a first close(), `%s` dereferences None" % (unparse(bad[1]) if bad else ""))
    R.note("writer.TdmsWriter.close is not idempotent in path mode (self._file is None after the first call); the "
           "property's sentence on repeated close() concerns reading, so this is a note, not a violation")


def _guard_nodes(ctx, fi, cfg, depth=0):
    """CFG nodes of fi after which _ensure_open() is known to have run: a direct call, or a call of a
    self-method all of whose normal paths pass such a node."""
    prog = ctx.prog
    out = []
    for n in cfg.where(lambda n: bool(node_calls(n))):
        for c in node_calls(n):
            cn = call_name(c) or ""
            if cn == "self._ensure_open":
                out.append(n)
            elif cn.startswith("self.") and cn.count(".") == 1 and fi.cls is not None and depth < 3:
                found = prog.lookup(fi.cls, cn[5:])
                if found and found[0] == "method" and found[2] is not fi and not found[2].is_generator:
                    g = found[2]
                    gcfg = ctx.cfg(g)
                    inner = _guard_nodes(ctx, g, gcfg, depth + 1)
                    if inner:
                        ok, _ = gcfg.always_passes(gcfg.entry, lambda m: m in inner, targets={gcfg.exit}, follow_exc=False)
                        if ok:
                            out.append(n)
    return out


@rule("RL6", "every reader method that touches the data stream is guarded by _ensure_open", floor=4)
def rl6(ctx, R):
    prog = ctx.prog
    cls = prog.cls("reader.TdmsReader")
    ens = prog.func("reader.TdmsReader._ensure_open")
    outs = _run_method(prog, cls, ens, {"self._file": NONE, "self._index_file": NONE})
    R.check(not outs, "reader.TdmsReader._ensure_open::raises when closed", ens.where(),
            "with both handle fields None no path returns normally", "_ensure_open can return normally after close()")
    outs = _run_method(prog, cls, ens, {"self._file": NOTNONE, "self._index_file": NONE})
    R.check(bool(outs), "reader.TdmsReader._ensure_open::passes when open", ens.where(), "returns normally while a handle is held",
            "_ensure_open never returns normally")

    def touches_stream(fi):
        for n in walk_body(fi.node):
            if isinstance(n, ast.Attribute) and _self_attr(n) == "_file" and isinstance(n.ctx, ast.Load):
                return True
        return False
    exempt = {"__init__": "constructor", "close": "releases the handles", "read_metadata": "own None tests, raises ValueError",
              "is_index_file_only": "reads the field for a None test only", "_ensure_open": "the guard itself"}
    # helpers of exempt methods that only test the fields (predicates) are exempt too
    cg = ctx.callgraph()
    for name, fi in sorted(cls.methods.items()):
        if not touches_stream(fi) or name in exempt:
            continue
        only_tests = all(isinstance(p_, ast.Compare) for p_ in _parents_of_file_loads(fi))
        if only_tests:
            R.ok("reader.TdmsReader.%s" % name, fi.where(), "only compares self._file with None")
            continue
        cfg = ctx.cfg(fi)
        guards = _guard_nodes(ctx, fi, cfg)

        def guarded(n, guards=guards):
            return n in guards
        uses = cfg.where(lambda n: n.ast is not None and any(
            isinstance(a, ast.Attribute) and _self_attr(a) == "_file" for a in walk_shallow(
                n.ast.iter if n.kind == "for" else (n.ast.context_expr if n.kind in ("with_enter", "with_exit") else n.ast))))
        unguarded = None
        for u in uses:
            ok, wit = cfg.dominated_by(u, guarded)
            if not ok:
                unguarded = (u, wit)
                break
        key = "reader.TdmsReader.%s" % name
        if unguarded is None:
            R.ok(key, fi.where(), "every use of self._file is dominated by a call that runs self._ensure_open()")
            continue
        if not name.startswith("_"):
            R.violation(key, fi.where(unguarded[0].ast), "public method uses self._file without a dominating self._ensure_open(): "
                        "after close() it would fail with an arbitrary error or act on a stale handle",
                        path=cfg.describe_path(unguarded[1]))
            continue
        # private helper: every call site must itself be guarded
        callers = [e for e in cg.callers(fi.qual) if e.kind in ("self", "direct", "receiver")]
        if not callers:
            R.undecided(key, fi.where(), "private method touching self._file without a guard and without resolved callers")
            continue
        all_ok = True
        for e in callers:
            cf = prog.functions[e.caller]
            if cf.name in exempt:
                continue
            ccfg = ctx.cfg(cf)
            cguards = _guard_nodes(ctx, cf, ccfg)
            cnodes = [n for n in ccfg.where(lambda n: any(c is e.node for c in node_calls(n)))]
            for cn in cnodes:
                ok, wit = ccfg.dominated_by(cn, lambda n: n in cguards)
                if not ok:
                    # the caller may itself be a private helper whose callers are guarded
                    if cf.name.startswith("_") and _callers_guarded(ctx, cf, exempt, 2):
                        continue
                    all_ok = False
                    R.violation(key + "<-" + cf.qual, cf.where(cn.ast), "call of the unguarded helper %s is itself not dominated by "
                                "self._ensure_open()" % name, path=ccfg.describe_path(wit))
        if all_ok:
            R.ok(key, fi.where(), "private helper, all %d call sites are dominated by self._ensure_open() (or are in read_metadata)" % len(callers))


def _parents_of_file_loads(fi):
    out = []
    for n in walk_body(fi.node):
        for ch in ast.iter_child_nodes(n):
            if isinstance(ch, ast.Attribute) and _self_attr(ch) == "_file" and isinstance(ch.ctx, ast.Load):
                out.append(n)
    return out or [None]


def _callers_guarded(ctx, fi, exempt, depth):
    prog = ctx.prog
    cg = ctx.callgraph()
    callers = [e for e in cg.callers(fi.qual) if e.kind in ("self", "direct", "receiver")]
    if not callers or depth <= 0:
        return False
    for e in callers:
        cf = prog.functions[e.caller]
        if cf.name in exempt:
            continue
        ccfg = ctx.cfg(cf)
        cguards = _guard_nodes(ctx, cf, ccfg)
        for cn in ccfg.where(lambda n: any(c is e.node for c in node_calls(n))):
            ok, _ = ccfg.dominated_by(cn, lambda n: n in cguards)
            if not ok and not (cf.name.startswith("_") and _callers_guarded(ctx, cf, exempt, depth - 1)):
                return False
    return True


@rule("RL7", "streams supplied by the caller are never closed; every other close() delegates to a package close()", floor=9)
def rl7(ctx, R):
    from .resinterp import ResInterp, sget
    prog = ctx.prog
    cg = ctx.callgraph()
    # (1) semantic part: for every input scenario and every method of the handle-owning classes,
    #     no path closes a handle that holds the caller's stream
    for cq, scenarios, then in (("reader.TdmsReader", READER_SCENARIOS, ()), ("writer.TdmsWriter", WRITER_SCENARIOS, ("open",))):
        cls = prog.cls(cq)
        owners = OWNERS[cq]
        handles = {"self." + h for h in owners}
        ofields = {"self." + p_ for p_ in owners.values()}
        if model_unfit(prog, cq):
            R.unrecognised("%s::caller streams" % cq, "%s:%d" % (cls.module.relpath, cls.node.lineno), "handle / owner field model does not apply: %s" % model_unfit(prog, cq))
            continue
        for name, answers in scenarios:
            post = construct(prog, cq, answers, then)
            caller_handles = {h for st in post for h in handles if (sget(st, "origin", h) or "").startswith("caller")}
            if not caller_handles:
                continue
            for mname, fi in sorted(cls.methods.items()):
                if mname in ("__init__",) + tuple(then):
                    continue
                it = ResInterp(prog, cls, handles, modules={cls.module.name}, scenario=_scn(**answers), owner_fields=ofields)
                outs = it.run_func(fi, cls, post)
                bad = [(h, sget(st, "closed", h)) for st in outs for h in caller_handles if sget(st, "closed", h)]
                key = "%s.%s::%s" % (cq, mname, name)
                if bad:
                    R.violation(key, fi.where(), "constructed from a %s, %s() closes %s, which holds the stream supplied by the caller (%s)" % (
                        name, mname, bad[0][0], bad[0][1]))
                else:
                    R.ok(key, fi.where(), "no path closes the caller's stream(s) %s" % sorted(caller_handles))
    # (2) every other .close() call in the package delegates to a package close method or releases a local open()
    owner_classes = {prog.cls(q) for q in OWNERS}
    covered = set()      # functions only reached from handle-owning methods (interpreted with them in part 1)
    for f in prog.functions.values():
        if f.cls is None and f.module.name in ("reader", "writer"):
            callers = {e.caller for e in cg.callers(f.qual)}
            if callers and all(prog.functions[c].cls in owner_classes or c in covered for c in callers):
                covered.add(f.qual)
    for fi in _all_functions(prog):
        if fi.cls in owner_classes or fi.qual in covered:
            continue
        for c in walk_body(fi.node):
            if not (isinstance(c, ast.Call) and isinstance(c.func, ast.Attribute) and c.func.attr == "close"):
                continue
            recv = dotted(c.func.value) or unparse(c.func.value)
            key = "%s::%s.close()" % (fi.qual, recv)
            targets = [e.callee for e in cg.callees(fi.qual) if e.node is c and e.kind in ("self", "direct", "receiver", "super")]
            if targets and all(t in CLOSE_METHODS for t in targets):
                R.ok(key, fi.where(c), "delegates to %s, which applies the ownership guards" % ", ".join(sorted(set(targets))))
                continue
            lname = c.func.value.id if isinstance(c.func.value, ast.Name) else None
            local_open = lname and any(isinstance(n, ast.Assign) and isinstance(n.value, ast.Call) and is_builtin_open(n.value, fi.module)
                                       and any(isinstance(t, ast.Name) and t.id == lname for t in n.targets) for n in walk_body(fi.node))
            root = recv.split(".")[0]
            takes_streams = fi.cls is not None and fi.cls.qual in ("tdms.TdmsFile", "reader.TdmsReader", "writer.TdmsWriter")
            if not takes_streams and root in fi.params and root not in ("self", "cls"):
                # a parameter that this function also hands to the library as the file to read or write is the caller's stream
                for c2 in walk_body(fi.node):
                    if isinstance(c2, ast.Call) and any(isinstance(a, ast.Name) and a.id == root for a in list(c2.args) + [k.value for k in c2.keywords]):
                        k_ = prog.resolve_class(fi.module, c2.func) if isinstance(c2.func, (ast.Name, ast.Attribute)) else None
                        if k_ is None and isinstance(c2.func, ast.Attribute):
                            k_ = prog.resolve_class(fi.module, c2.func.value) if isinstance(c2.func.value, (ast.Name, ast.Attribute)) else None
                        if k_ is not None and k_.qual in ("tdms.TdmsFile", "reader.TdmsReader", "writer.TdmsWriter"):
                            takes_streams = True
            if local_open:
                R.ok(key, fi.where(c), "closes a file opened in the same function")
            elif takes_streams and (root in fi.params and root not in ("self", "cls") or (root == "self" and recv.count(".") == 1)):
                R.violation(key, fi.where(c), "close() on %r, which is neither a package reader/file/writer object nor a file opened in this function: a "
                            "stream supplied by the caller may be closed" % recv)
            else:
                R.undecided(key, fi.where(c), "close() on %r: whose object this is was not recognised (a helper object, or a helper's parameter)" % recv)


def _alias_defs(fi, name, owners):
    """Definitions of local `name` from self.<handle> fields, each paired with the boolean
    constants assigned to plain names in the same block (mode flags).
    -> [(handle, {flag: bool})] or None when some definition is not a handle field."""
    defs = []

    def scan(stmts):
        for s in stmts:
            if isinstance(s, ast.Assign) and len(s.targets) == 1 and isinstance(s.targets[0], ast.Name) \
                    and s.targets[0].id == name:
                h = _self_attr(s.value)
                flags = {}
                for s2 in stmts:
                    if isinstance(s2, ast.Assign) and len(s2.targets) == 1 and isinstance(s2.targets[0], ast.Name) \
                            and isinstance(s2.value, ast.Constant) and isinstance(s2.value.value, bool):
                        flags[s2.targets[0].id] = s2.value.value
                defs.append((h, flags))
            for f in ("body", "orelse", "finalbody"):
                sub = getattr(s, f, None)
                if isinstance(sub, list) and sub and isinstance(sub[0], ast.stmt):
                    scan(sub)
            for h in getattr(s, "handlers", []) or []:
                scan(h.body)
    scan(fi.node.body)
    if not defs or any(h is None or h not in owners for h, _ in defs):
        return None
    return defs


def _controlling_tests(cfg, cn):
    """Test nodes whose true edge is the only way to reach cn."""
    out = []
    for t in cfg.where(lambda n: n.kind == "test"):
        if cn not in _reach_without_edge(cfg, t, "true"):
            out.append(t)
    return out


def _conjuncts(test):
    return test.values if isinstance(test, ast.BoolOp) and isinstance(test.op, ast.And) else [test]


def _implies_notnone(conj, dname):
    return any(eval_test(t, {dname: NOTNONE}) is True and eval_test(t, {dname: NONE}) is False for t in conj)


def _guarded_by_owner(cfg, cn, owner):
    """close node `cn` is only reachable through the true edge of a test that implies
    self.<owner> is not None."""
    for t in _controlling_tests(cfg, cn):
        if _implies_notnone(_conjuncts(t.ast), "self." + owner):
            return True
    return False


def _guarded_alias(cfg, cn, defs, owners):
    tests = _controlling_tests(cfg, cn)
    conj = [c for t in tests for c in _conjuncts(t.ast)]
    for h, flags in defs:
        feasible = not any(eval_test(c, flags) is False for c in conj)
        if not feasible:
            continue
        if not _implies_notnone(conj, "self." + owners[h]):
            return False
    return True


def _reach_without_edge(cfg, tnode, edge_kind):
    from collections import deque
    seen = {cfg.entry.id}
    dq = deque([cfg.entry])
    while dq:
        n = dq.popleft()
        for m, k in n.succ:
            if n is tnode and k == edge_kind:
                continue
            if m.id not in seen:
                seen.add(m.id)
                dq.append(m)
    return {cfg.nodes[i] for i in seen}


def _dominated_by_open(cfg, cn, handle, fi):
    def opens(n):
        return n.kind == "stmt" and isinstance(n.ast, ast.Assign) and any(_self_attr(t) == handle for t in n.ast.targets) \
            and isinstance(n.ast.value, ast.Call) and is_builtin_open(n.ast.value, fi.module)
    ok, _ = cfg.dominated_by(cn, opens)
    return ok


def _raising_methods(prog, fi, depth=3):
    """Names of methods of fi's class / functions of fi's module that contain a `raise`
    statement outside a handler that re-raises... (transitively through self-calls, bounded)."""
    out = set()
    cands = {}
    if fi.cls is not None:
        for c in prog.mro(fi.cls):
            for name, m in c.methods.items():
                cands.setdefault(name, m)
    for q, f in prog.functions.items():
        if f.cls is None and f.module is fi.module:
            cands.setdefault(f.name, f)
    for _ in range(depth):
        for name, m in cands.items():
            if name in out or m is fi:
                continue
            for n in walk_body(m.node):
                if isinstance(n, ast.Raise):
                    out.add(name)
                    break
                if isinstance(n, ast.Call):
                    cn = call_name(n) or ""
                    if (cn.startswith("self.") and cn[5:] in out) or cn in out:
                        out.add(name)
                        break
    return out


@rule("RL8", "no failing acquisition or raise after a successful open() leaks the first handle", floor=2)
def rl8(ctx, R):
    prog = ctx.prog
    owner_funcs = {}
    for cq in OWNERS:
        for mname, m in prog.cls(cq).methods.items():
            if any(isinstance(c, ast.Call) and is_builtin_open(c, m.module) for c in walk_body(m.node)):
                owner_funcs[m.qual] = cq
    if not owner_funcs:
        raise AnchorMissing("methods of %s that call open()" % sorted(OWNERS))
    for q, owner_cls in sorted(owner_funcs.items()):
        fi = prog.func(q)

        raising_helpers = _raising_methods(prog, fi)

        def may_raise(n, fi=fi, raising_helpers=raising_helpers):
            if n.kind == "raisestmt":
                return True
            for c in node_calls(n):
                if is_builtin_open(c, fi.module):
                    return True
                cn = call_name(c) or ""
                if cn.startswith("self.") and cn[5:] in raising_helpers:
                    return True
                if cn in raising_helpers:
                    return True
            return False
        cfg = CFG(fi.node, may_raise=may_raise)
        opens = cfg.where(lambda n: n.kind == "stmt" and isinstance(n.ast, ast.Assign)
                          and isinstance(n.ast.value, ast.Call) and is_builtin_open(n.ast.value, fi.module)
                          and any(_self_attr(t) in OWNERS[owner_cls] for t in n.ast.targets))
        if not opens:
            R.undecided("%s::open() not stored in a handle field directly" % q, fi.where(), "open() results are not assigned to self.<handle> in this function")
            continue
        for A in opens:
            handle = [_self_attr(t) for t in A.ast.targets if _self_attr(t)][0]
            after = cfg.reach([A], follow_exc=False)
            risky = [n for n in after if n is not A and may_raise(n)]
            key = "%s::after self.%s = open(...)" % (q, handle)
            bad = None
            for B in sorted(risky, key=lambda n: n.id):
                # exceptional successors of B
                starts = [m for m, k in B.succ if k == "exc"]
                def closes(n, handle=handle):
                    if _node_has_call(n, _closes_handle(handle)):
                        return True
                    if n.kind == "with_exit" and "exc" in (n.clone or ""):
                        # with close_on_error(self._file): ...   -- a package context manager that closes its argument when the block raises
                        g, b = cm_call_binding(prog, fi.module, n.ast.context_expr)
                        if g is not None:
                            closed = gen_cm_closed_params(ctx, g, {}, "error")
                            return any(dotted(a) == "self." + handle and p_ in closed for p_, a in b.items())
                    return False
                for s in starts:
                    if closes(s):
                        continue
                    r = cfg.reach([s], avoid=closes)
                    if cfg.raise_exit in r or s is cfg.raise_exit:
                        bad = (B, cfg.path_to(cfg.raise_exit) if s is not cfg.raise_exit else [B, s])
                        break
                if bad:
                    break
            if bad:
                R.violation(key, fi.where(bad[0].ast), "`%s` can raise after self.%s was opened and the exception leaves %s "
                            "without self.%s.close()" % (bad[0].text(), handle, q.split(".")[-1], handle),
                            path=cfg.describe_path(bad[1]))
            else:
                R.ok(key, fi.where(A.ast), "%d later acquisition/raise statement(s), each releases self.%s before propagating" % (len(risky), handle))
