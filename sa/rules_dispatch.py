"""TD1/TD2 type-dispatch exhaustiveness (C01, C10, C11), SD1 scale dispatch and arity,
NS1 number-of-scales inference, ST1 scaling-status test, AO1 lookup-order role flow (C13)."""
import ast

from .registry import rule
from .core import call_name, dotted, walk_shallow, walk_body, unparse, AnchorMissing
from .cfg import node_calls


def _is_stub(fi):
    """method whose body only raises NotImplementedError (the TdmsType 'unsupported' stubs)"""
    body = [s for s in fi.node.body if not (isinstance(s, ast.Expr) and isinstance(s.value, ast.Constant))]
    return len(body) == 1 and isinstance(body[0], ast.Raise)


def _member(prog, ci, name):
    found = prog.lookup(ci, name)
    if found is None or found[0] != "method":
        return None
    if _is_stub(found[2]):
        return None
    return found[2]


def admitted_channel_types(prog):
    """Classes the metadata parser admits as channel data types: a numeric size, or String."""
    fi = prog.func("tdms_segment.TdmsSegmentObject.read_raw_data_index")
    guard = False
    for n in walk_body(fi.node):
        if isinstance(n, ast.If) and "size is None" in unparse(n.test) and "String" in unparse(n.test) \
                and any(isinstance(x, ast.Raise) for s in n.body for x in ast.walk(s)):
            guard = True
    if not guard:
        raise AnchorMissing("tdms_segment.TdmsSegmentObject.read_raw_data_index: rejection of unsized non-string types")
    out = []
    for r in prog.tds_types():
        c = r["cls"]
        size = prog.class_const(c, "size")
        if isinstance(size, int) or c.name == "String":
            out.append((c, size, r["nptype"]))
    return out


@rule("TD1", "every admitted channel data type has what each decoder branch it can reach needs", floor=40)
def td1(ctx, R):
    prog = ctx.prog
    adm = admitted_channel_types(prog)
    if len(adm) < 17:
        raise AnchorMissing("admitted channel types (found %d, the format has 17 readable types)" % len(adm))
    rv = prog.func("tdms_segment.TdmsSegmentObject.read_values")
    il = prog.func("tdms_segment.InterleavedDataReader._read_interleaved_chunks")
    il_uses_from_bytes = any(isinstance(c, ast.Call) and isinstance(c.func, ast.Attribute) and c.func.attr == "from_bytes" for c in walk_body(il.node))
    if not il_uses_from_bytes:
        raise AnchorMissing("tdms_segment.InterleavedDataReader._read_interleaved_chunks: from_bytes dispatch")
    # which branch of read_values does each class take?  (read from the if-chain)
    branches = []
    for n in rv.node.body:
        if isinstance(n, ast.If):
            cur = n
            while True:
                branches.append((unparse(cur.test), cur.body))
                if len(cur.orelse) == 1 and isinstance(cur.orelse[0], ast.If):
                    cur = cur.orelse[0]
                else:
                    branches.append(("else", cur.orelse))
                    break
    if len(branches) < 3:
        raise AnchorMissing("tdms_segment.TdmsSegmentObject.read_values: three-way dispatch")

    def needed_member(body):
        for s in body:
            for c in walk_shallow(s):
                if isinstance(c, ast.Call) and isinstance(c.func, ast.Attribute) and dotted(c.func.value) == "self.data_type":
                    return c.func.attr
        return None
    for (c, size, nptype) in adm:
        where = "%s:%d" % (c.module.relpath, c.node.lineno)
        # contiguous
        taken = None
        for test, body in branches:
            if "nptype is not None" in test:
                if nptype is not None:
                    taken = (test, body)
                    break
            elif "size is not None" in test:
                if size is not None:
                    taken = (test, body)
                    break
            elif test == "else":
                taken = (test, body)
                break
            else:
                taken = None
        key = "%s@contiguous" % c.qual
        if taken is None:
            R.undecided(key, where, "dispatch test not understood")
        else:
            need = needed_member(taken[1])
            if need is None:
                R.ok(key, where, "branch `%s`: decoded by fromfile with the type's dtype" % taken[0])
            else:
                m = _member(prog, c, need)
                R.check(m is not None, key, where, "branch `%s` needs %s: resolves to %s" % (taken[0], need, m.qual if m else None),
                        "branch `%s` of TdmsSegmentObject.read_values calls %s.%s, which is missing or only the TdmsType 'unsupported' stub: "
                        "reading this type from a contiguous segment fails" % (taken[0], c.name, need))
        # interleaved: every sized type is decoded with from_bytes
        if size is not None:
            m = _member(prog, c, "from_bytes")
            R.check(m is not None, "%s@interleaved" % c.qual, where, "from_bytes resolves to %s" % (m.qual if m else None),
                    "%s has a size, so the parser admits it in interleaved segments, but it has no from_bytes: InterleavedDataReader calls "
                    "data_type.from_bytes for every channel" % c.name)
        # properties
        m = _member(prog, c, "read")
        if m is not None:
            R.ok("%s@property" % c.qual, where, "read resolves to %s" % m.qual)
        else:
            R.note("%s cannot be read as a property value (fails loudly with NotImplementedError by design)" % c.name)
    # size arithmetic guards for the unsized String type
    fcl = prog.func("tdms_segment.TdmsSegment._compute_final_chunk_lengths")
    R.check("size is None" in unparse(fcl.node), "tdms_segment.TdmsSegment._compute_final_chunk_lengths::unsized guard", fcl.where(),
            "truncated segments with unsized data are not size-divided", "size arithmetic on unsized types is unguarded")
    hid = prog.func("tdms_segment.TdmsSegment._have_interleaved_data")
    R.check("size is None" in unparse(hid.node) and any(isinstance(n, ast.Raise) for n in walk_body(hid.node)),
            "tdms_segment.TdmsSegment._have_interleaved_data::unsized types rejected", hid.where(),
            "interleaved segments with unsized types are rejected (single string channel read as contiguous)",
            "unsized types can reach the interleaved decoder")


@rule("TD2", "every TDMS type the writer can choose for channel data has a size, an enum value and a serialisation", floor=10)
def td2(ctx, R):
    prog = ctx.prog
    wmod = prog.module("writer")
    cands = {}
    for r in prog.tds_types():
        if r["set_np"] and r["nptype"]:
            cands[r["cls"].name] = r["cls"]
    tv = prog.func("writer._to_tdms_value")
    for n in walk_body(tv.node):
        if isinstance(n, ast.Return) and isinstance(n.value, ast.Call) and isinstance(n.value.func, ast.Name):
            c = prog.resolve_class(wmod, n.value.func)
            if c is not None:
                cands[c.name] = c
    iv = prog.func("writer.to_int_property_value")
    for n in walk_body(iv.node):
        if isinstance(n, ast.Return) and isinstance(n.value, ast.Call) and isinstance(n.value.func, ast.Name):
            c = prog.resolve_class(wmod, n.value.func)
            if c is not None:
                cands[c.name] = c
    cands["TdmsTimestamp"] = prog.cls("timestamp.TdmsTimestamp")
    for name, c in sorted(cands.items()):
        where = "%s:%d" % (c.module.relpath, c.node.lineno)
        size = prog.class_const(c, "size")
        enum = None
        for r in prog.tds_types():
            if r["cls"] is c:
                enum = r["enum"]
        if enum is None:
            enum = prog.class_const(c, "enum_value")
        if name == "String":
            R.check(enum is not None, "%s::writer" % c.qual, where, "variable size handled by object_data_size's String branch", "String has no enum value")
            continue
        R.check(isinstance(size, int) and enum is not None, "%s::writer" % c.qual, where, "size %r, enum %r" % (size, enum),
                "the writer can pick %s for channel data but size=%r / enum_value=%r: object_data_size multiplies size by the value count" % (name, size, enum))
    # the Void fallback (empty array without TDMS type) must not reach size arithmetic
    dt = prog.func("writer.ChannelObject.data_type")
    falls_back_to_void = any(isinstance(n, ast.Return) and dotted(n.value) == "Void" for n in walk_body(dt.node))
    if falls_back_to_void:
        void = prog.cls("types.Void")
        vsize = prog.class_const(void, "size")
        seg = prog.cls("writer.TdmsSegment")
        preds = []
        for mname in ("raw_data_index", "_data_size", "_write_data"):
            f = seg.methods.get(mname)
            if f is None:
                raise AnchorMissing("writer.TdmsSegment.%s" % mname)
            for n in walk_body(f.node):
                if isinstance(n, ast.If):
                    preds.append((f, n.test))
                    break
        def excludes_void(f, test):
            txt = unparse(test)
            if "Void" in txt:
                return True
            for c in [x for x in ast.walk(test) if isinstance(x, ast.Call)]:
                r = prog.resolve_expr(f.module, c.func)
                if r and r[0] == "func" and "Void" in unparse(r[1].node):
                    return True
            return False
        for f, test in preds:
            good = isinstance(vsize, int) or excludes_void(f, test)
            R.check(good, "%s::Void excluded" % f.qual, f.where(test), "objects whose data type is Void (empty array without a TDMS type) are written without raw data",
                    "ChannelObject.data_type falls back to Void for an empty array without a TDMS type, Void.size is None, and `%s` lets such "
                    "an object into the size arithmetic (TypeError when writing or defragmenting an empty string/timestamp channel)" % unparse(test))


# ---------------------------------------------------------------------------

def _constructed_scalings(prog):
    from .rules_dtype import _scaling_classes
    return _scaling_classes(prog)


@rule("SD1", "every scaling class is routed to a call whose arity and operand order match its scale method", floor=14)
def sd1(ctx, R):
    prog = ctx.prog
    classes = _constructed_scalings(prog)
    cs = prog.func("scaling.MultiScaling._compute_scaled_data")
    for ci in sorted(classes, key=lambda c: c.qual):
        init = ci.methods.get("__init__")
        where = "%s:%d" % (ci.module.relpath, ci.node.lineno)
        attrs = set()
        if init is not None:
            for n in walk_body(init.node):
                if isinstance(n, ast.Assign):
                    for t in n.targets:
                        if isinstance(t, ast.Attribute) and dotted(t.value) == "self":
                            attrs.add(t.attr)
        if ci.name == "DaqMxScalerScaling":
            f = ci.methods.get("scale_daqmx")
            R.check(f is not None and len(f.params) == 2, ci.qual + "::scale_daqmx(scaler_data)", where, "DAQmx scaler selection",
                    "DaqMxScalerScaling lacks scale_daqmx(self, scaler_data)")
            continue
        f = ci.methods.get("scale")
        if f is None:
            R.violation(ci.qual + "::scale", where, "scaling class constructed by _get_channel_scaling has no scale method")
            continue
        nargs = len([p for p in f.params if p != "self"])
        if "input_source" in attrs:
            R.check(nargs == 1, ci.qual + "::scale(data)", where, "one input source, scale takes one array",
                    "class sets input_source but scale takes %d data arguments" % nargs)
        elif {"left_input_source", "right_input_source"} <= attrs:
            R.check(nargs == 2, ci.qual + "::scale(left, right)", where, "two input sources, scale takes two arrays",
                    "class sets left/right input sources but scale takes %d data arguments" % nargs)
        else:
            R.violation(ci.qual + "::input source", where, "class sets neither input_source nor left/right input sources: _compute_scaled_data "
                        "cannot route it")
    # the evaluator: operands come from the matching input sources, in order
    defs = {}
    for n in walk_body(cs.node):
        if isinstance(n, ast.Assign) and isinstance(n.targets[0], ast.Name) and isinstance(n.value, ast.Call) \
                and call_name(n.value) == "self._compute_scaled_data" and n.value.args:
            defs[n.targets[0].id] = unparse(n.value.args[0])
    calls = [c for c in walk_body(cs.node) if isinstance(c, ast.Call) and call_name(c) == "scaling.scale"]
    if len(calls) < 2:
        raise AnchorMissing("scaling.MultiScaling._compute_scaled_data: scaling.scale(...) calls")
    for c in calls:
        srcs = [defs.get(a.id) if isinstance(a, ast.Name) else unparse(a) for a in c.args]
        if len(c.args) == 1:
            R.check(srcs == ["scaling.input_source"], "scaling.MultiScaling._compute_scaled_data::unary", cs.where(c),
                    "scale(input computed from scaling.input_source)", "unary scale is fed from %s" % srcs)
        elif len(c.args) == 2:
            R.check(srcs == ["scaling.left_input_source", "scaling.right_input_source"], "scaling.MultiScaling._compute_scaled_data::binary", cs.where(c),
                    "scale(left from left_input_source, right from right_input_source)",
                    "binary scale operands come from %s (expected left, right in this order: Subtract is not commutative)" % srcs)
    # recursion base case and DAQmx case
    txt = unparse(cs.node)
    R.check("scale_index == RAW_DATA_INPUT_SOURCE" in txt and "return raw_channel_data.data" in txt, "scaling.MultiScaling._compute_scaled_data::base case", cs.where(),
            "input source 0xFFFFFFFF is the raw data", "the raw-data input source is not resolved to raw_channel_data.data")
    R.check("scaling.scale_daqmx(raw_channel_data.scaler_data)" in txt, "scaling.MultiScaling._compute_scaled_data::daqmx", cs.where(),
            "DAQmx scaler scalings read the raw scaler data", "DAQmx scaler scaling is not fed raw_channel_data.scaler_data")
    mod = prog.module("scaling")
    R.check(prog.try_fold(mod.assigns.get("RAW_DATA_INPUT_SOURCE"), mod) == 0xFFFFFFFF, "scaling.RAW_DATA_INPUT_SOURCE", "%s:1" % mod.relpath,
            "0xFFFFFFFF", "RAW_DATA_INPUT_SOURCE changed")
    # the output is the last scale, for data and for dtype alike
    for q in ("scaling.MultiScaling.scale", "scaling.MultiScaling.get_dtype"):
        f = prog.func(q)
        ok = any(isinstance(n, ast.Assign) and unparse(n.value).replace(" ", "") == "len(self.scalings)-1" for n in walk_body(f.node))
        R.check(ok, q + "::final scale", f.where(), "output is scale len(scalings) - 1", "the output scale is not the last scale")
    # elif chain covers every scale type name with its own class
    gcs = prog.func("scaling._get_channel_scaling")
    pairs = {}
    for n in ast.walk(gcs.node):
        if isinstance(n, ast.If) and isinstance(n.test, ast.Compare) and dotted(n.test.left) == "scale_type" \
                and isinstance(n.test.comparators[0], ast.Constant):
            name = n.test.comparators[0].value
            cls_ = None
            for s in n.body:
                for c in walk_shallow(s):
                    if isinstance(c, ast.Call) and isinstance(c.func, ast.Attribute) and c.func.attr == "from_properties":
                        cls_ = dotted(c.func.value)
            pairs[name] = cls_
    expected = {"Polynomial": "PolynomialScaling", "Linear": "LinearScaling", "RTD": "RtdScaling", "Strain": "StrainScaling",
                "Table": "TableScaling", "Thermistor": "ThermistorScaling", "Thermocouple": "ThermocoupleScaling", "Add": "AddScaling",
                "Subtract": "SubtractScaling", "AdvancedAPI": "NoOpScaling"}
    for k, v in expected.items():
        R.check(pairs.get(k) == v, "scaling._get_channel_scaling::%s" % k, gcs.where(), "%s -> %s" % (k, v),
                "scale type %r is built by %s (expected %s)" % (k, pairs.get(k), v))


@rule("NS1", "the number of scales is the declared count, else the highest NI_Scale index + 1", floor=2)
def ns1(ctx, R):
    prog = ctx.prog
    fi = prog.func("scaling._get_number_of_scalings")
    rets = [n for n in walk_body(fi.node) if isinstance(n, ast.Return) and n.value is not None]
    explicit = [r for r in rets if "num_scalings_property" in unparse(r.value) or "NI_Number_Of_Scales" in unparse(r.value)]
    R.check(bool(explicit) and "int(" in unparse(explicit[0].value), "scaling._get_number_of_scalings::explicit count", fi.where(),
            "NI_Number_Of_Scales is used when present", "NI_Number_Of_Scales is not honoured")
    fallback = [r for r in rets if r not in explicit and not (isinstance(r.value, ast.Constant) and r.value.value is None)]
    if not fallback:
        raise AnchorMissing("scaling._get_number_of_scalings: fallback return")
    def cone(expr, depth=0):
        """the expression plus the definitions of the locals it uses"""
        out = [expr]
        if depth < 3:
            for x in ast.walk(expr):
                if isinstance(x, ast.Name) and x.id not in fi.params:
                    for n in walk_body(fi.node):
                        if isinstance(n, ast.Assign) and any(isinstance(t, ast.Name) and t.id == x.id for t in n.targets):
                            out.extend(cone(n.value, depth + 1))
        return out
    for r in fallback:
        exprs = cone(r.value)
        nodes = [x for e in exprs for x in ast.walk(e)]
        txt = " ".join(unparse(e) for e in exprs).replace(" ", "")
        has_max = any(isinstance(x, ast.Call) and call_name(x) == "max" for x in nodes)
        plus1 = any(isinstance(x, ast.BinOp) and isinstance(x.op, ast.Add) and (
            (isinstance(x.right, ast.Constant) and x.right.value == 1) or (isinstance(x.left, ast.Constant) and x.left.value == 1)) for x in nodes)
        counts = any(isinstance(x, ast.Call) and call_name(x) in ("len", "sum") for x in nodes)
        key = "scaling._get_number_of_scalings::inferred count"
        if has_max and plus1 and "group(1)" in txt:
            R.ok(key, fi.where(r), "max(index) + 1 over NI_Scale[i]_Scale_Type properties")
        elif counts and not has_max:
            R.violation(key, fi.where(r), "the number of scales is inferred by counting NI_Scale[i]_Scale_Type properties (`%s`): scales without a "
                        "Scale_Type property (DAQmx raw scalers occupy the low indices) make the count smaller than highest index + 1 and the last "
                        "scale, which is the output, is dropped" % unparse(r.value))
        else:
            R.undecided(key, fi.where(r), "fallback expression `%s` not understood" % unparse(r.value))
    rx = prog.module("scaling").assigns.get("_scale_regex")
    pat = None
    if isinstance(rx, ast.Call) and rx.args:
        pat = prog.try_fold(rx.args[0], prog.module("scaling"))
    R.check(pat == r"NI_Scale\[(\d+)\]_Scale_Type", "scaling._scale_regex", fi.where(), "pattern %r" % pat, "scale index pattern changed to %r" % pat)


@rule("ST1", "NI_Scaling_Status='scaled' is decided before any scale object is built", floor=1)
def st1(ctx, R):
    prog = ctx.prog
    fi = prog.func("scaling._get_channel_scaling")
    cfg = ctx.cfg(fi)
    tests = cfg.where(lambda n: n.kind == "test" and "scaled" in unparse(n.ast) and "scaling_status" in unparse(n.ast))
    if not tests:
        raise AnchorMissing("scaling._get_channel_scaling: test of NI_Scaling_Status")
    t = tests[0]
    true_succ = [m for m, k in t.succ if k == "true"]
    ret_none = all(m.kind == "return" and (m.ast.value is None or (isinstance(m.ast.value, ast.Constant) and m.ast.value.value is None)) for m in true_succ)
    ctor_nodes = cfg.where(lambda n: any(isinstance(c.func, ast.Attribute) and c.func.attr == "from_properties" or call_name(c) in ("DaqMxScalerScaling", "MultiScaling")
                                         for c in node_calls(n)))
    dom = all(cfg.dominated_by(c, lambda n: n is t)[0] for c in ctor_nodes)
    R.check(ret_none and dom and ctor_nodes, "scaling._get_channel_scaling::status test first", fi.where(t.ast),
            "returns None for already-scaled data before constructing scalings (lookup continues with the next scope)",
            "the 'scaled' status test does not precede all scaling constructions or does not return None")
    d = [n for n in walk_body(fi.node) if isinstance(n, ast.Assign) and any(isinstance(x, ast.Name) and x.id == "scaling_status" for x in n.targets)]
    R.check(bool(d) and "NI_Scaling_Status" in unparse(d[0].value), "scaling._get_channel_scaling::status property", fi.where(),
            "reads NI_Scaling_Status", "status is not read from NI_Scaling_Status")


@rule("AO1", "scaling properties are looked up channel, then group, then file - each from the complete property map", floor=6)
def ao1(ctx, R):
    prog = ctx.prog
    gs = prog.func("scaling.get_scaling")
    R.check(gs.params[:3] == ["channel_properties", "group_properties", "file_properties"], "scaling.get_scaling::signature", gs.where(),
            "(channel, group, file)", "parameter order is %s" % gs.params)
    lists = [n for n in ast.walk(gs.node) if isinstance(n, ast.List) and len(n.elts) == 3]
    order = [dotted(e) for e in lists[0].elts] if lists else None
    R.check(order == gs.params[:3], "scaling.get_scaling::lookup order", gs.where(), "tries %s in order" % order,
            "scopes are tried in the order %s (expected channel, group, file)" % order)
    first = any(isinstance(n, ast.Call) and call_name(n) == "next" for n in ast.walk(gs.node)) and "is not None" in unparse(gs.node)
    R.check(first, "scaling.get_scaling::first non-None wins", gs.where(), "next(s for s in scalings if s is not None)", "the first scope with a scaling does not win")
    sc = prog.func("tdms.TdmsChannel._scaling")
    call = [c for c in walk_body(sc.node) if isinstance(c, ast.Call) and call_name(c) in ("scaling.get_scaling", "get_scaling")]
    if not call:
        raise AnchorMissing("tdms.TdmsChannel._scaling: call of scaling.get_scaling")
    args = [dotted(a) for a in call[0].args]
    R.check(args == ["self.properties", "self._group_properties", "self._file_properties"], "tdms.TdmsChannel._scaling::arguments", sc.where(call[0]),
            "get_scaling(channel, group, file properties)", "get_scaling is called with %s" % args)
    init = prog.func("tdms.TdmsChannel.__init__")
    stores = {}
    for n in walk_body(init.node):
        if isinstance(n, ast.Assign) and isinstance(n.targets[0], ast.Attribute) and isinstance(n.value, ast.Name):
            stores[n.targets[0].attr] = n.value.id
    want = {"properties": "properties", "_group_properties": "group_properties", "_file_properties": "file_properties"}
    R.check(all(stores.get(k) == v for k, v in want.items()), "tdms.TdmsChannel.__init__::roles stored", init.where(),
            "each property scope is stored under its own attribute", "constructor stores %s" % {k: stores.get(k) for k in want})
    rf = prog.func("tdms.TdmsFile._read_file")
    ctor = [c for c in walk_body(rf.node) if isinstance(c, ast.Call) and dotted(c.func) == "TdmsChannel"]
    if len(ctor) != 1:
        raise AnchorMissing("tdms.TdmsFile._read_file: one TdmsChannel(...) construction")
    c = ctor[0]
    params = init.params[1:]
    bound = {}
    for i, a in enumerate(c.args):
        if i < len(params):
            bound[params[i]] = a
    for k in c.keywords:
        bound[k.arg] = k.value
    # enclosing loop of the construction and maps stored into inside it
    loop = None
    for n in walk_body(rf.node):
        if isinstance(n, ast.For) and any(x is c for x in ast.walk(n)):
            loop = n
            break
    filled_in_loop = set()
    if loop is not None:
        for n in ast.walk(loop):
            if isinstance(n, ast.Assign):
                for t in n.targets:
                    if isinstance(t, ast.Subscript) and isinstance(t.value, ast.Name):
                        filled_in_loop.add(t.value.id)
            if isinstance(n, ast.Call) and isinstance(n.func, ast.Attribute) and n.func.attr in ("setdefault", "update") and isinstance(n.func.value, ast.Name):
                filled_in_loop.add(n.func.value.id)

    def source(expr, depth=0):
        """-> (map name, key text)"""
        if isinstance(expr, ast.Subscript) and isinstance(expr.value, ast.Name):
            return expr.value.id, unparse(expr.slice)
        if isinstance(expr, ast.Call) and isinstance(expr.func, ast.Attribute) and expr.func.attr == "get" and isinstance(expr.func.value, ast.Name) and expr.args:
            return expr.func.value.id, unparse(expr.args[0])
        if isinstance(expr, ast.Name) and depth < 3:
            ds = [n for n in walk_body(rf.node) if isinstance(n, ast.Assign) and any(isinstance(t, ast.Name) and t.id == expr.id for t in n.targets)]
            srcs = [source(d.value, depth + 1) for d in ds]
            srcs = [s_ for s_ in srcs if s_ is not None]
            return srcs[0] if srcs else None
        if isinstance(expr, ast.Attribute) and dotted(expr) == "self._properties":
            ds = [n for n in walk_body(rf.node) if isinstance(n, ast.Assign) and any(dotted(t) == "self._properties" for t in n.targets)]
            srcs = [source(d.value, depth + 1) for d in ds]
            srcs = [s_ for s_ in srcs if s_ is not None]
            return srcs[0] if srcs else None
        return None
    roles = {"properties": ("channel", lambda k: k in ("path_string",)),
             "group_properties": ("group", lambda k: "group_path()" in k),
             "file_properties": ("file", lambda k: k in ("'/'", '"/"'))}
    for pname, (role, key_ok) in roles.items():
        key = "tdms.TdmsFile._read_file::%s properties passed to TdmsChannel" % role
        a = bound.get(pname)
        if a is None:
            R.violation(key, rf.where(c), "TdmsChannel is constructed without %s" % pname)
            continue
        src = source(a)
        if src is None:
            R.undecided(key, rf.where(c), "source of `%s` not understood" % unparse(a))
            continue
        m, k = src
        if m in filled_in_loop:
            R.violation(key, rf.where(c), "the %s properties come from `%s`, a map that is still being filled inside the same loop over the file's "
                        "objects: a %s object that appears after the channel (later in the segment or in a later segment) is not seen, so its "
                        "scaling properties are ignored" % (role, m, role))
        elif not key_ok(k):
            R.violation(key, rf.where(c), "the %s properties are looked up with key `%s`" % (role, k))
        else:
            R.ok(key, rf.where(c), "%s[%s], a map completed before the loop" % (m, k))
