"""TD1/TD2 type-dispatch exhaustiveness (C01, C10, C11), SD1 scale dispatch and arity,
NS1 number-of-scales inference, ST1 scaling-status test, AO1 lookup-order role flow (C13)."""
import ast

from .registry import rule
from .core import call_name, dotted, walk_shallow, walk_body, unparse, AnchorMissing
from .cfg import node_calls


def _is_stub(fi):
    """method whose body only raises NotImplementedError (the TdmsType 'unsupported' stubs)"""
    body = [s for s in fi.node.body if not (isinstance(s, ast.Expr) and isinstance(s.value, ast.Constant))]
    return len(body) == 1 and isinstance(body[0], ast.Raise)


def _member(prog, ci, name):
    found = prog.lookup(ci, name)
    if found is None or found[0] != "method":
        return None
    if _is_stub(found[2]):
        return None
    return found[2]


def admitted_channel_types(prog):
    """Classes the metadata parser admits as channel data types: a numeric size, or String."""
    from .sym import Sym, eval_cond
    from .sem import find, W
    fi = prog.func("tdms_segment.TdmsSegmentObject.read_raw_data_index")
    sy = Sym(prog, fi, fi.cls, inline=False)
    guard = False

    def scenario(size_none, is_string):
        def orc(c):
            if isinstance(c, tuple) and len(c) == 4 and c[0] == "cmp" and c[1] == "is" and c[3] == ("const", None) and isinstance(c[2], tuple) \
                    and c[2][0] == "attr" and c[2][2] == "size":
                return size_none
            if isinstance(c, tuple) and len(c) == 4 and c[0] == "cmp" and c[1] in ("is", "==") and ("class", "types.String") in (c[2], c[3]):
                return is_string
            return None
        return orc
    for n in walk_body(fi.node):
        if isinstance(n, ast.Raise):
            _env, guards = sy.env_at(n)
            if not any(find(g, ("attr", W(), "size")) for g in guards):
                continue

            def runs(orc):
                vals = [eval_cond(g, orc) for g in guards]
                return not any(v is False for v in vals) and any(v is True for v in vals)
            if runs(scenario(True, False)) and not runs(scenario(True, True)) and not runs(scenario(False, False)):
                guard = True
    if not guard:
        raise AnchorMissing("tdms_segment.TdmsSegmentObject.read_raw_data_index: rejection of unsized non-string types")
    out = []
    for r in prog.tds_types():
        c = r["cls"]
        size = prog.class_const(c, "size")
        if isinstance(size, int) or c.name == "String":
            out.append((c, size, r["nptype"]))
    return out


@rule("TD1", "every admitted channel data type has what each decoder branch it can reach needs", floor=40)
def td1(ctx, R):
    prog = ctx.prog
    adm = admitted_channel_types(prog)
    if len(adm) < 17:
        raise AnchorMissing("admitted channel types (found %d, the format has 17 readable types)" % len(adm))
    rv = prog.func("tdms_segment.TdmsSegmentObject.read_values")
    il = prog.func("tdms_segment.InterleavedDataReader._read_interleaved_chunks")
    il_uses_from_bytes = any(isinstance(c, ast.Call) and isinstance(c.func, ast.Attribute) and c.func.attr == "from_bytes" for c in walk_body(il.node))
    if not il_uses_from_bytes:
        raise AnchorMissing("tdms_segment.InterleavedDataReader._read_interleaved_chunks: from_bytes dispatch")
    # which branch of read_values does each class take?  (read from the if-chain)
    branches = []
    for n in rv.node.body:
        if isinstance(n, ast.If):
            cur = n
            while True:
                branches.append((unparse(cur.test), cur.body))
                if len(cur.orelse) == 1 and isinstance(cur.orelse[0], ast.If):
                    cur = cur.orelse[0]
                else:
                    branches.append(("else", cur.orelse))
                    break
    if len(branches) < 3:
        raise AnchorMissing("tdms_segment.TdmsSegmentObject.read_values: three-way dispatch")

    def needed_member(body):
        for s in body:
            for c in walk_shallow(s):
                if isinstance(c, ast.Call) and isinstance(c.func, ast.Attribute) and dotted(c.func.value) == "self.data_type":
                    return c.func.attr
        return None
    for (c, size, nptype) in adm:
        where = "%s:%d" % (c.module.relpath, c.node.lineno)
        # contiguous
        taken = None
        for test, body in branches:
            if "nptype is not None" in test:
                if nptype is not None:
                    taken = (test, body)
                    break
            elif "size is not None" in test:
                if size is not None:
                    taken = (test, body)
                    break
            elif test == "else":
                taken = (test, body)
                break
            else:
                taken = None
        key = "%s@contiguous" % c.qual
        if taken is None:
            R.undecided(key, where, "dispatch test not understood")
        else:
            need = needed_member(taken[1])
            if need is None:
                R.ok(key, where, "branch `%s`: decoded by fromfile with the type's dtype" % taken[0])
            else:
                m = _member(prog, c, need)
                R.check(m is not None, key, where, "branch `%s` needs %s: resolves to %s" % (taken[0], need, m.qual if m else None),
                        "branch `%s` of TdmsSegmentObject.read_values calls %s.%s, which is missing or only the TdmsType 'unsupported' stub: "
                        "reading this type from a contiguous segment fails" % (taken[0], c.name, need))
        # interleaved: every sized type is decoded with from_bytes
        if size is not None:
            m = _member(prog, c, "from_bytes")
            R.check(m is not None, "%s@interleaved" % c.qual, where, "from_bytes resolves to %s" % (m.qual if m else None),
                    "%s has a size, so the parser admits it in interleaved segments, but it has no from_bytes: InterleavedDataReader calls "
                    "data_type.from_bytes for every channel" % c.name)
        # properties
        m = _member(prog, c, "read")
        if m is not None:
            R.ok("%s@property" % c.qual, where, "read resolves to %s" % m.qual)
        else:
            R.note("%s cannot be read as a property value (fails loudly with NotImplementedError by design)" % c.name)
    # size arithmetic guards for the unsized String type
    fcl = prog.func("tdms_segment.TdmsSegment._compute_final_chunk_lengths")
    R.check("size is None" in unparse(fcl.node), "tdms_segment.TdmsSegment._compute_final_chunk_lengths::unsized guard", fcl.where(),
            "truncated segments with unsized data are not size-divided", "size arithmetic on unsized types is unguarded")
    hid = prog.func("tdms_segment.TdmsSegment._have_interleaved_data")
    R.check("size is None" in unparse(hid.node) and any(isinstance(n, ast.Raise) for n in walk_body(hid.node)),
            "tdms_segment.TdmsSegment._have_interleaved_data::unsized types rejected", hid.where(),
            "interleaved segments with unsized types are rejected (single string channel read as contiguous)",
            "unsized types can reach the interleaved decoder")


@rule("TD2", "every TDMS type the writer can choose for channel data has a size, an enum value and a serialisation", floor=10)
def td2(ctx, R):
    prog = ctx.prog
    wmod = prog.module("writer")
    cands = {}
    for r in prog.tds_types():
        if r["set_np"] and r["nptype"]:
            cands[r["cls"].name] = r["cls"]
    tv = prog.func("writer._to_tdms_value")
    for n in walk_body(tv.node):
        if isinstance(n, ast.Return) and isinstance(n.value, ast.Call) and isinstance(n.value.func, ast.Name):
            c = prog.resolve_class(wmod, n.value.func)
            if c is not None:
                cands[c.name] = c
    iv = prog.func("writer.to_int_property_value")
    for n in walk_body(iv.node):
        if isinstance(n, ast.Return) and isinstance(n.value, ast.Call) and isinstance(n.value.func, ast.Name):
            c = prog.resolve_class(wmod, n.value.func)
            if c is not None:
                cands[c.name] = c
    cands["TdmsTimestamp"] = prog.cls("timestamp.TdmsTimestamp")
    for name, c in sorted(cands.items()):
        where = "%s:%d" % (c.module.relpath, c.node.lineno)
        size = prog.class_const(c, "size")
        enum = None
        for r in prog.tds_types():
            if r["cls"] is c:
                enum = r["enum"]
        if enum is None:
            enum = prog.class_const(c, "enum_value")
        if name == "String":
            R.check(enum is not None, "%s::writer" % c.qual, where, "variable size handled by object_data_size's String branch", "String has no enum value")
            continue
        R.check(isinstance(size, int) and enum is not None, "%s::writer" % c.qual, where, "size %r, enum %r" % (size, enum),
                "the writer can pick %s for channel data but size=%r / enum_value=%r: object_data_size multiplies size by the value count" % (name, size, enum))
    # the Void fallback (empty array without TDMS type) must not reach size arithmetic
    dt = prog.func("writer.ChannelObject.data_type")
    falls_back_to_void = any(isinstance(n, ast.Return) and dotted(n.value) == "Void" for n in walk_body(dt.node))
    if falls_back_to_void:
        void = prog.cls("types.Void")
        vsize = prog.class_const(void, "size")
        seg = prog.cls("writer.TdmsSegment")
        from .sym import Sym, contains
        from .region import region as _region
        VOID = ("class", void.qual)

        def fn_mentions_void(q):
            f = prog.functions.get(q) if isinstance(q, str) else None
            return f is not None and any(isinstance(x, ast.Name) and x.id == "Void" for g in _region(ctx, f, depth=1) for x in ast.walk(g.node))

        def is_void_test(g):
            # a test against Void, written out or behind a predicate (function or method) that makes it
            def hit(y):
                if y == VOID:
                    return True
                if isinstance(y, tuple) and len(y) >= 2 and y[0] == "call" and fn_mentions_void(y[1]):
                    return True
                if isinstance(y, tuple) and len(y) >= 3 and y[0] == "method" and isinstance(y[1], str):
                    return any(fn_mentions_void(m.qual) for m in prog.functions.values() if m.name == y[1] and m.module is wmod)
                return False
            return contains(g, hit)
        for mname in ("raw_data_index", "_data_size", "_write_data"):
            f = seg.methods.get(mname)
            if f is None:
                raise AnchorMissing("writer.TdmsSegment.%s" % mname)
            # the places where an object's values enter the arithmetic: reads of <obj>.data and calls of the module's size / write helpers
            sites = [n for n in walk_body(f.node) if (isinstance(n, ast.Attribute) and n.attr == "data" and isinstance(n.ctx, ast.Load)) or
                     (isinstance(n, ast.Call) and isinstance(n.func, ast.Name) and n.func.id in ("write_data", "object_data_size"))]
            key = "%s::Void excluded" % f.qual
            if isinstance(vsize, int):
                R.ok(key, f.where(), "Void has a size")
                continue
            if not sites:
                R.unrecognised(key, f.where(), "no read of <object>.data and no call of write_data / object_data_size: where the object's values are used was not recognised")
                continue
            sy = Sym(prog, f, seg, inline=False)
            open_site = None

            def filtered_in_comprehension(n):
                # the site is the element of a comprehension whose filter makes the test
                from .flow import resolve_call
                def source_filters(it):
                    # the objects are drawn from a helper that makes the test:  for obj in self._objects_with_raw_data()
                    return any(fn_mentions_void(h.qual) for c in ast.walk(it) if isinstance(c, ast.Call) for h, _k in resolve_call(prog, f, seg, c))
                for comp in ast.walk(f.node):
                    if isinstance(comp, ast.For) and any(x is n for st_ in comp.body for x in ast.walk(st_)) and source_filters(comp.iter):
                        return True
                    if isinstance(comp, (ast.GeneratorExp, ast.ListComp, ast.SetComp, ast.DictComp)) and any(x is n for x in ast.walk(comp)):
                        for g in comp.generators:
                            if source_filters(g.iter):
                                return True
                            for t in g.ifs:
                                if any(isinstance(x, ast.Name) and x.id == "Void" for x in ast.walk(t)):
                                    return True
                                for c in [x for x in ast.walk(t) if isinstance(x, ast.Call)]:
                                    if any(fn_mentions_void(h.qual) for h, _k in resolve_call(prog, f, seg, c)):
                                        return True
                return False
            for n in sites:
                _env, guards = sy.env_at(n)
                if not any(is_void_test(g) for g in guards) and not filtered_in_comprehension(n):
                    open_site = n
                    break
            R.check(open_site is None, key, f.where(open_site) if open_site is not None else f.where(),
                    "objects whose data type is Void (empty array without a TDMS type) are written without raw data",
                    "ChannelObject.data_type falls back to Void for an empty array without a TDMS type, Void.size is None, and `%s` is reached "
                    "without a test that excludes Void: such an object gets into the size arithmetic (TypeError when writing or defragmenting an "
                    "empty string/timestamp channel)" % (unparse(open_site)[:60] if open_site is not None else ""))


# ---------------------------------------------------------------------------

def find_scaling_builder(prog):
    """the function that builds a channel's scaling from a properties mapping: scaling._get_channel_scaling, or - renamed / made a
    method - the one function of nptdms.scaling that constructs MultiScaling"""
    try:
        return prog.func("scaling._get_channel_scaling")
    except AnchorMissing:
        pass
    cands = [f for f in prog.functions.values() if f.module.name == "scaling" and any(
        isinstance(c, ast.Call) and (call_name(c) or "").split(".")[-1] == "MultiScaling" for c in walk_body(f.node))]
    if len(cands) == 1:
        return cands[0]
    raise AnchorMissing("function scaling._get_channel_scaling (or the one function that constructs MultiScaling)")


def find_scale_counter(prog):
    """the function that determines the number of scales: scaling._get_number_of_scalings, or the one function of nptdms.scaling that
    reads the NI_Number_Of_Scales property"""
    try:
        return prog.func("scaling._get_number_of_scalings")
    except AnchorMissing:
        pass
    cands = [f for f in prog.functions.values() if f.module.name == "scaling" and any(
        isinstance(c, ast.Constant) and c.value == "NI_Number_Of_Scales" for c in ast.walk(f.node))]
    if len(cands) == 1:
        return cands[0]
    raise AnchorMissing("function scaling._get_number_of_scalings (or the one function that reads NI_Number_Of_Scales)")


def _constructed_scalings(prog):
    from .rules_dtype import _scaling_classes
    return _scaling_classes(prog)


def find_scale_evaluator(ctx):
    """the evaluator of the scale graph, found by what it is: the function of nptdms.scaling that calls itself and calls .scale(...)"""
    from .region import call_targets
    prog = ctx.prog
    evaluators = [f for f in sorted(prog.functions.values(), key=lambda f: f.qual) if f.module.name == "scaling" and
                  any(isinstance(c, ast.Call) and isinstance(c.func, ast.Attribute) and c.func.attr == "scale" for c in walk_body(f.node)) and
                  any(isinstance(c, ast.Call) and f.qual in call_targets(ctx, f, c) for c in walk_body(f.node))]
    if not evaluators:
        # not recursive (any more): the function that calls both .scale(...) and .scale_daqmx(...) of the scalings
        evaluators = [f for f in sorted(prog.functions.values(), key=lambda f: f.qual) if f.module.name == "scaling" and all(
            any(isinstance(c, ast.Call) and isinstance(c.func, ast.Attribute) and c.func.attr == m for c in walk_body(f.node)) for m in ("scale", "scale_daqmx"))]
    if not evaluators:
        raise AnchorMissing("scaling: evaluator that calls .scale(...) of the scalings")
    return evaluators[0]


@rule("SD1", "every scaling class is routed to a call whose arity and operand order match its scale method", floor=14)
def sd1(ctx, R):
    from .sem import instance_attrs, method_of, leaves, flat_conds, match, W, module_region, keyed_constructions
    from .sym import Sym, show
    prog = ctx.prog
    classes = _constructed_scalings(prog)
    cs = find_scale_evaluator(ctx)
    for ci in sorted(classes, key=lambda c: c.qual):
        where = "%s:%d" % (ci.module.relpath, ci.node.lineno)
        attrs = set(instance_attrs(prog, ci))
        if ci.name == "DaqMxScalerScaling":
            f = method_of(prog, ci, "scale_daqmx")
            R.check(f is not None and len(f.params) == 2, ci.qual + "::scale_daqmx(scaler_data)", where, "DAQmx scaler selection",
                    "DaqMxScalerScaling lacks scale_daqmx(self, scaler_data)")
            continue
        f = method_of(prog, ci, "scale")
        if f is None:
            R.violation(ci.qual + "::scale", where, "scaling class constructed by _get_channel_scaling has no scale method")
            continue
        nargs = len([p for p in f.params if p != "self"])
        if "input_source" in attrs:
            R.check(nargs == 1, ci.qual + "::scale(data)", where, "one input source, scale takes one array",
                    "class sets input_source but scale takes %d data arguments" % nargs)
        elif {"left_input_source", "right_input_source"} <= attrs:
            R.check(nargs == 2, ci.qual + "::scale(left, right)", where, "two input sources, scale takes two arrays",
                    "class sets left/right input sources but scale takes %d data arguments" % nargs)
        else:
            R.violation(ci.qual + "::input source", where, "class sets neither input_source nor left/right input sources: _compute_scaled_data "
                        "cannot route it")
    # the evaluator in normal form: a conditional value whose leaves are the raw data, the DAQmx scaler selection, and
    # scale calls fed by recursive evaluations of the matching input sources, in order
    v = Sym(prog, cs, cs.cls).function_value()
    if v[0] == "opaque":
        raise AnchorMissing("%s: body not in normal form" % cs.qual)
    lv = leaves(v)
    _r = prog.resolve_name(prog.module("scaling"), "RAW_DATA_INPUT_SOURCE")       # defined here or imported from another module
    RAW = prog.try_fold(_r[1], _r[2]) if _r and _r[0] == "const" else None
    # roles: the scale index is the parameter compared with the raw-data marker; the raw data is what `.data` of is returned then;
    # the scaling is the receiver of the scale calls
    idx = raw = S = None
    for conds, leaf in lv:
        b = match(("method", W("m", lambda m: m in ("scale", "scale_daqmx")), W("recv"), W(), W()), leaf)
        if b is not None and b["recv"][0] == "sub" and b["recv"][2][0] == "param":
            S, idx = b["recv"], b["recv"][2]
    if S is None:
        raise AnchorMissing("%s: scale call on <scalings>[<parameter>]" % cs.qual)
    for conds, leaf in lv:
        if leaf[0] == "attr" and leaf[2] == "data" and any(c in (("cmp", "==", idx, ("const", 0xFFFFFFFF)), ("cmp", "==", ("const", 0xFFFFFFFF), idx))
                                                           for c in flat_conds(conds)):
            raw = leaf[1]
    if raw is None:
        # no base case here: take the raw data to be what the DAQmx scalers read their scaler data from
        for conds, leaf in lv:
            b = match(("method", "scale_daqmx", S, (("attr", W("raw"), "scaler_data"),), W()), leaf)
            if b is not None:
                raw = b["raw"]

    def is_rec(a, src):
        """the recursive evaluation of the scaling's input source `src` (with or without the raw data passed along)"""
        b = match(("call", cs.qual, W("args"), W()), a)
        # ... and possibly bookkeeping handed down the recursion (a per-call memo, a visited set)
        return b is not None and b["args"] and b["args"][0] == ("attr", S, src) and (len(b["args"]) < 2 or b["args"][1] == raw)
    # a "visited" set threaded through the recursion as ONE shared object: a scale is added on entry, an index that is already in the set
    # raises, and nothing ever takes it out again.  That rejects every scale that is consumed by two other scales (or twice by one:
    # Add(scale0, scale0)) - a valid dataflow graph - as circular.  A per-path copy (visited | {i}) or a removal on the way back is fine.
    for p_ in [q_ for q_ in cs.params if q_ not in ("self",)]:
        adds = [c for c in walk_body(cs.node) if isinstance(c, ast.Call) and isinstance(c.func, ast.Attribute) and c.func.attr == "add"
                and isinstance(c.func.value, ast.Name) and c.func.value.id == p_]
        removes = [c for c in walk_body(cs.node) if isinstance(c, ast.Call) and isinstance(c.func, ast.Attribute) and c.func.attr in ("remove", "discard", "pop", "clear")
                   and isinstance(c.func.value, ast.Name) and c.func.value.id == p_]
        member_raise = [r_ for r_ in walk_body(cs.node) if isinstance(r_, ast.If) and any(isinstance(x, ast.Raise) for x in r_.body)
                        and isinstance(r_.test, ast.Compare) and len(r_.test.ops) == 1 and isinstance(r_.test.ops[0], ast.In)
                        and isinstance(r_.test.comparators[0], ast.Name) and r_.test.comparators[0].id == p_]
        rec_same = [c for c in walk_body(cs.node) if isinstance(c, ast.Call) and isinstance(c.func, ast.Attribute) and c.func.attr == cs.name
                    and any(isinstance(a, ast.Name) and a.id == p_ for a in list(c.args) + [k.value for k in c.keywords])]
        rebound = any(isinstance(n_, ast.Assign) and any(isinstance(t_, ast.Name) and t_.id == p_ for t_ in n_.targets) for n_ in walk_body(cs.node))
        if adds and member_raise and len(rec_same) >= 2 and not removes and not rebound:
            R.violation("scaling.MultiScaling._compute_scaled_data::shared visited set", cs.where(member_raise[0]), "`%s` is one set shared by the whole evaluation: every scale is added "
                        "on entry, an index found in it raises, and nothing removes an index when its evaluation returns - so a scale that feeds two other scales "
                        "(a diamond in the graph, or Add(scale, scale)) is rejected as circular instead of being evaluated" % p_)
    seen = {"base": False, "daqmx": False, "unary": False, "binary": False}
    for conds, leaf in lv:
        fc = flat_conds(conds)
        if leaf == ("attr", raw, "data"):
            ok = any(c in (("cmp", "==", idx, ("const", 0xFFFFFFFF)), ("cmp", "==", ("const", 0xFFFFFFFF), idx)) for c in fc)
            seen["base"] = True
            R.check(ok and RAW == 0xFFFFFFFF, "scaling.MultiScaling._compute_scaled_data::base case", cs.where(), "input source 0xFFFFFFFF is the raw data",
                    "the raw-data input source is not resolved to raw_channel_data.data under `index == 0xFFFFFFFF` (selected by %s)" % ", ".join(show(c) for c in fc)[:160])
            continue
        b = match(("method", "scale_daqmx", W("recv"), W("args"), W()), leaf)
        if b is not None:
            seen["daqmx"] = True
            R.check(b["recv"] == S and b["args"] == (("attr", raw, "scaler_data"),), "scaling.MultiScaling._compute_scaled_data::daqmx", cs.where(),
                    "DAQmx scaler scalings read the raw scaler data", "DAQmx scaler scaling is fed `%s`, not the raw scaler data" % show(leaf)[:120])
            continue
        b = match(("method", "scale", W("recv"), W("args"), W()), leaf)
        if b is not None and b["recv"] == S:
            args = b["args"]
            if len(args) == 1:
                seen["unary"] = True
                R.check(is_rec(args[0], "input_source"), "scaling.MultiScaling._compute_scaled_data::unary", cs.where(),
                        "scale(input computed from scaling.input_source)", "unary scale is fed from `%s`" % show(args[0])[:140])
            elif len(args) == 2:
                seen["binary"] = True
                R.check(is_rec(args[0], "left_input_source") and is_rec(args[1], "right_input_source"), "scaling.MultiScaling._compute_scaled_data::binary", cs.where(),
                        "scale(left from left_input_source, right from right_input_source)",
                        "binary scale operands are `%s` (expected left, right in this order: Subtract is not commutative)" % ", ".join(show(a) for a in args)[:200])
            else:
                R.violation("scaling.MultiScaling._compute_scaled_data::arity", cs.where(), "scale called with %d operands" % len(args))
            continue
        b = match(("call", cs.qual, W("args"), W()), leaf)
        if b is not None and b["args"] and isinstance(b["args"][0], tuple) and b["args"][0][:2] == ("attr", S) and b["args"][0][2] in ("input_source", "left_input_source", "right_input_source"):
            R.violation("scaling.MultiScaling._compute_scaled_data::scale skipped", cs.where(), "under %s the evaluator returns the INPUT of the scale (`%s`) as the scale's output: "
                        "the scale is not applied on that path, so values and dtype are those of its input (e.g. the raw integer type for an empty window of a "
                        "channel that is declared float64)" % ("; ".join(show(c) for c in fc)[:120] or "some condition", show(leaf)[:80]))
            continue
        R.undecided("scaling.MultiScaling._compute_scaled_data::result `%s`" % show(leaf)[:50], cs.where(), "result form not understood")
    for k, hit in seen.items():
        if not hit:
            R.violation("scaling.MultiScaling._compute_scaled_data::%s" % {"base": "base case", "daqmx": "daqmx"}.get(k, k), cs.where(),
                        "the evaluator has no %s result any more" % {"base": "raw data (input source 0xFFFFFFFF)", "daqmx": "DAQmx scaler",
                                                                     "unary": "one-input scale", "binary": "two-input scale"}[k])
    mod = prog.module("scaling")
    R.check(RAW == 0xFFFFFFFF, "scaling.RAW_DATA_INPUT_SOURCE", "%s:1" % mod.relpath, "0xFFFFFFFF", "RAW_DATA_INPUT_SOURCE changed")
    # the output is the last scale, for data and for dtype alike
    sy0 = Sym(prog, cs, cs.cls)
    last = sy0._binop("-", ("len", ("self", "scalings")), ("const", 1))
    for q, inner in (("scaling.MultiScaling.scale", cs.qual),
                     ("scaling.MultiScaling.get_dtype", "scaling.MultiScaling._compute_scale_dtype")):
        f = prog.func(q)
        val = Sym(prog, f, f.cls, stack=(inner,)).function_value()
        b = match(("call", inner, W("args"), W()), val)
        if b is None:
            # the evaluator is a method of a helper object built here:  Evaluation(self.scalings, raw).output_of(last)
            b = match(("method", inner.split(".")[-1], W(), W("args"), W()), val)
        ok = b is not None and b["args"] and b["args"][0] == last
        R.check(ok, q + "::final scale", f.where(), "output is scale len(scalings) - 1",
                "the output scale is `%s`, not the last scale" % (show(b["args"][0])[:80] if b and b["args"] else show(val)[:80]))
    # every scale type name is built by its own class
    gcs = find_scaling_builder(prog)
    pairs = {k: v[0].name for k, v in keyed_constructions(prog, module_region(prog, gcs)).items()}
    expected = {"Polynomial": "PolynomialScaling", "Linear": "LinearScaling", "RTD": "RtdScaling", "Strain": "StrainScaling",
                "Table": "TableScaling", "Thermistor": "ThermistorScaling", "Thermocouple": "ThermocoupleScaling", "Add": "AddScaling",
                "Subtract": "SubtractScaling", "AdvancedAPI": "NoOpScaling"}
    if not pairs:
        R.unrecognised("scaling._get_channel_scaling::dispatch", gcs.where(), "how scale type names select the scaling classes was not recognised")
    else:
        for k, v in expected.items():
            if pairs.get(k) is None:
                # the other names were recognised but this one's constructor was not (built behind a helper the table lookup does not see)
                R.unrecognised("scaling._get_channel_scaling::%s" % k, gcs.where(), "what builds scale type %r was not recognised" % k)
                continue
            R.check(pairs.get(k) == v, "scaling._get_channel_scaling::%s" % k, gcs.where(), "%s -> %s" % (k, v),
                    "scale type %r is built by %s (expected %s)" % (k, pairs.get(k), v))


@rule("NS1", "the number of scales is the declared count, else the highest NI_Scale index + 1", floor=2)
def ns1(ctx, R):
    from .sem import leaves, flat_conds, match, W, find
    from .sym import Sym, show
    prog = ctx.prog
    fi = find_scale_counter(prog)
    P = ("param", fi.params[0])
    v = Sym(prog, fi, None).function_value()
    if v[0] == "opaque":
        R.undecided("scaling._get_number_of_scalings::inferred count", fi.where(), "function body not in normal form")
        return
    NAME = ("const", "NI_Number_Of_Scales")
    explicit_ok = False
    fallback = []
    def is_lookup(x):
        # properties[NAME] / properties.get(NAME[, default])
        return x == ("sub", P, NAME) or (match(("method", "get", P, W(), W()), x) is not None and x[3] and x[3][0] == NAME)
    explicit_seen = False
    if v[0] == "try" and v[2] == "KeyError":
        # try: return int(properties[NAME])  except KeyError: <inferred>
        b = match(("call", "int", (W("x"),), ()), v[1])
        if b is not None and is_lookup(b["x"]):
            explicit_ok = explicit_seen = True
            v = v[3]
    for conds, leaf in leaves(v):
        fc = flat_conds(conds)
        b = match(("call", "int", (W("x"),), ()), leaf)
        if ("cmp", "in", NAME, P) in fc or (b is not None and is_lookup(b["x"])):
            explicit_seen = True
            # taken when the property is there: the membership test, or the looked-up value compared with the default / None
            present = ("cmp", "in", NAME, P) in fc or any(isinstance(c, tuple) and len(c) == 4 and c[0] == "cmp" and c[1] in ("is not", "!=") and is_lookup(c[2])
                                                          for c in fc)
            explicit_ok = explicit_ok or (b is not None and is_lookup(b["x"]) and present)
        else:
            fallback.append(leaf)
    if explicit_ok or not explicit_seen:
        R.check(explicit_ok, "scaling._get_number_of_scalings::explicit count", fi.where(),
                "NI_Number_Of_Scales is used when present", "NI_Number_Of_Scales is not honoured")
    else:
        R.unrecognised("scaling._get_number_of_scalings::explicit count", fi.where(), "NI_Number_Of_Scales is read, but how its presence is tested was not recognised")
    if not fallback:
        raise AnchorMissing("scaling._get_number_of_scalings: fallback return")
    key = "scaling._get_number_of_scalings::inferred count"
    for leaf in fallback:
        body = leaf[1] if leaf[0] == "try" else leaf
        if body == ("const", None):
            continue
        good = False
        if body[0] == "binop" and body[1] == "+" and ("const", 1) in body[2] and len(body[2]) == 2:
            other = [t for t in body[2] if t != ("const", 1)]
            b = match(("call", "max", (W("seq"),), W()), other[0]) if other else None
            if b is not None and b["seq"][0] == "comp":
                _t, elt, bv, it, conds = b["seq"]
                e = match(("call", "int", (("method", "group", W("m"), (("const", 1),), ()),), ()), elt)
                if e is not None and match(("method", "match", W(), (bv,), ()), e["m"]) is not None \
                        and (it == P or it == ("method", "keys", P, (), ())) and all(c == ("cmp", "is not", e["m"], ("const", None)) for c in conds) and conds:
                    good = True
                # the matches are produced first:  map(<regex>.match, keys)
                mp = match(("call", "map", (W("f"), W("keys")), ()), it)
                if e is not None and mp is not None and e["m"] == bv and (mp["keys"] == P or mp["keys"] == ("method", "keys", P, (), ())) \
                        and all(c == ("cmp", "is not", bv, ("const", None)) for c in conds) and conds:
                    fdef = prog.module("scaling").assigns.get(mp["f"][1]) if mp["f"][0] in ("global", "name") else None
                    if isinstance(fdef, ast.Attribute) and fdef.attr == "match":
                        good = True
        # max() over the captured digit strings themselves compares them as text ('9' > '10')
        text_max = False
        for x, _b in find(body, ("call", "max", W(), W())):
            seq = x[2][0] if x[2] else None
            if seq is not None and seq[0] == "comp" and match(("method", "group", W(), W(), W()), seq[1]) is not None:
                text_max = True
        if good:
            R.ok(key, fi.where(), "max(index) + 1 over NI_Scale[i]_Scale_Type properties")
        elif text_max:
            R.violation(key, fi.where(), "the highest scale index is taken with max() over the matched digit strings (`%s`): strings compare as text, so with ten "
                        "or more scales '9' beats '10' and the later scales, the output among them, are dropped" % show(body)[:140])
        elif find(body, ("len", W())) or find(body, ("sum", W(), W(), W(), W())) and not find(body, ("call", "max", W(), W())):
            R.violation(key, fi.where(), "the number of scales is inferred by counting NI_Scale[i]_Scale_Type properties (`%s`): scales without a "
                        "Scale_Type property (DAQmx raw scalers occupy the low indices) make the count smaller than highest index + 1 and the last "
                        "scale, which is the output, is dropped" % show(body)[:160])
        elif find(body, ("call", "max", W(), W())) and body[0] != "binop":
            R.violation(key, fi.where(), "the inferred number of scales is `%s`: the highest scale index itself, not highest index + 1, so the last scale, "
                        "which is the output, is dropped" % show(body)[:160])
        else:
            R.undecided(key, fi.where(), "fallback expression `%s` not understood" % show(body)[:160])
    # the compiled pattern of the scale type properties, wherever it is kept (module constant, class attribute)
    smod = prog.module("scaling")
    pats = []
    for nm, e in list(smod.assigns.items()) + [(k, v) for ci in prog.classes.values() if ci.module is smod for k, v in ci.attrs.items()]:
        if isinstance(e, ast.Call) and (call_name(e) or "").split(".")[-1] == "compile" and e.args:
            pv = prog.try_fold(e.args[0], smod)
            if isinstance(pv, str) and "NI_Scale" in pv:
                pats.append((nm, pv))
    if not pats:
        R.unrecognised("scaling._scale_regex", fi.where(), "no compiled pattern mentioning NI_Scale kept as a constant of nptdms.scaling")
    for nm, pat in pats:
        R.check(pat == r"NI_Scale\[(\d+)\]_Scale_Type", "scaling._scale_regex", fi.where(), "pattern %r" % pat, "scale index pattern changed to %r" % pat)


def _constructs_scaling(prog, f, c):
    """does this call build a scaling object (Cls(...), Cls.from_properties(...)) directly"""
    e = c.func
    if isinstance(e, ast.Attribute) and e.attr == "from_properties":
        e = e.value
    ci = prog.resolve_class(f.module, e) if isinstance(e, (ast.Name, ast.Attribute)) else None
    return ci is not None and ci.module.name == "scaling"


@rule("ST1", "NI_Scaling_Status='scaled' is decided before any scale object is built", floor=1)
def st1(ctx, R):
    from .sem import module_region, find, W
    from .sym import Sym, show
    prog = ctx.prog
    fi = find_scaling_builder(prog)
    cfg = ctx.cfg(fi)
    sy = Sym(prog, fi, None)
    P = ("param", fi.params[0])
    STATUS = ("const", "NI_Scaling_Status")
    tests = []
    for t in cfg.where(lambda n: n.kind == "test"):
        env, _g = sy.env_at(t.ast)
        c = sy.expr(t.ast, env)
        if isinstance(c, tuple) and c and c[0] == "cmp" and c[1] in ("==", "!=") and ("const", "scaled") in (c[2], c[3]):
            other = c[3] if c[2] == ("const", "scaled") else c[2]
            reads_status = other == ("sub", P, STATUS) or (other[0] == "method" and other[1] == "get" and other[2] == P and other[3] and other[3][0] == STATUS)
            tests.append((t, c, reads_status))
    if not tests:
        # the test may live in the caller that walks the scopes (channel, group, file): then every call of the builder must be guarded by a
        # status test on the SAME property map it is given
        from .sem import calls_to, call_arg
        from .sym import alpha
        decided = False
        for g in sorted(prog.functions.values(), key=lambda f: f.qual):
            if g.module is not fi.module or g is fi:
                continue
            sites = calls_to(prog, g, fi.qual, g.cls)
            if not sites:
                continue
            sg = Sym(prog, g, g.cls, inline=False)

            def status_maps(conds):
                out = []
                for c_ in conds:
                    for hit, _b in find(c_, ("cmp", W(), W(), W())):
                        if ("const", "scaled") not in (hit[2], hit[3]):
                            continue
                        other = hit[3] if hit[2] == ("const", "scaled") else hit[2]
                        if other[0] == "sub" and other[2] == STATUS:
                            out.append(other[1])
                        elif other[0] == "method" and other[1] == "get" and other[3] and other[3][0] == STATUS:
                            out.append(other[2])
                return out
            all_tested = []
            for t_ in walk_body(g.node):
                if isinstance(t_, ast.Compare):
                    e_, _gg = sg.env_at(t_)
                    all_tested += status_maps([sg.expr(t_, e_)])
            for cc in sites:
                e2, guards = sg.env_at(cc)
                M = call_arg(prog, cc, fi, fi.params[0], sg, e2)
                tested_here = status_maps(guards)
                key = "%s::status tested on the scope that is built" % g.qual
                if M is None:
                    continue
                if M in tested_here:
                    decided = True
                    R.ok(key, g.where(cc), "the builder is called for `%s` after its own NI_Scaling_Status was tested" % show(alpha(M))[:60])
                elif all_tested:
                    decided = True
                    R.violation(key, g.where(cc), "the scaling is built from `%s`, but the only NI_Scaling_Status tested is that of `%s`: a scope (group or file) marked "
                                "'scaled' still has its scale definitions applied, and a channel marked 'scaled' hides the scaling of its group or file" % (
                                    show(alpha(M))[:60], show(alpha(all_tested[0]))[:60]))
        if decided:
            return
        raise AnchorMissing("scaling._get_channel_scaling: test of NI_Scaling_Status")
    t, c, reads_status = tests[0]
    R.check(reads_status, "scaling._get_channel_scaling::status property", fi.where(t.ast),
            "reads NI_Scaling_Status", "the status compared with 'scaled' is `%s`, not the NI_Scaling_Status property" % show(c)[:120])
    branch = "true" if c[1] == "==" else "false"
    succ = [m for m, k in t.succ if k == branch]
    is_none_ret = lambda m: m.kind == "return" and (m.ast.value is None or (isinstance(m.ast.value, ast.Constant) and m.ast.value.value is None))
    ret_none = bool(succ) and all(is_none_ret(m) for m in succ)
    if not ret_none and succ:
        # something harmless (a log line) between the test and the return: every return reached from the branch returns None and the
        # branch does not fall out of the function any other way
        reach_ = set(cfg.reach(succ, follow_exc=False)) | set(succ)
        rets_ = [m for m in reach_ if m.kind == "return"]
        only_log = all(m.kind in ("return", "exit", "raise") or (m.kind == "stmt" and isinstance(m.ast, ast.Expr) and isinstance(m.ast.value, ast.Call)
                                                                  and (call_name(m.ast.value) or "").startswith(("log.", "logging.", "logger.")))
                       for m in reach_ if m is not cfg.exit and m is not cfg.raise_exit)
        ret_none = bool(rets_) and all(is_none_ret(m) for m in rets_) and only_log
    helpers = [f for f in module_region(prog, fi) if f is not fi and any(isinstance(x, ast.Call) and _constructs_scaling(prog, f, x) for x in walk_body(f.node))]
    hq = {f.qual for f in helpers}

    def builds(n):
        for x in node_calls(n):
            if _constructs_scaling(prog, fi, x):
                return True
            r = prog.resolve_expr(fi.module, x.func) if isinstance(x.func, (ast.Name, ast.Attribute)) else None
            if r and r[0] == "func" and r[1].qual in hq:
                return True
        return False
    ctor_nodes = cfg.where(builds)
    dom = all(cfg.dominated_by(n, lambda m: m is t)[0] for n in ctor_nodes)
    R.check(ret_none and dom and bool(ctor_nodes), "scaling._get_channel_scaling::status test first", fi.where(t.ast),
            "returns None for already-scaled data before constructing scalings (lookup continues with the next scope)",
            "the 'scaled' status test does not precede all scaling constructions or does not return None")


@rule("AO1", "scaling properties are looked up channel, then group, then file - each from the complete property map", floor=6)
def ao1(ctx, R):
    """Roles are followed positionally: the order in which get_scaling tries its parameters, the attributes TdmsChannel._scaling
    passes for them, the constructor parameters those attributes are stored from, and the values TdmsFile._read_file binds to
    those parameters - which must be lookups in the complete property map keyed by the channel path, its group path and '/'."""
    from .sem import match, W, find, instance_attrs, calls_to, call_arg
    from .sym import Sym, show
    prog = ctx.prog
    gs = prog.func("scaling.get_scaling")
    gcs = find_scaling_builder(prog)
    v = Sym(prog, gs, None, stack=(gcs.qual,)).function_value()
    b = match(("first", ("comp", W("elt"), W("bv"), W("it"), W("conds")), W("rest")), v)
    params = [("param", p) for p in gs.params[:3]]
    if b is None and find(v, ("sub", ("comp", W(), W(), W(), W()), ("const", -1))):
        R.violation("scaling.get_scaling::first non-None wins", gs.where(), "the LAST scope that defines a scaling wins (`%s`): file or group scalings "
                    "override the channel's own" % show(v)[:160])
    elif b is None and any(sum(1 for p_ in params if find(x[2], p_)) >= 2 for x, _b in find(v, ("call", gcs.qual, W(), W()))):
        R.violation("scaling.get_scaling::one scope at a time", gs.where(), "the scaling is built from a mapping that merges several scopes (`%s`): the NI_Scale "
                    "definitions of channel, group and file are mixed key by key instead of being taken from the first scope that defines a scaling" % show(v)[:160])
    elif b is None:
        R.undecided("scaling.get_scaling::lookup order", gs.where(), "search form `%s` not understood" % show(v)[:160])
    else:
        order = list(b["it"][1]) if b["it"][0] in ("list", "tuple") else None
        R.check(order == params, "scaling.get_scaling::lookup order", gs.where(), "tries %s in order" % [p[1] for p in params],
                "scopes are tried in the order %s (expected the parameter order %s)" % ([show(x) for x in order] if order else show(b["it"]), [p[1] for p in params]))
        elt_ok = b["elt"] == ("call", gcs.qual, (b["bv"],), ())
        want_cond = ("cmp", "is not", b["elt"], ("const", None))
        # further conditions that only look at the scope's own properties (e.g. its NI_Scaling_Status, tested in the caller) skip scopes, they
        # do not change which of the remaining scopes comes first
        extra = [c_ for c_ in b["conds"] if c_ != want_cond]
        extra_ok = all(not find(c_, ("call", gcs.qual, W(), W())) and not any(find(c_, p_) for p_ in params) for c_ in extra)
        first = elt_ok and want_cond in b["conds"] and extra_ok and b["rest"] == ("const", None)
        R.check(first, "scaling.get_scaling::first non-None wins", gs.where(), "the first scope with a scaling wins; None if there is none",
                "the first scope with a scaling does not win: `%s`" % show(v)[:200])
    # TdmsChannel._scaling -> attributes per priority
    sc = prog.func("tdms.TdmsChannel._scaling")
    call = calls_to(prog, sc, gs.qual)
    if not call:
        raise AnchorMissing("tdms.TdmsChannel._scaling: call of scaling.get_scaling")
    sy = Sym(prog, sc, sc.cls)
    env, _g = sy.env_at(call[0])
    attrs = []
    for p in gs.params[:3]:
        a = call_arg(prog, call[0], gs, p, sy, env)
        attrs.append(a[1] if a and a[0] == "self" else None)
    R.check(all(attrs) and len(set(attrs)) == 3, "tdms.TdmsChannel._scaling::arguments", sc.where(call[0]),
            "get_scaling(%s)" % ", ".join("self.%s" % a for a in attrs if a), "get_scaling is not called with three distinct attributes of the channel")
    if not all(attrs):
        return
    # attributes -> constructor parameters
    cls = prog.cls("tdms.TdmsChannel")
    init = prog.func("tdms.TdmsChannel.__init__")
    ia = instance_attrs(prog, cls)
    cparams = []
    for a in attrs:
        src = None
        for f, n in ia.get(a, []):
            if isinstance(n, ast.Assign) and isinstance(n.value, ast.Name) and n.value.id in f.params:
                src = n.value.id
        cparams.append(src)
    R.check(all(cparams) and len(set(cparams)) == 3, "tdms.TdmsChannel.__init__::roles stored", init.where(),
            "each property scope is stored under its own attribute (%s)" % dict(zip(attrs, cparams)), "constructor stores %s" % dict(zip(attrs, cparams)))
    if not all(cparams):
        return
    # _read_file -> values bound to those parameters
    rf = prog.func("tdms.TdmsFile._read_file")
    # the construction site: in _read_file, or in a helper method it calls from inside its loop over the objects (the helper's
    # parameters are then replaced by _read_file's arguments)
    from .sem import calls_to
    top = rf
    holder, ctor = rf, [c for c in walk_body(rf.node) if isinstance(c, ast.Call) and isinstance(c.func, (ast.Name, ast.Attribute)) and prog.resolve_class(rf.module, c.func) is cls]
    if not ctor:
        from .region import region as _region
        reg_ = [f_ for f_ in _region(ctx, rf, depth=3) if f_.cls is rf.cls]
        for g in sorted(rf.cls.methods.values(), key=lambda f: f.qual):
            sites = [c for c in walk_body(g.node) if isinstance(c, ast.Call) and isinstance(c.func, (ast.Name, ast.Attribute)) and prog.resolve_class(g.module, c.func) is cls]
            if sites and g is not rf and g in reg_:
                # the method that calls it (with the loop over the objects) plays the part of _read_file
                callers = [h for h in reg_ if calls_to(prog, h, g.qual, rf.cls)]
                if callers:
                    holder, ctor, top = g, sites, callers[0]
    if len(ctor) != 1:
        raise AnchorMissing("tdms.TdmsFile._read_file: one TdmsChannel(...) construction")
    c = ctor[0]
    st = Sym(prog, top, top.cls)
    if holder is rf:
        sr = st
        env, _g = sr.env_at(c)
        loops = env.get("<iter>", ())
    else:
        cc = calls_to(prog, top, holder.qual, top.cls)[0]
        env_top, _g = st.env_at(cc)
        loops = env_top.get("<iter>", ())
        bound = {}
        for p_ in holder.params:
            if p_ not in ("self", "cls"):
                a_ = call_arg(prog, cc, holder, p_, st, env_top)
                if a_ is not None:
                    bound[p_] = a_
        sr = Sym(prog, holder, holder.cls)
        env, _g = sr.env_at(c, bound=bound)
        for k_, v_ in env_top.items():
            if k_.startswith("self.") and k_ not in env:
                env[k_] = v_
        rf = holder
    if not loops:
        raise AnchorMissing("tdms.TdmsFile._read_file: TdmsChannel constructed inside the loop over the objects")
    it, bv = loops[-1]
    keyvar = ("item", bv, 0)

    def lookups(val):
        out = [(x[1], x[2]) for x, _b in find(val, ("sub", W(), W()))]
        out += [(x[2], x[3][0]) for x, _b in find(val, ("method", "get", W(), W(), W())) if x[3]]
        return out

    def depends_on_key(k):
        from .sem import mentions
        return mentions(k, keyvar)
    roles = [("channel", lambda k: k == keyvar, "the path string of the object being visited"),
             ("group", lambda k: k[0] == "method" and k[1] == "group_path" and depends_on_key(k[2]), "the group path of the object being visited"),
             ("file", lambda k: k == ("const", "/"), "'/'")]
    for (role, key_ok, what), pname in zip(roles, cparams):
        key = "tdms.TdmsFile._read_file::%s properties passed to TdmsChannel" % role
        val = call_arg(prog, c, init, pname, sr, env)
        if val is None:
            R.violation(key, rf.where(c), "TdmsChannel is constructed without %s" % pname)
            continue
        if val[0] == "self" and ("self." + val[1]) in env:
            val = env["self." + val[1]]
        if val[0] in ("loop", "filled") or any(m[0] in ("loop", "filled") for m, k in lookups(val)):
            bad = val if val[0] in ("loop", "filled") else [m for m, k in lookups(val) if m[0] in ("loop", "filled")][0]
            name = bad[1] if bad[0] == "loop" else show(bad[1])[:60]
            R.violation(key, rf.where(c), "the %s properties come from `%s`, a map that is still being filled inside the same loop over the file's "
                        "objects: a %s object that appears after the channel (later in the segment or in a later segment) is not seen, so its "
                        "scaling properties are ignored" % (role, name, role))
            continue
        lk = lookups(val)
        if not lk:
            R.undecided(key, rf.where(c), "source of `%s` not understood" % show(val)[:120])
            continue
        complete = all(m[0] in ("dictcomp", "dict") or (m[0] == "call" and m[1] in ("dict", "collections.OrderedDict") and m[2]) for m, k in lk)
        if not complete:
            R.undecided(key, rf.where(c), "map `%s` not recognised as built before the loop" % show(lk[0][0])[:100])
        elif not all(key_ok(k) for m, k in lk):
            R.violation(key, rf.where(c), "the %s properties are looked up with key `%s` (expected %s)" % (role, show([k for m, k in lk if not key_ok(k)][0])[:100], what))
        else:
            R.ok(key, rf.where(c), "complete map looked up by %s" % what)
