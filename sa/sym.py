"""Symbolic normal forms of small expressions and functions.

`Sym` turns an expression of a function into a canonical tree in which
  * local names are replaced by their defining expressions (straight-line code, if/else -> phi,
    try/except assignment -> try node, accumulation loops -> sum nodes),
  * calls of simple package helpers (module functions, methods on self) are inlined with their
    parameters substituted,
  * bound variables of comprehensions / generator expressions / loops are numbered, so renaming does
    not matter,
  * module-level constants are folded.
Two pieces of code that compute the same thing in the same way, spelt with different local names,
helper functions or loop-vs-comprehension idioms, get the same normal form.  The normal form is a nested
tuple; `show()` renders it.
"""
import ast

from .core import call_name, dotted, unparse

OPNAMES = {ast.Add: "+", ast.Sub: "-", ast.Mult: "*", ast.Div: "/", ast.FloorDiv: "//", ast.Mod: "%", ast.Pow: "**",
           ast.BitOr: "|", ast.BitAnd: "&", ast.BitXor: "^", ast.LShift: "<<", ast.RShift: ">>", ast.MatMult: "@"}
CMPNAMES = {ast.Eq: "==", ast.NotEq: "!=", ast.Lt: "<", ast.LtE: "<=", ast.Gt: ">", ast.GtE: ">=", ast.Is: "is", ast.IsNot: "is not",
            ast.In: "in", ast.NotIn: "not in"}
COMMUTATIVE = {"+", "*", "|", "&", "^"}
EMPTY_DICTS = (("dict", ()), ("call", "dict", (), ()), ("call", "collections.OrderedDict", (), ()), ("call", "OrderedDict", (), ()))
MAX_INLINE = 4
INLINE_MAX_NODES = 260       # AST nodes of a helper that may be inlined
INLINE_MAX_RESULT = 400      # size of an inlined value


def depth_guard(sy):
    return getattr(sy, "_prop_depth", 0) > 3


class Sym:
    def __init__(self, prog, fi, self_cls=None, inline=True, stack=()):
        self.prog = prog
        self.fi = fi
        self.self_cls = self_cls or fi.cls
        self.inline = inline
        self.stack = tuple(stack) + (fi.qual,)     # functions being inlined: recursive calls stay call nodes
        self.origin_cls = self.self_cls            # the class whose instance the term ('param', 'self') denotes (outermost function)

    # ------------------------------------------------------------------ functions
    def function_value(self, bound=None, depth=0):
        """Canonical return value of self.fi (params bound to the given canonical values), or
        ('opaque', qual) when the body is not simple."""
        env = {}
        for p in self.fi.params:
            env[p] = (bound or {}).get(p, ("param", p))
        if self.fi.is_generator:
            # a generator is the list of what it yields:  `yield v` is an append to that list
            body = _yields_as_appends(self.fi.node)
            if body is None:
                return ("opaque", self.fi.qual)
            env["__yield__"] = ("list", ())
            ok = self._run(list(body), env, depth, collect=None)
            v = env.get("__yield__")
            if not ok or v is None or v[0] in ("opaque", "loop", "mutated", "filled"):
                return ("opaque", self.fi.qual)
            return _norm_list(v)
        res = self._block(self.fi.node.body, env, depth)
        if res is None:
            return ("opaque", self.fi.qual)
        return res

    def function_paths(self, bound=None, depth=0, limit=64):
        """Enumerate the paths through the (loop-free part of the) body: -> list of (guards, value, env) where guards is a
        tuple of canonical conditions (('not', c) for the else side) and value the canonical return value (None: no return)."""
        out = []

        def lin(stmts, acc, guards):
            if len(out) > limit:
                return
            for i, st in enumerate(stmts):
                if isinstance(st, ast.If):
                    rest = stmts[i + 1:]
                    lin(list(st.body) + rest, acc + [("guard", st.test, True)], guards)
                    lin(list(st.orelse) + rest, acc + [("guard", st.test, False)], guards)
                    return
                acc = acc + [st]
                if isinstance(st, (ast.Return, ast.Raise)):
                    break
            out.append(acc)
        lin(list(self.fi.node.body), [], ())
        res = []
        for path in out:
            env = {}
            for p in self.fi.params:
                env[p] = (bound or {}).get(p, ("param", p))
            guards = []
            rets = []
            ok = True
            for st in path:
                if isinstance(st, tuple) and st[0] == "guard":
                    c = self.expr(st[1], env, depth)
                    guards.append(c if st[2] else mknot(c))
                    continue
                if isinstance(st, ast.Raise):
                    rets.append((None, ("raise", unparse(st.exc) if st.exc is not None else "")))
                    break
                if not self._run([st], env, depth, rets):
                    ok = False
                    break
            if not ok:
                res.append((tuple(guards), ("opaque", self.fi.qual), env))
            else:
                res.append((tuple(guards), rets[-1][1] if rets else None, env))
        return res

    def env_at(self, target, bound=None):
        """(env, guards) at an AST node of the function: statements before it are interpreted in order, compound statements
        containing it are entered (recording the conditions of the ifs on the way; loops and try bodies are entered once)."""
        env = {}
        for p in self.fi.params:
            env[p] = (bound or {}).get(p, ("param", p))
        guards = []

        def contains_t(st):
            return any(x is target for x in ast.walk(st))

        def walk(stmts):
            for st in stmts:
                if st is target:
                    return True
                if contains_t(st):
                    if isinstance(st, (ast.If, ast.While)) and contains_t(st.test):
                        # the target is part of the test itself: the operands in front of it (short circuit) guard it
                        guards.extend(self._expr_guards(st.test, target, env))
                        return True
                    if isinstance(st, ast.If):
                        c = self.expr(st.test, env, 0)
                        if any(contains_t(x) for x in st.body):
                            guards.append(c)
                            return walk(st.body)
                        guards.append(mknot(c))
                        return walk(st.orelse)
                    if isinstance(st, (ast.For, ast.While)):
                        self._mark_loop_mutations(st, env, inside=True)
                        if isinstance(st, ast.For):
                            it = self.expr(st.iter, env, 0)
                            bv = ("bv", self._fresh())
                            env["<iter>"] = env.get("<iter>", ()) + ((it, bv),)     # enclosing loops: (iterable, loop variable)
                            self._bind(st.target, bv, env)
                        if any(contains_t(x) for x in st.body):
                            return walk(st.body)
                        return walk(st.orelse)
                    if isinstance(st, ast.Try):
                        for blk in (st.body, st.orelse, st.finalbody):
                            if any(contains_t(x) for x in blk):
                                if blk is not st.body:
                                    self._run(list(st.body), env, 0, None)
                                return walk(blk)
                        for h in st.handlers:
                            if any(contains_t(x) for x in h.body):
                                guards.append(("except", unparse(h.type).strip("()") if h.type is not None else "BaseException"))
                                return walk(h.body)
                    if isinstance(st, (ast.With,)):
                        return walk(st.body)
                    # the target is inside a simple statement (expression): short-circuit operands / conditional expressions on the way guard it
                    for fld in ("value", "test", "exc", "msg"):
                        sub_ = getattr(st, fld, None)
                        if isinstance(sub_, ast.AST) and contains_t(sub_):
                            guards.extend(self._expr_guards(sub_, target, env))
                    return True
                # statement before the target: an `if` whose one arm leaves (return / raise / continue / break) guards what follows
                if isinstance(st, ast.If):
                    t1, t2 = self._terminates(st.body), self._terminates(st.orelse)
                    if t1 != t2:
                        c = self.expr(st.test, env, 0)
                        guards.append(mknot(c) if t1 else c)
                        rest = self._exit_cond(st.orelse if t1 else st.body, dict(env))
                        if rest is not None:
                            guards.append(mknot(rest))
                    elif not t1:
                        # neither arm leaves as a whole, but something nested in them may:  if A: (if B: return)   guards with not (A and B)
                        ec = self._exit_cond([st], dict(env))
                        if ec is not None:
                            guards.append(mknot(ec))
                if isinstance(st, (ast.For, ast.While, ast.Try, ast.With)):
                    # interpret what is understood, mark the rest opaque
                    self._run([st] if not isinstance(st, (ast.Try, ast.With)) else list(st.body), env, 0, None)
                else:
                    self._run([st], env, 0, None)
            return False
        walk(list(self.fi.node.body))
        return env, tuple(guards)

    def _expr_guards(self, root, target, env):
        """conditions under which `target`, a sub-expression of `root`, is evaluated: earlier operands of `and` (true) / `or`
        (false), the test of a conditional expression"""
        out = []
        node = root
        while node is not target:
            nxt = None
            if isinstance(node, ast.BoolOp):
                for i, v in enumerate(node.values):
                    if any(x is target for x in ast.walk(v)):
                        for prev in node.values[:i]:
                            try:
                                c = self.expr(prev, env, 0)
                            except Exception:
                                c = None
                            if c is not None:
                                out.append(c if isinstance(node.op, ast.And) else mknot(c))
                        nxt = v
                        break
            elif isinstance(node, ast.IfExp):
                if any(x is target for x in ast.walk(node.test)):
                    nxt = node.test
                else:
                    try:
                        c = self.expr(node.test, env, 0)
                    except Exception:
                        c = None
                    in_body = any(x is target for x in ast.walk(node.body))
                    if c is not None:
                        out.append(c if in_body else mknot(c))
                    nxt = node.body if in_body else node.orelse
            else:
                for ch in ast.iter_child_nodes(node):
                    if any(x is target for x in ast.walk(ch)):
                        nxt = ch
                        break
            if nxt is None or isinstance(nxt, (ast.Lambda, ast.ListComp, ast.SetComp, ast.DictComp, ast.GeneratorExp)):
                break
            node = nxt
        return out

    def env_at_end(self, stmts=None, bound=None):
        """Environment (name -> canonical) after straight-line interpretation of the body (for analysing locals)."""
        env = {}
        for p in self.fi.params:
            env[p] = (bound or {}).get(p, ("param", p))
        self._run(list(stmts if stmts is not None else self.fi.node.body), env, 0, collect=None)
        return env

    def _block(self, stmts, env, depth):
        """Run statements; -> canonical return value (phi over paths) or None if no return / not simple."""
        rets = []
        ok = self._run(list(stmts), env, depth, collect=rets)
        if not ok or not rets:
            return None
        val = rets[-1][1]
        for test, v in reversed(rets[:-1]):
            val = mkphi(test, v, val)
        return val

    def _run(self, stmts, env, depth, collect, guard=None):
        """Sequential interpretation.  `collect` gathers (guard, value) of returns.  Returns False when a
        construct is met that makes the function non-simple."""
        for i, s in enumerate(stmts):
            if isinstance(s, ast.Expr):
                # list building:  X.append(v) / X.extend(vs) / X.insert(0, v)
                c = s.value
                if isinstance(c, ast.Call) and isinstance(c.func, ast.Attribute) and isinstance(c.func.value, ast.Name) \
                        and c.func.value.id in env and c.args and c.func.attr in ("append", "extend"):
                    v = self.expr(c.args[0], env, depth)
                    new = list_add(env[c.func.value.id], c.func.attr, v)
                    # a mutation that is not understood makes the value opaque (never silently stale)
                    env[c.func.value.id] = new if new is not None else ("mutated", c.func.value.id, self.fi.qual)
                elif isinstance(c, ast.Call) and isinstance(c.func, ast.Attribute) and isinstance(c.func.value, ast.Name) \
                        and c.func.value.id in env and c.func.attr in self.MUTATORS and env[c.func.value.id][0] in ("list", "comp", "phi", "dict", "set", "dictcomp"):
                    env[c.func.value.id] = ("mutated", c.func.value.id, self.fi.qual)
                continue     # docstrings, other side-effect calls (not part of the value)
            if isinstance(s, (ast.Pass, ast.Import, ast.ImportFrom, ast.Assert, ast.Raise, ast.Global)):
                if isinstance(s, ast.Raise):
                    return True
                continue
            if isinstance(s, ast.Assign):
                v = self.expr(s.value, env, depth)
                for t in s.targets:
                    self._bind(t, v, env)
                continue
            if isinstance(s, ast.AugAssign) and isinstance(s.target, ast.Name):
                cur = env.get(s.target.id, ("unbound", s.target.id))
                env[s.target.id] = self._binop(OPNAMES.get(type(s.op), "?"), cur, self.expr(s.value, env, depth))
                continue
            if isinstance(s, ast.AugAssign) and isinstance(s.target, ast.Attribute) and dotted(s.target) is not None:
                # self.hits += 1: a counter kept on an object; what is read from it later in the function sees the new value
                import copy as _copy
                load = _copy.deepcopy(s.target)
                for n_ in ast.walk(load):
                    if hasattr(n_, "ctx"):
                        n_.ctx = ast.Load()
                cur = self.expr(load, env, depth)
                self._bind(s.target, self._binop(OPNAMES.get(type(s.op), "?"), cur, self.expr(s.value, env, depth)), env)
                continue
            if isinstance(s, ast.Return):
                if collect is not None:
                    collect.append((guard, self.expr(s.value, env, depth) if s.value is not None else ("const", None)))
                return True
            if isinstance(s, ast.If):
                test = self.expr(s.test, env, depth)
                e1, e2 = dict(env), dict(env)
                r1, r2 = [], []
                ok1 = self._run(list(s.body), e1, depth, r1 if collect is not None else None, guard)
                ok2 = self._run(list(s.orelse), e2, depth, r2 if collect is not None else None, guard)
                if not (ok1 and ok2):
                    return False
                t1 = self._terminates(s.body)
                t2 = self._terminates(s.orelse)
                if collect is not None:
                    for g, v in r1:
                        collect.append((test if g is None else ("and", test, g), v))
                    for g, v in r2:
                        collect.append((mknot(test) if g is None else ("and", mknot(test), g), v))
                if t1 and t2:
                    return True
                if t1:
                    env.clear(); env.update(e2)
                elif t2:
                    env.clear(); env.update(e1)
                else:
                    for k in set(e1) | set(e2):
                        a, b = e1.get(k, ("unbound", k)), e2.get(k, ("unbound", k))
                        env[k] = a if a == b else mkphi(test, a, b)
                continue
            if isinstance(s, ast.Try):
                # try: X = A  except E: X = B        /  try: return A except E: return B
                e1 = dict(env)
                r1 = []
                ok1 = self._run(list(s.body), e1, depth, r1 if collect is not None else None, guard)
                if not ok1 or len(s.handlers) != 1 or s.finalbody:
                    return False
                h = s.handlers[0]
                if s.orelse:
                    # try: X = A  except E: pass  else: return f(X) ; ...rest...     ==   try(f(A)) except E: (value of rest)
                    if collect is None or r1 or not all(isinstance(x, ast.Pass) for x in h.body) or not self._terminates(s.orelse):
                        return False
                    r_else, rest_rets = [], []
                    if not self._run(list(s.orelse), e1, depth, r_else, guard) or not r_else:
                        return False
                    if not self._run(list(stmts[i + 1:]), dict(env), depth, rest_rets, guard) or not rest_rets:
                        return False

                    def fold_(rets):
                        val = rets[-1][1]
                        for test_, v_ in reversed(rets[:-1]):
                            val = mkphi(test_, v_, val) if test_ is not None else v_
                        return val
                    exc = unparse(h.type).strip("()") if h.type is not None else "BaseException"
                    collect.append((guard, mktry(fold_(r_else), exc, fold_(rest_rets))))
                    return True
                e2 = dict(env)
                r2 = []
                ok2 = self._run(list(h.body), e2, depth, r2 if collect is not None else None, guard)
                if not ok2:
                    return False
                exc = unparse(h.type).strip("()") if h.type is not None else "BaseException"
                if r1 and r2 and collect is not None:
                    collect.append((guard, mktry(r1[-1][1], exc, r2[-1][1])))
                    return True
                if r1 and not r2 and collect is not None and h.body and isinstance(h.body[-1], ast.Raise) and self._terminates(s.body):
                    # try: return A  except E: raise ...   -- the only value is A (the error path has none)
                    collect.append((guard, r1[-1][1]))
                    return True
                if r2 and not r1 and collect is not None and self._terminates(h.body) and len(r2) == 1:
                    # try: X = A  except E: return B ; ...rest using X...   ==   try(rest value) except E: B
                    rest_rets = []
                    ok3 = self._run(list(stmts[i + 1:]), e1, depth, rest_rets, guard)
                    if not ok3 or not rest_rets:
                        return False
                    val = rest_rets[-1][1]
                    for test_, v_ in reversed(rest_rets[:-1]):
                        val = mkphi(test_, v_, val) if test_ is not None else v_
                    collect.append((guard, mktry(val, exc, r2[-1][1])))
                    return True
                for k in set(e1) | set(e2):
                    a, b = e1.get(k, ("unbound", k)), e2.get(k, ("unbound", k))
                    env[k] = a if a == b else mktry(a, exc, b)
                continue
            if isinstance(s, ast.For) and not s.orelse and self._literal_table(s.iter) is not None and any(isinstance(x, ast.Return) for x in ast.walk(s)) \
                    and not any(isinstance(x, (ast.Continue, ast.Break, ast.Assign, ast.AugAssign, ast.For, ast.While)) for b in s.body for x in ast.walk(b)):
                # search loop over a table written out in the source:  for types, convert in TABLE: if isinstance(v, types): return convert(v)
                # is the sequence of its rounds, one per entry
                okr = True
                table = self._literal_table(s.iter)
                scope_env = dict(env)
                if getattr(self, "_table_scope", None) is not None:
                    for m_ in self._table_scope.methods.values():
                        scope_env.setdefault(m_.name, ("func", m_.qual))
                for elt in table:
                    e_i = dict(env)
                    self._bind(s.target, self.expr(elt, scope_env, depth), e_i)
                    if not self._run(list(s.body), e_i, depth, collect, guard):
                        okr = False
                        break
                if not okr:
                    return False
                continue
            if isinstance(s, (ast.For,)):
                # loops whose only effects are appends to lists and additions to accumulators, possibly under ifs / continue:
                #   for v in L: X.append(f(v))        ==  X + [f(v) for v in L]
                #   for v in L: if c(v): continue; acc += f(v)   ==  acc + sum(f(v) for v in L if not c(v))
                it = self.expr(s.iter, env, depth)
                bv = ("bv", self._fresh())
                e2 = dict(env)
                self._bind(s.target, bv, e2)
                effects = []
                assigned = set()

                def walk(stmts, e3, conds):
                    for k, b in enumerate(stmts):
                        if isinstance(b, ast.Expr):
                            c = b.value
                            if isinstance(c, ast.Call) and isinstance(c.func, ast.Attribute) and isinstance(c.func.value, ast.Name) \
                                    and c.func.attr == "append" and len(c.args) == 1 and c.func.value.id in env \
                                    and env[c.func.value.id][0] in ("list", "comp"):
                                effects.append(("append", c.func.value.id, self.expr(c.args[0], e3, depth), tuple(conds)))
                            elif isinstance(c, ast.Call) and isinstance(c.func, ast.Attribute) and isinstance(c.func.value, ast.Name) \
                                    and c.func.attr in ("append", "extend", "insert", "update", "add", "pop", "remove") and c.func.value.id in env \
                                    and env[c.func.value.id][0] in ("list", "comp", "dict", "set"):
                                return False
                            continue
                        if isinstance(b, ast.AugAssign) and isinstance(b.target, ast.Name) and isinstance(b.op, ast.Add):
                            effects.append(("add", b.target.id, self.expr(b.value, e3, depth), tuple(conds)))
                            continue
                        if isinstance(b, ast.For) and not b.orelse and isinstance(b.target, ast.Name) and len(b.body) == 1:
                            # inner loop that appends one item per (selected) element:
                            #   for y in ys: [if c(y):] X.append(e)   ==   X.extend([e for y in ys [if c(y)]])
                            inner, itest = b.body[0], None
                            if isinstance(inner, ast.If) and not inner.orelse and len(inner.body) == 1:
                                inner, itest = inner.body[0], inner.test
                            c2 = inner.value if isinstance(inner, ast.Expr) and isinstance(inner.value, ast.Call) else None
                            if c2 is not None and isinstance(c2.func, ast.Attribute) and isinstance(c2.func.value, ast.Name) and c2.func.value.id in env \
                                    and c2.func.attr == "append" and len(c2.args) == 1:
                                it2 = self.expr(b.iter, e3, depth)
                                bv2 = ("bv", self._fresh())
                                e4 = dict(e3)
                                e4[b.target.id] = bv2
                                conds2 = (self.expr(itest, e4, depth),) if itest is not None else ()
                                effects.append(("append", c2.func.value.id, ("splice", mkcomp("comp", self.expr(c2.args[0], e4, depth), bv2, it2, conds2)),
                                                tuple(conds)))
                                continue
                            return False
                        if isinstance(b, ast.Assign) and len(b.targets) == 1 and isinstance(b.targets[0], ast.Subscript) \
                                and isinstance(b.targets[0].value, ast.Name) and b.targets[0].value.id in env \
                                and env[b.targets[0].value.id] in EMPTY_DICTS and not isinstance(b.targets[0].slice, ast.Slice):
                            # D[k] = v  into a dictionary that was empty before the loop  ==  {k: v for ...}
                            kv = ("tuple", (self.expr(b.targets[0].slice, e3, depth), self.expr(b.value, e3, depth)))
                            effects.append(("setitem", b.targets[0].value.id, kv, tuple(conds)))
                            continue
                        if isinstance(b, ast.Assign) and all(isinstance(t, ast.Name) for t in b.targets):
                            v = self.expr(b.value, e3, depth)
                            for t in b.targets:
                                e3[t.id] = v
                                assigned.add(t.id)
                            continue
                        if isinstance(b, ast.Assign) and all(isinstance(t, (ast.Tuple, ast.List)) and all(isinstance(x, ast.Name) for x in t.elts) for t in b.targets):
                            v = self.expr(b.value, e3, depth)
                            for t in b.targets:
                                self._bind(t, v, e3)
                                assigned.update(x.id for x in t.elts)
                            continue
                        if isinstance(b, ast.If):
                            t = self.expr(b.test, e3, depth)
                            rest = list(stmts[k + 1:])
                            ok1 = walk(list(b.body) + ([] if self._terminates(b.body) else rest), dict(e3), conds + [t])
                            ok2 = walk(list(b.orelse) + ([] if self._terminates(b.orelse) else rest), dict(e3), conds + [mknot(t)])
                            return ok1 and ok2
                        if isinstance(b, (ast.Continue, ast.Pass)):
                            if isinstance(b, ast.Continue):
                                return True
                            continue
                        if isinstance(b, ast.Return) and b.value is not None:
                            effects.append(("return", None, self.expr(b.value, e3, depth), tuple(conds)))
                            return True
                        return False
                    return True
                simple = walk(list(s.body), e2, []) and not s.orelse
                rets_in_loop = [e_ for e_ in effects if e_[0] == "return"]
                if simple and rets_in_loop:
                    # search loop:  for v in L: if c(v): return f(v)  ; rest      ==   first([f(v) for v in L if c(v)], else rest)
                    if len(effects) == 1 and collect is not None:
                        _k, _n, val, conds = rets_in_loop[0]
                        rest_rets = []
                        ok3 = self._run(list(stmts[i + 1:]), dict(env), depth, rest_rets, guard)
                        if ok3 and rest_rets:
                            rest = rest_rets[-1][1]
                            for test_, v_ in reversed(rest_rets[:-1]):
                                rest = mkphi(test_, v_, rest) if test_ is not None else v_
                            collect.append((guard, ("first", mkcomp("comp", val, bv, it, conds), rest)))
                            return True
                    simple = False
                per_list = {}
                for kind, name, val, conds in effects:
                    if kind == "append":
                        per_list.setdefault(name, []).append((val, conds))
                per_dict = {}
                for kind, name, val, conds in effects:
                    if kind == "setitem":
                        per_dict.setdefault(name, []).append((val, conds))
                if any(len(v) > 1 for v in per_list.values()) or any(len(v) > 1 for v in per_dict.values()):
                    simple = False
                if not simple:
                    # not understood: every name assigned or mutated in the loop becomes opaque
                    self._mark_loop_mutations(s, env)
                    continue
                for name in assigned:
                    if name in env:
                        env[name] = ("loop", name, self.fi.qual)
                for name, (item,) in ((k_, v_) for k_, v_ in per_list.items()):
                    val, conds = item
                    cur = env[name]
                    if cur[0] == "comp":
                        cur = ("list", (("splice", cur),))
                    comp = mkcomp("comp", val, bv, it, conds)
                    env[name] = _norm_list(("list", cur[1] + (("splice", comp),)))
                for name, (item,) in per_dict.items():
                    val, conds = item
                    env[name] = mkcomp("dictcomp", val, bv, it, conds)
                groups = {}
                for kind, name, val, conds in effects:
                    if kind == "add":
                        groups.setdefault((name, conds), []).append(val)
                for (name, conds), terms in groups.items():
                    elt = terms[0] if len(terms) == 1 else ("binop", "+", tuple(terms))
                    env[name] = self._binop("+", env.get(name, ("unbound", name)), mkcomp("sum", elt, bv, it, conds))
                continue
            if isinstance(s, (ast.With,)):
                if not self._run(list(s.body), env, depth, collect, guard):
                    return False
                continue
            if isinstance(s, ast.FunctionDef):
                env2 = dict(env)
                ps = [a.arg for a in s.args.args]
                for p_ in ps:
                    env2[p_] = ("bv", self._fresh())
                rets_ = []
                ok_ = self._run(list(s.body), env2, depth, rets_)
                if ok_ and len(rets_) == 1:
                    env[s.name] = ("fn", tuple(env2[p_] for p_ in ps), rets_[0][1])
                else:
                    env[s.name] = ("localfn", s.name)
                continue
            if isinstance(s, ast.ClassDef):
                continue
            return False
        return True

    MUTATORS = ("append", "extend", "insert", "update", "add", "pop", "remove", "setdefault", "clear", "popitem", "discard", "sort", "reverse")

    def _mark_loop_mutations(self, loop, env, inside=False):
        """names whose value is carried around the loop: assigned, augmented, stored into, or mutated through a method"""
        q = self.fi.qual
        filled = set()
        for n in ast.walk(loop):
            if isinstance(n, ast.Name) and isinstance(n.ctx, ast.Store):
                env[n.id] = ("loop", n.id, q)
            elif isinstance(n, ast.AugAssign) and isinstance(n.target, ast.Name):
                env[n.target.id] = ("loop", n.target.id, q)
            elif isinstance(n, (ast.Subscript, ast.Attribute)) and isinstance(n.ctx, ast.Store):
                d = dotted(n.value)
                if d and d not in ("self", "cls"):
                    filled.add(d)
                if isinstance(n, ast.Attribute) and dotted(n) and dotted(n).startswith("self."):
                    env[dotted(n)] = ("loop", dotted(n), q)
            elif isinstance(n, ast.Call) and isinstance(n.func, ast.Attribute) and n.func.attr in self.MUTATORS:
                d = dotted(n.func.value)
                if d and d not in ("self", "cls"):
                    filled.add(d)
        # objects that are stored into / mutated (not rebound) inside the loop keep their identity: ('filled', <what they were>)
        for d in filled:
            cur = env.get(d)
            if cur is None:
                continue
            if not inside:
                env[d] = ("loop", d, q)          # after a loop that is not understood the contents are unknown
            elif cur[0] not in ("loop", "filled"):
                env[d] = ("filled", cur)         # inside the loop the object keeps its identity

    def _simple_property(self, attr):
        """`self.<attr>` where <attr> is a property of the class whose getter is one `return <expression>` over fields of self,
        constants, arithmetic and len(): the expression itself (a named piece of arithmetic such as `len(self.scalings) - 1`).
        Properties that return a field as it is, or call anything else, keep their name."""
        cls = self.self_cls
        if cls is None or depth_guard(self):
            return None
        found = self.prog.lookup(cls, attr) if hasattr(self.prog, "lookup") else None
        if not (found and found[0] == "method" and "property" in (found[2].decorators or [])):
            return None
        body = [s_ for s_ in found[2].node.body if not (isinstance(s_, ast.Expr) and isinstance(s_.value, ast.Constant) and isinstance(s_.value.value, str))]
        if len(body) != 1 or not isinstance(body[0], ast.Return) or body[0].value is None:
            return None
        ret = body[0].value
        if not isinstance(ret, (ast.BinOp, ast.UnaryOp)):
            return None
        for n_ in ast.walk(ret):
            if isinstance(n_, ast.Call) and not (isinstance(n_.func, ast.Name) and n_.func.id == "len"):
                return None
            if isinstance(n_, ast.Name) and n_.id not in ("self", "len"):
                return None
            if isinstance(n_, (ast.Lambda, ast.IfExp, ast.Subscript, ast.Compare, ast.BoolOp, ast.Await, ast.Yield)):
                return None
        self._prop_depth = getattr(self, "_prop_depth", 0) + 1
        try:
            return self.expr(ret, {})
        finally:
            self._prop_depth -= 1

    def _record_field(self, base, attr):
        """field of a record built on the spot:  Record(a, b).x  is the argument the record stores as x -- for a namedtuple
        declared at module level, and for a package class whose __init__ stores its parameters unchanged"""
        if not (isinstance(base, tuple) and base):
            return None
        if base[0] == "phi":
            a, b = self._record_field(base[2], attr), self._record_field(base[3], attr)
            return mkphi(base[1], a, b) if a is not None and b is not None else None
        if base[0] == "call" and isinstance(base[1], str) and "." not in base[1]:
            r = self.prog.resolve_name(self.fi.module, base[1])
            node = r[1] if r and r[0] == "const" else None
            if node is None:
                # the record was built in an inlined helper of another module: a namedtuple of that name declared once in the package
                decls = [m.assigns[base[1]] for m in self.prog.modules.values() if isinstance(m.assigns.get(base[1]), ast.Call)
                         and (call_name(m.assigns[base[1]]) or "").split(".")[-1] == "namedtuple"]
                node = decls[0] if len(decls) == 1 else None
            if isinstance(node, ast.Call) and (call_name(node) or "").split(".")[-1] == "namedtuple" and len(node.args) >= 2:
                names = self.prog.try_fold(node.args[1], self.fi.module, default=None)
                if isinstance(names, str):
                    names = names.replace(",", " ").split()
                if isinstance(names, (list, tuple)) and attr in names:
                    i = list(names).index(attr)
                    if i < len(base[2]):
                        return base[2][i]
                    kw = dict(base[3])
                    return kw.get(attr)
        if base[0] == "new":
            ci = self.prog.classes.get(base[1])
            if ci is not None:
                from .region import ctor_fields
                for pos, (fld, pn) in ctor_fields(ci).items():
                    if fld == attr:
                        if pos < len(base[2]):
                            return base[2][pos]
                        return dict(base[3]).get(pn)
        return None

    def _literal_table(self, it):
        """entries (AST) of a tuple / list written out in the source: given directly or through a module-level name of this
        module that is assigned once; None otherwise or when it has more than 32 entries"""
        node = it
        self._table_scope = None
        if isinstance(it, ast.Attribute) and dotted(it.value) in ("self", "cls") and self.self_cls is not None:
            # a table kept as a class attribute:  for a, b in self._RULES
            found = self.prog.lookup(self.self_cls, it.attr)
            if found and found[0] == "attr" and isinstance(found[2], (ast.Tuple, ast.List)):
                node = found[2]
                self._table_scope = found[1]          # names in the entries are names of that class body
        if isinstance(it, ast.Name):
            r = self.prog.resolve_name(self.fi.module, it.id)
            if not (r and r[0] == "const" and (len(r) < 3 or r[2] is self.fi.module)):
                return None
            node = r[1]
        if isinstance(node, (ast.Tuple, ast.List)) and 0 < len(node.elts) <= 32 and not any(isinstance(e, ast.Starred) for e in node.elts):
            return list(node.elts)
        return None

    def _exit_cond(self, stmts, env):
        """condition under which the statements leave the enclosing block (return / raise / continue / break), None if they
        never do; only ifs are looked into"""
        parts = []
        for st in stmts:
            if isinstance(st, (ast.Return, ast.Raise, ast.Continue, ast.Break)):
                parts.append(("const", True))
                break
            if isinstance(st, ast.If):
                c = self.expr(st.test, env, 0)
                a = self._exit_cond(st.body, dict(env))
                b = self._exit_cond(st.orelse, dict(env))
                if a is not None:
                    parts.append(c if a == ("const", True) else _flat("and", c, a))
                if b is not None:
                    parts.append(mknot(c) if b == ("const", True) else _flat("and", mknot(c), b))
            if isinstance(st, (ast.For, ast.While, ast.Try, ast.With)):
                self._run([st] if not isinstance(st, (ast.Try, ast.With)) else list(st.body), env, 0, None)
            else:
                self._run([st], env, 0, None)
        if not parts:
            return None
        out = parts[0]
        for p_ in parts[1:]:
            out = _flat("or", out, p_)
        return out

    def _terminates(self, stmts):
        return bool(stmts) and isinstance(stmts[-1], (ast.Return, ast.Raise, ast.Continue, ast.Break))

    _counter = [0]

    def _fresh(self):
        Sym._counter[0] += 1
        return Sym._counter[0]

    def _bind(self, target, value, env):
        if isinstance(target, ast.Name):
            env[target.id] = value
        elif isinstance(target, ast.Attribute) and dotted(target) and dotted(target).startswith("self."):
            env[dotted(target)] = value
        elif isinstance(target, (ast.Tuple, ast.List)):
            for i, e in enumerate(target.elts):
                self._bind(e, item_of(value, i), env)

    # ------------------------------------------------------------------ expressions
    def _binop(self, op, a, b):
        if op == "+" and a[0] == "const" and b[0] == "const" and type(a[1]) is type(b[1]) and isinstance(a[1], (str, bytes)):
            return ("const", a[1] + b[1])          # two literal pieces of one text
        if op == "+" and a[0] in ("list", "comp") and b[0] in ("list", "comp"):
            la = a[1] if a[0] == "list" else (("splice", a),)
            lb = b[1] if b[0] == "list" else (("splice", b),)
            return _norm_list(("list", la + lb))
        if op == "+" and a[0] == "list":
            return _norm_list(("list", a[1] + (("splice", b),)))
        if op in COMMUTATIVE and _numeric(a) and _numeric(b) and (_strict_numeric(a) or _strict_numeric(b) or op != "+"):
            terms = []
            for x in (a, b):
                if x[0] == "binop" and x[1] == op and isinstance(x[2], tuple) and x[2] and isinstance(x[2][0], tuple):
                    terms.extend(x[2])
                else:
                    terms.append(x)
            # drop neutral elements
            if op == "+":
                terms = [t for t in terms if t != ("const", 0)] or [("const", 0)]
            if op == "*":
                terms = [t for t in terms if t != ("const", 1)] or [("const", 1)]
            if len(terms) == 1:
                return terms[0]
            return ("binop", op, tuple(sorted(terms, key=repr)))
        return ("binop", op, (a, b))

    def expr(self, e, env, depth=0):
        prog = self.prog
        if e is None:
            return ("const", None)
        if isinstance(e, ast.Constant):
            return ("const", e.value)
        if isinstance(e, ast.NamedExpr) and isinstance(e.target, ast.Name):
            # (m := f(x)): the value, and the name stands for it from here on (comprehension filters bind for the element expression)
            v = self.expr(e.value, env, depth)
            env[e.target.id] = v
            return v
        if isinstance(e, ast.Name):
            if e.id in env:
                return env[e.id]
            r = prog.resolve_name(self.fi.module, e.id)
            if r and r[0] == "const":
                v = prog.try_fold(r[1], r[2], default=None)
                if v is not None or (isinstance(r[1], ast.Constant) and r[1].value is None):
                    return ("const", v) if not isinstance(v, (list, dict)) else ("global", e.id)
                return ("global", e.id)
            if r and r[0] == "class":
                return ("class", r[1].qual)
            if r and r[0] == "func":
                return ("func", r[1].qual)
            return ("name", e.id)
        if isinstance(e, ast.Attribute):
            d = dotted(e)
            if d and d.startswith("self.") and d.count(".") == 1:
                held = env.get(d)
                if isinstance(held, tuple) and held and (held[0] in ("cmp", "and", "or", "not") or (
                        held[0] == "method" and len(held) == 5 and not held[3] and not held[4]) or (held[0] == "call" and len(held) == 4 and held[1] == "bool")):
                    # a flag stored on self earlier in this function (self._index_only = reader.is_index_file_only()) reads as the test it holds
                    return held
                pv = self._simple_property(e.attr)
                if pv is not None:
                    return pv
                return ("self", e.attr)
            if d and d.split(".")[0] in self.fi.module.imports and d.split(".")[0] not in env:
                full = self._ext_name(d)
                if not full.startswith("nptdms"):
                    r = prog.resolve_expr(self.fi.module, e)
                    if not r or r[0] == "ext":
                        return ("ext", full)
            if d and d.split(".")[0] not in env:
                # module-qualified package names:  types.String,  common.ObjectPath
                r = prog.resolve_expr(self.fi.module, e)
                if r and r[0] == "class":
                    return ("class", r[1].qual)
                if r and r[0] == "func":
                    return ("func", r[1].qual)
            base = self.expr(e.value, env, depth)
            if base[0] == "class":
                ci = prog.classes.get(base[1])
                if ci is not None:
                    v = prog.class_const(ci, e.attr)
                    if v is not None:
                        return ("const", v)
            proj = self._record_field(base, e.attr)
            if proj is not None:
                return proj
            return ("attr", base, e.attr)
        if isinstance(e, ast.BinOp):
            op = OPNAMES.get(type(e.op), "?")
            a, b = self.expr(e.left, env, depth), self.expr(e.right, env, depth)
            if a[0] == "const" and b[0] == "const" and isinstance(a[1], (int, float)) and isinstance(b[1], (int, float)) \
                    and not isinstance(a[1], bool) and not isinstance(b[1], bool):
                v = prog.try_fold(e, self.fi.module, env={})
                try:
                    import operator
                    f = {"+": operator.add, "-": operator.sub, "*": operator.mul, "//": operator.floordiv, "**": operator.pow,
                         "%": operator.mod, "|": operator.or_, "&": operator.and_, "<<": operator.lshift}.get(op)
                    if f is not None:
                        return ("const", f(a[1], b[1]))
                except Exception:
                    pass
            return self._binop(op, a, b)
        if isinstance(e, ast.UnaryOp):
            v = self.expr(e.operand, env, depth)
            name = {ast.Not: "not", ast.USub: "neg", ast.UAdd: "pos", ast.Invert: "inv"}[type(e.op)]
            if name == "not":
                return mknot(v)
            if name == "neg" and v[0] == "const" and isinstance(v[1], (int, float)):
                return ("const", -v[1])
            return (name, v)
        if isinstance(e, ast.BoolOp):
            vals = tuple(self.expr(v, env, depth) for v in e.values)
            return ("and" if isinstance(e.op, ast.And) else "or",) + vals
        if isinstance(e, ast.Compare):
            parts = [self.expr(e.left, env, depth)]
            out = []
            for op, c in zip(e.ops, e.comparators):
                parts.append(self.expr(c, env, depth))
                a_, b_ = parts[-2], parts[-1]
                name = CMPNAMES[type(op)]
                if a_[0] == "const" and b_[0] == "const" and a_[1] is None and b_[1] is None and name in ("is", "is not", "==", "!="):
                    # a helper inlined with the literal None for a parameter it tests:  None is None
                    out.append(("const", name in ("is", "==")))
                    continue
                out.append(("cmp", name, a_, b_))
            return out[0] if len(out) == 1 else ("and",) + tuple(out)
        if isinstance(e, ast.IfExp):
            return mkphi(self.expr(e.test, env, depth), self.expr(e.body, env, depth), self.expr(e.orelse, env, depth))
        if isinstance(e, (ast.Tuple, ast.List)):
            return ("tuple" if isinstance(e, ast.Tuple) else "list", tuple(self.expr(x, env, depth) for x in e.elts))
        if isinstance(e, ast.Dict):
            return ("dict", tuple((self.expr(k, env, depth), self.expr(v, env, depth)) for k, v in zip(e.keys, e.values)))
        if isinstance(e, ast.Subscript):
            base, idx = self.expr(e.value, env, depth), self.expr(e.slice, env, depth)
            if base[0] == "global" and isinstance(e.value, ast.Name):
                # a two-entry constant table keyed by truth is a conditional:  TABLE[bool(x)]  (lookups by name stay symbolic)
                r = self.prog.resolve_name(self.fi.module, e.value.id)
                tab = self.prog.try_fold(r[1], r[2], default=None) if r and r[0] == "const" else None
                simple = lambda v: v is None or isinstance(v, (bool, int, float, str, bytes))
                if isinstance(tab, dict) and all(simple(v) for v in tab.values()):
                    try:
                        if idx[0] == "call" and idx[1] == "bool" and len(idx[2]) == 1 and set(tab) == {True, False}:
                            return mkphi(idx[2][0], ("const", tab[True]), ("const", tab[False]))
                    except TypeError:
                        pass
            if base[0] == "global" and isinstance(e.value, ast.Name):
                # a module-level table computed entry by entry from its key:  T = {k: f(k) for k in KEYS}  /  dict((k, f(k)) for (k, _) in ..)
                # looked up with x is f(x) (for x among the keys; a missing key raises in both forms)
                r = self.prog.resolve_name(self.fi.module, e.value.id)
                node = r[1] if r and r[0] == "const" and (len(r) < 3 or r[2] is self.fi.module) else None
                comp = None
                if isinstance(node, ast.DictComp):
                    comp = (node.key, node.value, node.generators)
                elif isinstance(node, ast.Call) and call_name(node) == "dict" and len(node.args) == 1 and not node.keywords \
                        and isinstance(node.args[0], (ast.GeneratorExp, ast.ListComp)) and isinstance(node.args[0].elt, ast.Tuple) and len(node.args[0].elt.elts) == 2:
                    comp = (node.args[0].elt.elts[0], node.args[0].elt.elts[1], node.args[0].generators)
                if comp is not None and isinstance(comp[0], ast.Name) and len(comp[2]) == 1 and not comp[2][0].ifs:
                    bound_names = {x.id for x in ast.walk(comp[2][0].target) if isinstance(x, ast.Name)}
                    used = {x.id for x in ast.walk(comp[1]) if isinstance(x, ast.Name)} & bound_names
                    if comp[0].id in bound_names and used <= {comp[0].id}:
                        modsym = Sym(self.prog, self.fi, None, inline=False)
                        return modsym.expr(comp[1], {comp[0].id: idx}, depth)
            return ("sub", base, idx)
        if isinstance(e, ast.Slice):
            return ("slice", self.expr(e.lower, env, depth), self.expr(e.upper, env, depth), self.expr(e.step, env, depth))
        if isinstance(e, (ast.ListComp, ast.GeneratorExp, ast.SetComp)):
            return self._comp(e, e.elt, env, depth, "comp")
        if isinstance(e, ast.DictComp):
            return self._comp(e, ast.Tuple(elts=[e.key, e.value], ctx=ast.Load()), env, depth, "dictcomp")
        if isinstance(e, ast.Starred):
            return ("star", self.expr(e.value, env, depth))
        if isinstance(e, ast.JoinedStr):
            return ("fstring", tuple(self.expr(v.value, env, depth) if isinstance(v, ast.FormattedValue) else ("const", v.value) for v in e.values))
        if isinstance(e, ast.Lambda):
            env2 = dict(env)
            ps = [a.arg for a in e.args.args]
            for p_ in ps:
                env2[p_] = ("bv", self._fresh())
            return ("fn", tuple(env2[p_] for p_ in ps), self.expr(e.body, env2, depth))
        if isinstance(e, ast.Call):
            return self._call(e, env, depth)
        return ("expr", unparse(e))

    def _comp(self, e, elt, env, depth, tag):
        env2 = dict(env)
        its = []
        for g in e.generators:
            it = self.expr(g.iter, env2, depth)
            bv = ("bv", self._fresh())
            self._bind(g.target, bv, env2)
            conds = tuple(self.expr(c, env2, depth) for c in g.ifs)
            its.append((bv, it, conds))
        v = self.expr(elt, env2, depth)
        out = v
        for bv, it, conds in reversed(its):
            out = mkcomp(tag, out, bv, it, conds)
        return out

    def _call(self, c, env, depth):
        prog = self.prog
        cn = call_name(c)
        args = tuple(self.expr(a, env, depth) for a in c.args)
        kws = tuple(sorted((k.arg or "**", self.expr(k.value, env, depth)) for k in c.keywords))
        # call of a local function / lambda whose body is known: substitute the arguments
        if isinstance(c.func, ast.Name) and c.func.id in env and env[c.func.id][0] == "fn" and not kws and len(env[c.func.id][1]) == len(args):
            _t, ps, body = env[c.func.id]
            for p_, a_ in zip(ps, args):
                body = _subst(body, p_, a_)
            return body
        if cn and self._ext_name(cn) in ("functools.partial", "partial") and args and args[0][0] == "func" and not kws and args[0][1] in prog.functions \
                and self.inline and depth < MAX_INLINE:
            # partial(f, a, b) is  lambda *rest: f(a, b, *rest)  with f's body in place
            tgt = prog.functions[args[0][1]]
            ps = [p for p in tgt.params if not (tgt.cls is not None and not tgt.is_static and p in ("self", "cls"))]
            given = args[1:]
            if len(given) <= len(ps) and not tgt.is_generator:
                rest = ps[len(given):]
                bound = dict(zip(ps, given))
                bvs = tuple(("bv", self._fresh()) for _ in rest)
                bound.update(dict(zip(rest, bvs)))
                sub = Sym(prog, tgt, tgt.cls, self.inline, self.stack)
                body = sub.function_value(bound, depth + 1)
                if body[0] not in ("opaque", "loop", "mutated"):
                    return ("fn", bvs, body)
        if cn == "map" and len(c.args) == 2 and not kws and isinstance(c.args[0], ast.Name) and c.args[0].id not in env \
                and c.args[0].id in ("len", "str", "int", "float", "abs", "bool") and args[1][0] in ("comp", "list", "name", "param", "self", "call", "method", "attr"):
            # map(len, xs) is [len(x) for x in xs]
            bv = ("bv", self._fresh())
            elt = ("len", bv) if c.args[0].id == "len" else ("str", bv) if c.args[0].id == "str" else ("call", c.args[0].id, (bv,), ())
            args = (mkcomp("comp", elt, bv, args[1], ()),)
            return args[0]
        if cn == "filter" and len(c.args) == 2 and not kws and isinstance(c.args[0], ast.Constant) and c.args[0].value is None:
            # filter(None, xs) is [x for x in xs if x]: the truth of each element decides
            bv = ("bv", self._fresh())
            return mkcomp("comp", bv, bv, args[1], (bv,))
        if cn == "sum" and len(args) >= 1 and args[0][0] == "comp":
            comp = args[0]
            start = args[1] if len(args) > 1 else ("const", 0)
            return self._binop("+", start, mkcomp("sum", comp[1], comp[2], comp[3], comp[4]))
        if cn == "len" and len(args) == 1:
            return ("len", args[0])
        if cn in ("list", "tuple") and len(args) == 1 and args[0][0] == "comp":
            return args[0]
        if cn == "str" and len(args) == 1:
            return ("str", args[0])
        # function of an imported external module:  np.piecewise(...), poly.polyval(...)
        if isinstance(c.func, ast.Attribute) and cn:
            head = cn.split(".")[0]
            tgt = self.fi.module.imports.get(head)
            if tgt and not tgt.startswith("nptdms") and head not in env:
                return ("call", self._ext_name(cn), args, kws)
        # method call on a value
        if isinstance(c.func, ast.Attribute):
            recv_d = dotted(c.func.value)
            if recv_d not in ("self", "cls"):
                r = prog.resolve_expr(self.fi.module, c.func)
                if not (r and r[0] == "func"):
                    base = self.expr(c.func.value, env, depth)
                    if base[0] == "class":
                        ci = prog.classes.get(base[1])
                        found = prog.lookup(ci, c.func.attr) if ci is not None else None
                        if found and found[0] == "method" and self.inline and depth < MAX_INLINE:
                            v = self._inline(found[2], c, args, kws, depth, ci)
                            if v is not None:
                                return v
                    if base[0] == "new" and self.inline and depth < MAX_INLINE and base[1] in prog.classes and prog.classes[base[1]].name.startswith("_"):
                        # method of a private helper object built on the spot:  _Helper(args).method(..)  -- the method's body with the
                        # fields the constructor stores replaced by what it stores (public classes stay opaque method calls)
                        ci = prog.classes[base[1]]
                        found = prog.lookup(ci, c.func.attr)
                        init = prog.lookup(ci, "__init__")
                        if found and found[0] == "method" and not found[2].is_static and not found[2].is_generator and init and init[0] == "method":
                            ini = init[2]
                            ips = [p_ for p_ in ini.params if p_ not in ("self", "cls")]
                            b_ = dict(zip(ips, base[2]))
                            b_.update(dict(base[3]))
                            for p_, d_ in ini.defaults.items():
                                if p_ not in b_:
                                    b_[p_] = Sym(prog, ini, ci).expr(d_, {}, depth + 1)
                            fenv = Sym(prog, ini, ci, self.inline, self.stack).env_at_end(bound=b_)
                            v = self._inline(found[2], c, args, kws, depth, ci)
                            if v is not None:
                                for k_, fv in fenv.items():
                                    if k_.startswith("self.") and fv[0] not in ("loop", "mutated", "opaque", "filled"):
                                        v = _subst(v, ("self", k_[5:]), fv)
                                for y in collect(v, lambda y: isinstance(y, tuple) and len(y) == 2 and y[0] == "self"):
                                    cv = prog.class_const(ci, y[1])
                                    if cv is not None and isinstance(cv, (int, float, str, bytes, bool)):
                                        v = _subst(v, y, ("const", cv))
                                if not contains(v, lambda y: isinstance(y, tuple) and len(y) == 2 and y[0] == "self"):
                                    return v
                    if base == ("param", "self") and self.origin_cls is not None and self.inline and depth < MAX_INLINE and self.fi.cls is None:
                        # a module helper that was handed the caller's `self`:  helper(self, ..) calling  obj.method()  on it
                        found = prog.lookup(self.origin_cls, c.func.attr)
                        if found and found[0] == "method" and not found[2].is_static and not found[2].is_generator:
                            v = self._inline(found[2], c, args, kws, depth, self.origin_cls)
                            if v is not None:
                                return v
                    if base[0] == "self" and len(base) == 2 and self.self_cls is not None and self.inline and depth < MAX_INLINE:
                        # method of a helper object the class keeps in a field that only ever holds instances of one package class
                        from .callgraph import field_classes
                        fc = field_classes(prog, self.self_cls).get(base[1])
                        found = prog.lookup(fc[0], c.func.attr) if fc else None
                        if found and found[0] == "method" and not found[2].is_static and not found[2].is_generator:
                            v = self._inline(found[2], c, args, kws, depth, fc[0], self_value=base)
                            if v is not None:
                                return v
                    if base[0] != "class" and self.inline and depth < MAX_INLINE and c.func.attr.startswith("_") and not c.func.attr.startswith("__"):
                        # private method of another object: inlined when exactly one class of the package defines it
                        cands = [m for m in prog.functions.values() if m.cls is not None and m.name == c.func.attr]
                        if len(cands) == 1 and not cands[0].is_static and not cands[0].is_generator:
                            v = self._inline(cands[0], c, args, kws, depth, cands[0].cls, self_value=base)
                            if v is not None:
                                return v
                    return norm_star(("method", c.func.attr, base, args, kws))
        # package helper
        target = None
        tcls = None
        if isinstance(c.func, ast.Attribute) and dotted(c.func.value) in ("self", "cls") and self.self_cls is not None:
            found = prog.lookup(self.self_cls, c.func.attr)
            if found and found[0] == "method":
                target, tcls = found[2], self.self_cls
        else:
            r = prog.resolve_expr(self.fi.module, c.func) if isinstance(c.func, (ast.Name, ast.Attribute)) else None
            if r and r[0] == "func":
                target = r[1]
            elif r and r[0] == "class":
                return ("new", r[1].qual, args, kws)
        if target is not None and self.inline and depth < MAX_INLINE:
            v = self._inline(target, c, args, kws, depth, tcls)
            if v is not None:
                return v
        if target is not None:
            return ("call", target.qual, args, kws)
        if isinstance(c.func, ast.Name) and c.func.id in env and len(args) == 1 and not kws and isinstance(env[c.func.id], tuple) and len(env[c.func.id]) == 4 \
                and env[c.func.id][0] == "call" and env[c.func.id][1] in ("operator.itemgetter", "itemgetter") and len(env[c.func.id][2]) == 1:
            return ("sub", args[0], env[c.func.id][2][0])          # itemgetter(k)(x) is x[k]
        if isinstance(c.func, ast.Name) and c.func.id in env and env[c.func.id][0] == "func" and env[c.func.id][1] in prog.functions:
            # call of a package function held in a local (e.g. taken from a table entry)
            tgt = prog.functions[env[c.func.id][1]]
            if tgt.cls is not None and not tgt.is_static and args and args[0] in (("param", "self"), ("name", "self")):
                # a method taken from the class body and called with self passed explicitly:  rule(self, x)
                args = args[1:]
                if self.inline and depth < MAX_INLINE:
                    v = self._inline(tgt, c, args, kws, depth, self.self_cls or tgt.cls)
                    if v is not None:
                        return v
                return ("call", tgt.qual, args, kws)
            if self.inline and depth < MAX_INLINE:
                v = self._inline(tgt, c, args, kws, depth, None)
                if v is not None:
                    return v
            return ("call", tgt.qual, args, kws)
        if isinstance(c.func, ast.Name) and c.func.id in env and env[c.func.id][0] == "class":
            return ("new", env[c.func.id][1], args, kws)
        if isinstance(c.func, ast.Name) and c.func.id in env and env[c.func.id][0] not in ("param", "name", "unbound"):
            # call of a callable held in a local:  cls = registry[key]; cls(a, b)
            return ("callv", env[c.func.id], args, kws)
        if isinstance(c.func, (ast.Subscript, ast.Call, ast.IfExp)):
            # call of a computed callable:  table[key](x)
            return ("callv", self.expr(c.func, env, depth), args, kws)
        return ("call", self._ext_name(cn) if cn else unparse(c.func), args, kws)

    def _ext_name(self, d):
        """dotted name with its first segment resolved through the module's imports (np -> numpy, poly -> numpy.polynomial.polynomial)"""
        head, _, rest = d.partition(".")
        tgt = self.fi.module.imports.get(head)
        if tgt and not tgt.startswith("nptdms"):
            return tgt + ("." + rest if rest else "")
        return d

    def _inline(self, target, c, args, kws, depth, tcls, self_value=None):
        # only small helpers are inlined: big functions stay opaque call nodes
        if target.qual in self.stack or sum(1 for _ in ast.walk(target.node)) > INLINE_MAX_NODES:
            return None
        params = list(target.params)
        if target.cls is not None and not target.is_static and params and params[0] in ("self", "cls"):
            params = params[1:]
        bound = {}
        for p, a in zip(params, args):
            bound[p] = a
        for k, v in kws:
            bound[k] = v
        for p, d in target.defaults.items():
            if p not in bound:
                bound[p] = Sym(self.prog, target, tcls).expr(d, {}, depth + 1)
        # big arguments (and all arguments when the callee's `self` is another object) are passed as placeholders, so that the size
        # limit applies to the helper's own normal form and field renaming does not touch the caller's values
        actual = {p: a for p, a in bound.items() if self_value is not None or size(a) > 24}
        for p in actual:
            bound[p] = ("ph", p)
        sub = Sym(self.prog, target, tcls or target.cls, self.inline, self.stack)
        sub.origin_cls = self.origin_cls
        v = sub.function_value(bound, depth + 1)
        if v[0] in ("opaque", "loop", "mutated"):
            return None            # the helper's result is not understood as a whole (parts may be opaque atoms)
        if size(v) > INLINE_MAX_RESULT:
            return None
        if self_value is not None:
            v = _rename_self(v, self_value)
        for p, a in actual.items():
            v = _subst(v, ("ph", p), a)
        return v


def _rename_self(v, base):
    if isinstance(v, tuple):
        if len(v) == 2 and v[0] == "self":
            return ("attr", base, v[1])
        return tuple(_rename_self(y, base) for y in v)
    return v


_GEN_CACHE = {}


def _yields_as_appends(fnode):
    """body of a generator function with every `yield v` statement replaced by `__yield__.append(v)` (and `yield from x` by
    `__yield__.extend(x)`); None when a yield is used as an expression or the generator returns early"""
    if id(fnode) in _GEN_CACHE:
        return _GEN_CACHE[id(fnode)]
    import copy
    ok = [True]

    class T(ast.NodeTransformer):
        def visit_FunctionDef(self, n):
            return n if n is not fnode_copy else self.generic_visit(n)

        def visit_Lambda(self, n):
            return n

        def visit_Expr(self, n):
            v = n.value
            if isinstance(v, (ast.Yield, ast.YieldFrom)) and v.value is not None:
                call = ast.Call(func=ast.Attribute(value=ast.Name(id="__yield__", ctx=ast.Load()), attr="append" if isinstance(v, ast.Yield) else "extend",
                                                   ctx=ast.Load()), args=[v.value], keywords=[])
                return ast.copy_location(ast.Expr(value=ast.copy_location(call, n)), n)
            return n

        def visit_Return(self, n):
            ok[0] = False
            return n
    fnode_copy = copy.deepcopy(fnode)
    T().visit(fnode_copy)
    ast.fix_missing_locations(fnode_copy)
    if any(isinstance(x, (ast.Yield, ast.YieldFrom)) for st in fnode_copy.body for x in ast.walk(st)):
        ok[0] = False
    res = fnode_copy.body if ok[0] else None
    _GEN_CACHE[id(fnode)] = res
    return res


INVERSE = {"is": "is not", "is not": "is", "==": "!=", "!=": "==", "in": "not in", "not in": "in"}


def mknot(c):
    """negation in normal form: double negations vanish, identity/equality/membership tests are inverted"""
    if isinstance(c, tuple) and c:
        if c[0] == "not":
            return c[1]
        if c[0] == "cmp" and c[1] in INVERSE:
            return ("cmp", INVERSE[c[1]], c[2], c[3])
        if c[0] == "const" and isinstance(c[1], bool):
            return ("const", not c[1])
    return ("not", c)


def _subst(v, old, new):
    if v == old:
        return new
    if isinstance(v, tuple):
        return tuple(_subst(y, old, new) for y in v)
    return v


def mkcomp(tag, elt, bv, it, conds):
    """comprehension / sum node; a comprehension over a comprehension is fused:
         [E(x) for x in [F(y) for y in S if c(y)] if d(x)]  ==  [E(F(y)) for y in S if c(y) if d(F(y))]"""
    conds = tuple(conds)
    if isinstance(it, tuple) and it and it[0] == "comp" and isinstance(bv, tuple) and bv[0] == "bv":
        _t, ielt, ibv, iit, iconds = it
        return mkcomp(tag, _subst(elt, bv, ielt), ibv, iit, tuple(iconds) + tuple(_subst(c, bv, ielt) for c in conds))
    return (tag, elt, bv, it, conds)


def _expand_star(v):
    """the sequence a starred argument spreads, as a literal list when it can be written out: a literal, a comprehension over a
    literal tuple; a conditional between such sequences stays a conditional"""
    if not (isinstance(v, tuple) and v):
        return None
    if v[0] in ("list", "tuple") and not any(isinstance(e, tuple) and e and e[0] == "splice" for e in v[1]):
        return ("list", tuple(v[1]))
    if v[0] == "phi":
        a, b = _expand_star(v[2]), _expand_star(v[3])
        return ("phi", v[1], a, b) if a is not None and b is not None else None
    if v[0] == "comp" and not v[4]:
        src = v[3]
        if src[0] in ("tuple", "list") and len(src[1]) <= 8 and not any(isinstance(e, tuple) and e and e[0] == "splice" for e in src[1]):
            return ("list", tuple(_subst(v[1], v[2], e) for e in src[1]))
        if src[0] == "phi":
            a = _expand_star(("comp", v[1], v[2], src[2], ()))
            b = _expand_star(("comp", v[1], v[2], src[3], ()))
            return ("phi", src[1], a, b) if a is not None and b is not None else None
    return None


def norm_star(term):
    """f(*seq) with a sequence that can be written out is f(a, b, ..); a conditional sequence gives a conditional call"""
    if not (isinstance(term, tuple) and term and term[0] in ("method", "call")):
        return term
    ai = 3 if term[0] == "method" else 2
    args = term[ai]
    for i, a in enumerate(args):
        if isinstance(a, tuple) and len(a) == 2 and a[0] == "star":
            seq = _expand_star(a[1])
            if seq is None:
                return term

            def build(sq):
                if sq[0] == "phi":
                    return mkphi(sq[1], build(sq[2]), build(sq[3]))
                new_args = tuple(args[:i]) + tuple(sq[1]) + tuple(args[i + 1:])
                return norm_star(term[:ai] + (new_args,) + term[ai + 1:])
            return build(seq)
    return term


def mktry(a, exc, b):
    """try node;  try: next(<generator>) except StopIteration: B   is the search  first(<generator>, else B)"""
    if exc == "StopIteration" and isinstance(a, tuple) and a and a[0] == "call" and a[1] == "next" and len(a[2]) == 1 and a[2][0][0] == "comp":
        return ("first", a[2][0], b)
    return ("try", a, exc, b)


def list_add(cur, method, v):
    """canonical list after  cur.append(v) / cur.extend(v);  conditionals distribute;  None when cur is not a list form"""
    if not isinstance(cur, tuple) or not cur:
        return None
    if cur[0] == "phi":
        a, b = list_add(cur[2], method, v), list_add(cur[3], method, v)
        if a is None or b is None:
            return None
        return mkphi(cur[1], a, b)
    if cur[0] == "comp":
        cur = ("list", (("splice", cur),))
    if cur[0] != "list":
        return None
    if method == "append":
        return _norm_list(("list", cur[1] + (v,)))
    return _norm_list(("list", cur[1] + v[1]) if v[0] == "list" else ("list", cur[1] + (("splice", v),)))


def item_of(value, i):
    """element i of a canonical value: tuples are indexed, conditionals distribute"""
    if isinstance(value, tuple) and value and value[0] == "tuple" and i < len(value[1]):
        return value[1][i]
    if isinstance(value, tuple) and value and value[0] == "phi":
        return mkphi(value[1], item_of(value[2], i), item_of(value[3], i))
    if isinstance(value, tuple) and len(value) == 4 and value[0] == "call" and value[1] == "divmod" and len(value[2]) == 2 and i in (0, 1):
        return ("binop", "//" if i == 0 else "%", (value[2][0], value[2][1]))      # divmod(a, b) == (a // b, a % b)
    return ("item", value, i)


def mkphi(test, a, b):
    if a == b:
        return a
    if test == ("const", True):
        return a
    if test == ("const", False):
        return b
    if a == ("const", True) and b == ("const", False):
        return test
    if a == ("const", False) and b == ("const", True):
        return mknot(test)
    if test and test[0] == "not":
        return mkphi(test[1], b, a)
    # a conditional whose one arm is a truth constant and whose other arm is a test is a conjunction / disjunction
    is_test = lambda v: isinstance(v, tuple) and v and v[0] in ("cmp", "and", "or", "not")
    if a == ("const", False) and is_test(b):
        return _flat("and", mknot(test), b)
    if b == ("const", False) and is_test(a):
        return _flat("and", test, a)
    if a == ("const", True) and is_test(b):
        return _flat("or", test, b)
    if b == ("const", True) and is_test(a):
        return _flat("or", mknot(test), a)
    return ("phi", test, a, b)


def _flat(tag, x, y):
    xs = x[1:] if x[0] == tag else (x,)
    ys = y[1:] if y[0] == tag else (y,)
    return (tag,) + tuple(xs) + tuple(ys)


def _learn(c, val, facts):
    """record what the truth of condition c tells about its atoms"""
    if not isinstance(c, tuple) or not c:
        return
    if c[0] == "not":
        _learn(c[1], not val, facts)
    elif c[0] in ("and", "or"):
        decisive = (c[0] == "and") == val        # and=True / or=False: every component has that value
        if decisive:
            for y in c[1:]:
                _learn(y, val, facts)
        else:
            orc = lambda a: facts.get(a)
            rest = [y for y in c[1:] if eval_cond(y, orc) is not (not val)]
            if len(rest) == 1:
                _learn(rest[0], val, facts)
    elif c[0] == "cmp" and c[1] in ("is not", "!="):
        facts[("cmp", "is" if c[1] == "is not" else "==", c[2], c[3])] = not val
    elif c[0] != "const":
        facts[c] = val


def simplify(x, oracle, facts=None):
    """resolve phi nodes whose test is decided by the oracle or by the tests of the enclosing phi nodes (path-sensitive: the
    same term denotes the same value within one evaluation)"""
    if not isinstance(x, tuple) or not x:
        return x
    facts = facts if facts is not None else {}
    if x[0] == "phi":
        def orc(a):
            r = oracle(a)
            return r if r is not None else facts.get(a)
        r = eval_cond(x[1], orc)
        if r is True:
            return simplify(x[2], oracle, facts)
        if r is False:
            return simplify(x[3], oracle, facts)
        ft, ff = dict(facts), dict(facts)
        _learn(x[1], True, ft)
        _learn(x[1], False, ff)
        return ("phi", simplify(x[1], oracle, facts), simplify(x[2], oracle, ft), simplify(x[3], oracle, ff))
    return tuple(simplify(y, oracle, facts) for y in x)


def _norm_list(v):
    """a list that is exactly one spliced comprehension is that comprehension"""
    if v[0] == "list" and len(v[1]) == 1 and isinstance(v[1][0], tuple) and v[1][0] and v[1][0][0] == "splice":
        return v[1][0][1]
    return v


def _strict_numeric(x):
    if x[0] == "const":
        return isinstance(x[1], (int, float)) and not isinstance(x[1], bool)
    if x[0] in ("len", "sum"):
        return True
    if x[0] == "binop" and x[1] in ("+", "-", "*", "//", "%", "**"):
        return any(_strict_numeric(t) for t in x[2])
    return False


def _numeric(x):
    return _strict_numeric(x) or x[0] in ("param", "self", "attr", "call", "item", "bv", "name", "phi", "sub", "method")


def size(x):
    if not isinstance(x, tuple):
        return 1
    return 1 + sum(size(y) for y in x)


def alpha(x, mapping=None):
    """Rename bound variables by order of appearance so that two normal forms can be compared."""
    mapping = mapping if mapping is not None else {}
    if isinstance(x, tuple):
        if len(x) == 2 and x[0] == "bv":
            if x[1] not in mapping:
                mapping[x[1]] = len(mapping)
            return ("bv", mapping[x[1]])
        return tuple(alpha(y, mapping) for y in x)
    return x


def same(a, b):
    return alpha(a) == alpha(b)


def contains(x, pred):
    if pred(x):
        return True
    if isinstance(x, tuple):
        return any(contains(y, pred) for y in x)
    return False


def collect(x, pred, out=None):
    out = out if out is not None else []
    if pred(x):
        out.append(x)
    if isinstance(x, tuple):
        for y in x:
            collect(y, pred, out)
    return out


def show(x, depth=0):
    if not isinstance(x, tuple):
        return repr(x)
    if not x:
        return "()"
    tag = x[0]
    if tag == "const":
        return repr(x[1])
    if tag in ("param", "name", "global", "self"):
        return ("self." if tag == "self" else "") + str(x[1])
    if tag == "bv":
        return "v%s" % x[1]
    if tag == "binop":
        return "(" + (" %s " % x[1]).join(show(t) for t in x[2]) + ")"
    if tag == "len":
        return "len(%s)" % show(x[1])
    if tag == "sum":
        return "sum(%s for %s in %s%s)" % (show(x[1]), show(x[2]), show(x[3]), "".join(" if " + show(c) for c in x[4]))
    if tag == "comp":
        return "[%s for %s in %s%s]" % (show(x[1]), show(x[2]), show(x[3]), "".join(" if " + show(c) for c in x[4]))
    if tag == "try":
        return "try(%s except %s: %s)" % (show(x[1]), x[2], show(x[3]))
    if tag == "filled":
        return "filled-in-loop(%s)" % show(x[1])
    if tag == "first":
        return "first(%s, else %s)" % (show(x[1]), show(x[2]))
    if tag == "phi":
        return "(%s if %s else %s)" % (show(x[2]), show(x[1]), show(x[3]))
    if tag == "attr":
        return "%s.%s" % (show(x[1]), x[2])
    if tag == "method":
        return "%s.%s(%s)" % (show(x[2]), x[1], ", ".join(show(a) for a in x[3]))
    if tag == "cmp":
        return "%s %s %s" % (show(x[2]), x[1], show(x[3]))
    if tag == "not":
        return "not (%s)" % show(x[1])
    if tag in ("and", "or"):
        return "(" + (" %s " % tag).join(show(y) for y in x[1:]) + ")"
    if tag == "item":
        return "%s[%s]" % (show(x[1]), x[2] if not isinstance(x[2], tuple) else show(x[2]))
    if tag == "callv":
        return "(%s)(%s)" % (show(x[1]), ", ".join(show(a) for a in x[2]))
    if tag in ("call", "new"):
        return "%s(%s)" % (x[1], ", ".join([show(a) for a in x[2]] + ["%s=%s" % (k, show(v)) for k, v in x[3]]))
    return "%s(%s)" % (tag, ", ".join(show(y) for y in x[1:]))


def eval_cond(c, oracle):
    """Three-valued evaluation of a canonical condition; oracle(atom) -> True/False/None for atoms it knows."""
    v = oracle(c)
    if v is not None:
        return v
    if not isinstance(c, tuple) or not c:
        return None
    if c[0] == "not":
        r = eval_cond(c[1], oracle)
        return None if r is None else (not r)
    if c[0] in ("and", "or"):
        vals = [eval_cond(x, oracle) for x in c[1:]]
        if c[0] == "and":
            if any(v is False for v in vals):
                return False
            return True if all(v is True for v in vals) else None
        if any(v is True for v in vals):
            return True
        return False if all(v is False for v in vals) else None
    if c[0] == "cmp" and c[1] in ("is", "is not") and len(c) == 4 and c[3] == ("const", None) and isinstance(c[2], tuple) and c[2] and c[2][0] == "phi":
        # (None if T else {...}) is None  holds exactly when T does: a conditional whose one arm is None and whose other arm is a
        # freshly built container or a non-None constant
        def is_none(v):
            if v == ("const", None):
                return True
            if isinstance(v, tuple) and v and (v[0] in ("dict", "list", "tuple", "comp", "dictcomp", "setcomp", "set") or (v[0] == "const" and v[1] is not None)):
                return False
            return None
        an, bn = is_none(c[2][2]), is_none(c[2][3])
        if an is not None and bn is not None and an != bn:
            r = eval_cond(c[2][1], oracle)
            if r is not None:
                res = an if r else bn
                return res if c[1] == "is" else (not res)
    if c[0] == "cmp" and c[1] in ("is not", "!="):
        r = oracle(("cmp", "is" if c[1] == "is not" else "==", c[2], c[3]))
        return None if r is None else (not r)
    if c[0] == "const":
        return bool(c[1])
    if c[0] == "call" and c[1] == "bool" and len(c) >= 3 and len(c[2]) == 1:
        return eval_cond(c[2][0], oracle)        # bool(x) holds exactly when x does
    return None


def select_path(paths, oracle):
    """the unique path of function_paths() whose guards all hold under the oracle (None if not unique/undecidable)"""
    hits = []
    for guards, val, env in paths:
        vals = [eval_cond(g, oracle) for g in guards]
        if any(v is False for v in vals):
            continue
        if any(v is None for v in vals):
            return None
        hits.append((guards, val, env))
    return hits[0] if len(hits) == 1 else None
