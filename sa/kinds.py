"""String-kind inference for object names and object paths (property C16).

Two kinds of strings identify TDMS objects: NAMEs (group / channel names as the user gives them) and PATHs
(the encoded form  /'group'/'channel'  with quotes doubled).  A third kind, OBJ, is an ObjectPath instance.
The inference is a unification (equality-constraint) analysis over the whole package:

  * every local, parameter, return value and field is a node; containers have an element/key child node,
    tuples have positional child nodes; assignments, argument passing, returns, iteration and indexing
    unify nodes (children congruently);
  * the only seeds are the encoder and the decoder of common.py: the encoder's parameters are NAMEs and its
    result is a PATH; the decoder's parameter is a PATH and it yields NAMEs; ObjectPath(...) is an OBJ and
    str(OBJ) is a PATH; the literal '/' is the PATH of the root object;
  * a conflict is a unification of two different kinds; it is reported with the chain of flows that connects
    the two seeds.

Names of variables, fields and functions play no role: kinds are inferred from the flows.
"""
import ast
from collections import deque

from .core import dotted, call_name, walk_body, unparse
from .flow import resolve_call

NAME, PATH, OBJ = "NAME", "PATH", "OBJ"
CONTAINER_READ = {"get", "pop", "setdefault"}
ELEMENT_ADD = {"add", "append", "remove", "discard"}
CONTAINER_MERGE = {"update", "extend", "union", "difference", "intersection", "issubset", "issuperset", "difference_update", "intersection_update",
                   "symmetric_difference", "__or__", "__sub__"}


class Conflict:
    def __init__(self, a, b, why, where):
        self.a, self.b, self.why, self.where = a, b, why, where


class QualInfer:
    """Generic unification engine: subclasses provide the seeds and a few hooks (constants, special calls, arithmetic)."""
    opaque_modules = frozenset()
    analysed_modules = None       # None = every module that is not opaque
    keys_have_kinds = True        # subscript indices are of the container's key kind (False: plain integer positions)
    arithmetic = False            # sums, differences and ordering comparisons relate quantities of one kind

    def __init__(self, ctx):
        self.ctx = ctx
        self.prog = ctx.prog
        self.parent = {}
        self.const = {}        # rep -> (kind, origin text)
        self.children = {}     # rep -> {label: node}
        self.adj = {}          # node -> [(node, why, where)]
        self.conflicts = []
        self.names = {}        # key -> node
        self.origin = {}       # node -> description
        self.pending = []      # deferred constraints
        self.accesses = []     # (fi, ast node, key node, container node, text)
        self.parses = []       # (fi, ast node, receiver node, method)
        self.n_nodes = 0
        self.analysed = []
        self.skip = set()
        self._fields = None
        self.setup()
        self._seed()
        self._generate()
        self._solve_pending()

    # hooks -------------------------------------------------------------------------------------------------
    def setup(self):
        pass

    def is_analysed(self, fi):
        """is this function part of the analysis (its body generates constraints, calls into it bind arguments)"""
        if fi.qual in self.skip or fi.module.name in self.opaque_modules:
            return False
        return self.analysed_modules is None or fi.module.name in self.analysed_modules

    def _seed(self):
        pass

    def constant(self, gen, e):
        """node for a constant expression, or None"""
        return None

    def special_call(self, gen, c, args):
        """-> (handled, node) for calls with a meaning of their own in this analysis"""
        return False, None

    def binop(self, gen, e, a, b):
        """node for an arithmetic expression, or None"""
        return None

    def constructed(self, gen, c, rcls, res):
        """a class instance was created"""
        return

    def solve_item(self, item, rounds):
        """deferred constraint of the subclass -> True when resolved"""
        return False

    def receiver_class(self, recv):
        """class of the object a node denotes, when the analysis knows it"""
        return None

    # ---------------------------------------------------------------- union-find
    def new(self, desc=None):
        self.n_nodes += 1
        n = self.n_nodes
        self.parent[n] = n
        if desc:
            self.origin[n] = desc
        return n

    def find(self, x):
        while self.parent[x] != x:
            self.parent[x] = self.parent[self.parent[x]]
            x = self.parent[x]
        return x

    def named(self, key, desc=None):
        if key not in self.names:
            self.names[key] = self.new(desc or " ".join(str(k) for k in key))
        return self.names[key]

    def child(self, x, label):
        r = self.find(x)
        ch = self.children.setdefault(r, {})
        if label not in ch:
            ch[label] = self.new("%s of %s" % ({"k": "element/key"}.get(label, "item %s" % label), self.origin.get(x, "?")))
        return ch[label]

    def union(self, a, b, why, where):
        if a is None or b is None:
            return
        self.adj.setdefault(a, []).append((b, why, where))
        self.adj.setdefault(b, []).append((a, why, where))
        ra, rb = self.find(a), self.find(b)
        if ra == rb:
            return
        ca, cb = self.const.get(ra), self.const.get(rb)
        if ca and cb and ca[0] != cb[0]:
            self.conflicts.append(Conflict(a, b, why, where))
            return                      # keep the classes apart: one report per meeting point
        self.parent[rb] = ra
        if cb and not ca:
            self.const[ra] = cb
        cha, chb = self.children.get(ra, {}), self.children.pop(rb, {})
        for label, n in chb.items():
            if label in cha:
                self.union(cha[label], n, "same container (%s)" % why, where)
            else:
                self.children.setdefault(ra, {})[label] = n

    def seed(self, x, kind, origin, where):
        c = self.new("%s: %s" % (kind, origin))
        self.const[c] = (kind, origin, c)
        self.union(x, c, origin, where)

    def kind(self, x):
        if x is None:
            return None
        c = self.const.get(self.find(x))
        return c[0] if c else None

    def explain(self, a, b):
        """shortest chain of flows between the seed of a's class and the seed of b's class through the meeting point a-b"""
        def to_seed(start):
            target = self.const.get(self.find(start))
            if not target:
                return []
            goal = target[2]
            prev = {start: None}
            dq = deque([start])
            while dq:
                x = dq.popleft()
                if x == goal:
                    break
                for y, why, where in self.adj.get(x, []):
                    if y not in prev and self.find(y) == self.find(start):
                        prev[y] = (x, why, where)
                        dq.append(y)
            out = []
            x = goal
            while x in prev and prev[x] is not None:
                p, why, where = prev[x]
                out.append("%s @ %s" % (why, where))
                x = p
            return out
        left = to_seed(a)
        right = to_seed(b)
        return list(left) + ["<meets>"] + list(reversed(right))

    # ---------------------------------------------------------------- fields
    def fields(self):
        """{attr: [ClassInfo that stores self.attr or defines a property attr]}"""
        if self._fields is None:
            out = {}
            for ci in self.prog.classes.values():
                if ci.module.name in self.opaque_modules:
                    continue
                for m in ci.methods.values():
                    if m.is_property:
                        out.setdefault(m.name, set()).add(ci)
                    for n in walk_body(m.node):
                        if isinstance(n, ast.Attribute) and isinstance(n.ctx, ast.Store) and dotted(n.value) == "self":
                            out.setdefault(n.attr, set()).add(ci)
            self._fields = out
        return self._fields

    def field_owner(self, ci, attr):
        """the class of ci's MRO, furthest from ci, that defines attr (so that subclasses share the field)"""
        cands = self.fields().get(attr, set())
        owner = None
        for k in self.prog.mro(ci):
            if k in cands:
                owner = k
        return owner

    def field_node(self, ci, attr):
        owner = self.field_owner(ci, attr)
        if owner is None:
            return None
        m = owner.methods.get(attr)
        if m is not None and m.is_property:
            return self.named(("r", m.qual), "result of property %s" % m.qual)
        return self.named(("f", owner.qual, attr), "field %s.%s" % (owner.qual, attr))

    # ---------------------------------------------------------------- constraint generation
    def _generate(self):
        for fi in sorted(self.prog.functions.values(), key=lambda f: f.qual):
            if not self.is_analysed(fi):
                continue
            self.analysed.append(fi.qual)
            Gen(self, fi).run()

    def _solve_pending(self):
        progress = True
        rounds = 0
        while (progress or rounds < 3) and rounds < 20:
            progress = False
            rounds += 1
            rest = []
            for item in self.pending:
                if item[0] != "attr":
                    if self.solve_item(item, rounds):
                        progress = True
                    else:
                        rest.append(item)
                elif item[0] == "attr":
                    _t, res, recv, attr, cands, where = item
                    rc = self.receiver_class(recv)
                    if rc is not None:
                        n = self.field_node(rc, attr)
                        if n is not None:
                            self.union(res, n, "attribute .%s of a %s" % (attr, rc.name), where)
                        progress = True
                    else:
                        kinds = {self.kind(self.field_node(c, attr)) for c in cands}
                        kinds.discard(None)
                        kinds.discard(OBJ) if len(kinds) > 1 else None
                        if len(kinds) == 1 and rounds >= 2:
                            # every class that has this attribute and whose kind is known agrees
                            kk = kinds.pop()
                            src = [c for c in cands if self.kind(self.field_node(c, attr)) == kk][0]
                            self.union(res, self.field_node(src, attr), "attribute .%s (as in %s)" % (attr, src.qual), where)
                            progress = True
                        else:
                            rest.append(item)
            self.pending = rest


class Kinds(QualInfer):
    opaque_modules = frozenset({"types", "timestamp", "scaling", "thermocouples", "utils", "log", "version"})

    def __init__(self, ctx, encoder="common._components_to_path", decoder="common._path_components", path_class="common.ObjectPath"):
        self._enc, self._dec, self._pc = encoder, decoder, path_class
        super().__init__(ctx)

    def setup(self):
        from .sem import module_region
        prog = self.prog
        from .rules_paths import find_path_encoder
        self.encoder = find_path_encoder(prog) if self._enc == "common._components_to_path" else prog.func(self._enc)
        self.decoder = prog.func(self._dec)
        self.path_cls = prog.cls(self._pc)
        # the encoder and the decoder themselves are string manipulation: trusted here, examined by PT1/PT3
        self.skip = {f.qual for f in module_region(prog, self.encoder)} | {f.qual for f in module_region(prog, self.decoder)}

    def constant(self, gen, e):
        if e.value == "/":
            n = self.new("literal '/'")
            self.seed(n, PATH, "the literal '/' (path of the root object)", gen.where(e))
            return n
        return None

    def special_call(self, gen, c, args):
        f = c.func
        if isinstance(f, ast.Attribute) and f.attr == "normalize" and dotted(f.value) == "unicodedata" and len(args) == 3:
            # (args = receiver, form, string)  a string rewritten into another string of the same kind: distinct names / paths can become equal
            n = args[2] if args[2] is not None else self.new("`%s`" % unparse(c)[:40])
            self.parses.append((gen.fi, c, n, "normalize"))
            return True, n
        if isinstance(f, ast.Name) and f.id == "str" and len(args) == 1 and args[0] is not None and f.id not in gen.scope \
                and self.prog.resolve_name(gen.fi.module, f.id) is None:
            res = self.new("`%s`" % unparse(c)[:40])
            self.pending.append(("str", res, args[0], gen.where(c)))
            return True, res
        return False, None

    def binop(self, gen, e, a, b):
        if isinstance(e.op, (ast.BitOr, ast.Sub, ast.BitAnd, ast.BitXor)) and a is not None and b is not None:
            self.union(a, b, "set operation `%s`" % unparse(e)[:40], gen.where(e))     # set algebra keeps the element kind
            return a
        return None

    def constructed(self, gen, c, rcls, res):
        if rcls is not None and self.path_cls in self.prog.mro(rcls):
            self.seed(res, OBJ, "an ObjectPath instance", gen.where(c))

    def solve_item(self, item, rounds):
        if item[0] == "str":
            _t, res, arg, where = item
            k = self.kind(arg)
            if k == OBJ:
                self.seed(res, PATH, "str() of an ObjectPath", where)
                return True
            if k in (NAME, PATH):
                self.union(res, arg, "str() of a string", where)
                return True
        return False

    def receiver_class(self, recv):
        return self.path_cls if self.kind(recv) == OBJ else None

    # ---------------------------------------------------------------- seeds
    def _seed(self):
        enc, dec = self.encoder, self.decoder
        w = enc.where()
        self.seed(self.named(("r", enc.qual), "result of the path encoder"), PATH, "result of the encoder %s" % enc.qual, w)
        for p in enc.params:
            self.seed(self.named(("v", enc.qual, p), "parameter %s of the encoder" % p), NAME, "parameter `%s` of the encoder %s" % (p, enc.qual), w)
        if enc.node.args.vararg is not None:
            v = self.named(("v", enc.qual, enc.node.args.vararg.arg))
            self.seed(self.child(v, "k"), NAME, "components given to the encoder %s" % enc.qual, w)
        w = dec.where()
        for p in dec.params[:1]:
            self.seed(self.named(("v", dec.qual, p), "parameter %s of the decoder" % p), PATH, "parameter `%s` of the decoder %s" % (p, dec.qual), w)
        self.seed(self.child(self.named(("r", dec.qual), "result of the path decoder"), "k"), NAME, "components yielded by the decoder %s" % dec.qual, w)


class Gen:
    """constraint generation for one function"""

    def __init__(self, K, fi):
        self.K = K
        self.fi = fi
        self.prog = K.prog
        self.scope = {}     # comprehension-local names -> node
        self.defs = {}      # local name -> frozenset of definition nodes reaching the current point
        self.seen_access = set()

    def where(self, n):
        return self.fi.where(n)

    def param(self, name):
        return self.K.named(("v", self.fi.qual, name), "`%s` in %s" % (name, self.fi.qual))

    def var(self, name):
        """node of a use of a local: the definitions reaching this point flow together here"""
        if name in self.scope:
            return self.scope[name]
        ds = self.defs.get(name)
        if not ds:
            return self.param(name)
        ds = sorted(ds)
        for d in ds[1:]:
            self.K.union(ds[0], d, "definitions of `%s` reaching the same use in %s" % (name, self.fi.qual), self.fi.where())
        return ds[0]

    def define(self, name, lineno):
        n = self.K.named(("v", self.fi.qual, name, lineno), "`%s` in %s (line %d)" % (name, self.fi.qual, lineno))
        self.defs[name] = frozenset([n])
        return n

    def merge(self, *envs):
        out = {}
        for e in envs:
            for k, v in e.items():
                out[k] = out.get(k, frozenset()) | v
        return out

    def run(self):
        fi = self.fi
        a = fi.node.args
        for p in fi.params:
            self.defs[p] = frozenset([self.param(p)])
        if a.vararg is not None:
            self.defs[a.vararg.arg] = frozenset([self.param(a.vararg.arg)])
            self.K.child(self.param(a.vararg.arg), "k")
        if a.kwarg is not None:
            self.defs[a.kwarg.arg] = frozenset([self.param(a.kwarg.arg)])
        self.block(fi.node.body)

    # -- statements
    def block(self, stmts):
        for s in stmts:
            self.stmt(s)

    def stmt(self, s):
        K = self.K
        if isinstance(s, ast.Assign):
            v = self.expr(s.value)
            for t in s.targets:
                self.assign(t, v, s)
        elif isinstance(s, ast.AnnAssign) and s.value is not None:
            self.assign(s.target, self.expr(s.value), s)
        elif isinstance(s, ast.AugAssign):
            v = self.expr(s.value)
            if K.arithmetic and isinstance(s.op, (ast.Add, ast.Sub)) and isinstance(s.target, ast.Name) and v is not None:
                K.union(self.var(s.target.id), v, "`%s`" % unparse(s)[:50], self.where(s))
        elif isinstance(s, ast.Return):
            if s.value is not None:
                v = self.expr(s.value)
                K.union(K.named(("r", self.fi.qual), "result of %s" % self.fi.qual), v, "returned by %s" % self.fi.qual, self.where(s))
        elif isinstance(s, ast.Expr):
            if isinstance(s.value, (ast.Yield, ast.YieldFrom)):
                if s.value.value is not None:
                    v = self.expr(s.value.value)
                    r = K.named(("r", self.fi.qual), "result of %s" % self.fi.qual)
                    if isinstance(s.value, ast.Yield):
                        K.union(K.child(r, "k"), v, "yielded by %s" % self.fi.qual, self.where(s))
                    else:
                        K.union(r, v, "yielded from in %s" % self.fi.qual, self.where(s))
            else:
                self.expr(s.value)
        elif isinstance(s, ast.For):
            it = self.expr(s.iter)
            env0 = dict(self.defs)
            self.bind_iter(s.target, s.iter, it, s)
            self.block(s.body)
            # definitions made in the body reach the next iteration
            self.defs = self.merge(env0, self.defs)
            self.bind_iter(s.target, s.iter, it, s)
            self.block(s.body)
            self.defs = self.merge(env0, self.defs)
            self.block(s.orelse)
        elif isinstance(s, ast.While):
            env0 = dict(self.defs)
            self.expr(s.test)
            self.block(s.body)
            self.defs = self.merge(env0, self.defs)
            self.expr(s.test)
            self.block(s.body)
            self.defs = self.merge(env0, self.defs)
            self.block(s.orelse)
        elif isinstance(s, ast.If):
            self.expr(s.test)
            env0 = dict(self.defs)
            self.block(s.body)
            env1 = self.defs
            self.defs = dict(env0)
            self.block(s.orelse)
            self.defs = self.merge(env1, self.defs)
        elif isinstance(s, (ast.With, ast.AsyncWith)):
            for it in s.items:
                v = self.expr(it.context_expr)
                if it.optional_vars is not None:
                    self.assign_node(it.optional_vars, v, s) if v is not None else None
            self.block(s.body)
        elif isinstance(s, ast.Try):
            env0 = dict(self.defs)
            self.block(s.body)
            env_body = self.defs
            outs = []
            for h in s.handlers:
                self.defs = self.merge(env0, env_body)
                self.block(h.body)
                outs.append(self.defs)
            self.defs = dict(env_body)
            self.block(s.orelse)
            self.defs = self.merge(self.defs, *outs)
            self.block(s.finalbody)
        elif isinstance(s, (ast.Raise, ast.Assert)):
            for x in ast.iter_child_nodes(s):
                if isinstance(x, ast.expr):
                    self.expr(x)
        elif isinstance(s, ast.Delete):
            for t in s.targets:
                self.expr(t)

    def assign(self, t, v, s):
        K = self.K
        if isinstance(t, ast.Name):
            n = self.define(t.id, s.lineno)
            K.union(n, v, "`%s = %s`" % (t.id, unparse(s.value)[:50] if hasattr(s, "value") and s.value is not None else "..."), self.where(s))
        elif isinstance(t, (ast.Tuple, ast.List)):
            for i, e in enumerate(t.elts):
                if isinstance(e, ast.Starred):
                    continue
                self.assign_node(e, K.child(v, i) if v is not None else None, s)
        elif isinstance(t, ast.Attribute):
            n = self.attr_node(t, store=True)
            K.union(n, v, "`%s = ...`" % unparse(t)[:40], self.where(s))
        elif isinstance(t, ast.Subscript):
            base = self.expr(t.value)
            if base is not None and not isinstance(t.slice, (ast.Slice, ast.Tuple)):
                k = self.expr(t.slice)
                self.access(t, k, base, store=True)
                if v is not None:
                    K.union(K.child(base, "v"), v, "stored in `%s`" % unparse(t)[:40], self.where(s))

    def assign_node(self, t, node, s):
        K = self.K
        if isinstance(t, ast.Name):
            n = self.scope[t.id] if t.id in self.scope else self.define(t.id, getattr(s, "lineno", 0))
            K.union(n, node, "unpacked into `%s`" % t.id, self.where(s))
        elif isinstance(t, (ast.Tuple, ast.List)):
            for i, e in enumerate(t.elts):
                self.assign_node(e.value if isinstance(e, ast.Starred) else e, K.child(node, i) if node is not None else None, s)
        elif isinstance(t, ast.Attribute):
            K.union(self.attr_node(t, store=True), node, "unpacked into `%s`" % unparse(t), self.where(s))

    def bind_iter(self, target, iter_expr, it, s):
        """for target in iter_expr"""
        K = self.K
        self.assign_node(target, K.child(it, "k") if it is not None else None, s)

    def access(self, node, k, base, store=False):
        """key k used with container base"""
        K = self.K
        if k is None or base is None:
            return
        if id(node) not in self.seen_access:
            self.seen_access.add(id(node))
            K.accesses.append((self.fi, node, k, K.child(base, "k"), unparse(node)[:60]))
        if K.keys_have_kinds or not isinstance(node, ast.Subscript):
            K.union(K.child(base, "k"), k, "key of `%s`" % unparse(node)[:50], self.where(node))

    # -- expressions: -> node or None
    def attr_node(self, e, store=False):
        K = self.K
        recv = dotted(e.value)
        if recv == "self" and self.fi.cls is not None:
            n = K.field_node(self.fi.cls, e.attr)
            if n is None and store:
                n = K.named(("f", self.fi.cls.qual, e.attr), "field %s.%s" % (self.fi.cls.qual, e.attr))
            return n
        res = K.new("`%s` in %s" % (unparse(e)[:40], self.fi.qual))
        rv = self.expr(e.value)
        cands = K.fields().get(e.attr, set())
        if rv is not None and cands:
            K.pending.append(("attr", res, rv, e.attr, sorted(cands, key=lambda c: c.qual), self.where(e)))
        return res

    def expr(self, e):
        K = self.K
        if e is None:
            return None
        if isinstance(e, ast.Constant):
            return K.constant(self, e)
        if isinstance(e, ast.Name):
            r = self.prog.resolve_name(self.fi.module, e.id) if e.id not in self.scope else None
            if e.id in self.scope or not (r and r[0] in ("class", "func", "module")):
                return self.var(e.id)
            return None
        if isinstance(e, ast.Attribute):
            return self.attr_node(e)
        if isinstance(e, ast.Subscript):
            base = self.expr(e.value)
            if isinstance(e.slice, ast.Slice):
                for x in (e.slice.lower, e.slice.upper, e.slice.step):
                    self.expr(x)
                if base is not None:
                    K.parses.append((self.fi, e, base, "slice"))
                return K.new("slice `%s`" % unparse(e)[:40]) if base is not None else None
            idx = e.slice
            if base is None or isinstance(idx, ast.Tuple):
                self.expr(idx)       # no container known / multi-dimensional (array) indexing
                return None
            if isinstance(idx, ast.Constant) and isinstance(idx.value, int) and not isinstance(idx.value, bool) and -4 <= idx.value < 4:
                # element of a homogeneous sequence (element kind known) or positional item of a tuple
                if "k" in K.children.get(K.find(base), {}):
                    return K.child(base, "k")
                return K.child(base, idx.value if idx.value >= 0 else "last%d" % -idx.value)
            k = self.expr(idx)
            self.access(e, k, base)
            return K.child(base, "v")
        if isinstance(e, ast.Call):
            return self.call(e)
        if isinstance(e, (ast.Tuple,)):
            n = K.new("tuple `%s`" % unparse(e)[:40])
            for i, x in enumerate(e.elts):
                v = self.expr(x)
                if v is not None:
                    K.union(K.child(n, i), v, "item %d of `%s`" % (i, unparse(e)[:40]), self.where(e))
            return n
        if isinstance(e, (ast.List, ast.Set)):
            n = K.new("collection `%s`" % unparse(e)[:40])
            K.union(K.child(n, "k"), K.child(n, "v"), "elements of a sequence", self.where(e))
            for x in e.elts:
                v = self.expr(x.value if isinstance(x, ast.Starred) else x)
                if v is not None:
                    K.union(K.child(n, "k") if not isinstance(x, ast.Starred) else n, v, "element of `%s`" % unparse(e)[:40], self.where(e))
            return n
        if isinstance(e, ast.Dict):
            n = K.new("dict literal")
            for k, v in zip(e.keys, e.values):
                kk = self.expr(k)
                vv = self.expr(v)
                if kk is not None:
                    K.union(K.child(n, "k"), kk, "key of a dict literal", self.where(e))
                if vv is not None:
                    K.union(K.child(n, "v"), vv, "value of a dict literal", self.where(e))
            return n
        if isinstance(e, (ast.ListComp, ast.SetComp, ast.GeneratorExp, ast.DictComp)):
            saved = dict(self.scope)
            for g in e.generators:
                it = self.expr(g.iter)
                for nm in [x.id for x in ast.walk(g.target) if isinstance(x, ast.Name)]:
                    self.scope[nm] = K.new("`%s` in a comprehension of %s" % (nm, self.fi.qual))
                if it is not None:
                    self.assign_node(g.target, K.child(it, "k"), e)
                for c in g.ifs:
                    self.expr(c)
            n = K.new("comprehension `%s`" % unparse(e)[:40])
            if isinstance(e, ast.DictComp):
                kk, vv = self.expr(e.key), self.expr(e.value)
                if kk is not None:
                    K.union(K.child(n, "k"), kk, "key of `%s`" % unparse(e)[:40], self.where(e))
                if vv is not None:
                    K.union(K.child(n, "v"), vv, "value of `%s`" % unparse(e)[:40], self.where(e))
            else:
                K.union(K.child(n, "k"), K.child(n, "v"), "elements of a sequence", self.where(e))
                v = self.expr(e.elt)
                if v is not None:
                    K.union(K.child(n, "k"), v, "element of `%s`" % unparse(e)[:40], self.where(e))
            self.scope = saved
            return n
        if isinstance(e, ast.IfExp):
            self.expr(e.test)
            a, b = self.expr(e.body), self.expr(e.orelse)
            if a is not None and b is not None:
                K.union(a, b, "both arms of `%s`" % unparse(e)[:40], self.where(e))
            return a if a is not None else b
        if isinstance(e, ast.BoolOp):
            vs = [self.expr(v) for v in e.values]
            vs = [v for v in vs if v is not None]
            if isinstance(e.op, ast.Or) and len(vs) > 1:
                for v in vs[1:]:
                    K.union(vs[0], v, "alternatives of `%s`" % unparse(e)[:40], self.where(e))
                return vs[0]
            return None
        if isinstance(e, ast.Compare):
            left = self.expr(e.left)
            for op, c in zip(e.ops, e.comparators):
                right = self.expr(c)
                if isinstance(op, (ast.In, ast.NotIn)):
                    self.access(e, left, right)
                elif (isinstance(op, (ast.Eq, ast.NotEq)) or K.arithmetic) and left is not None and right is not None:
                    K.union(left, right, "compared in `%s`" % unparse(e)[:50], self.where(e))
                left = right
            return None
        if isinstance(e, ast.BinOp):
            a, b = self.expr(e.left), self.expr(e.right)
            r = K.binop(self, e, a, b)
            if r is not None:
                return r
            return None
        if isinstance(e, ast.UnaryOp):
            self.expr(e.operand)
            return None
        if isinstance(e, ast.Starred):
            return self.expr(e.value)
        if isinstance(e, ast.Lambda):
            return None
        if isinstance(e, ast.JoinedStr):
            for v in e.values:
                if isinstance(v, ast.FormattedValue):
                    self.expr(v.value)
            return None
        if isinstance(e, (ast.Yield, ast.YieldFrom, ast.Await)):
            return self.expr(e.value) if e.value is not None else None
        if isinstance(e, ast.NamedExpr):
            v = self.expr(e.value)
            K.union(self.define(e.target.id, e.lineno), v, "`%s := ...`" % e.target.id, self.where(e))
            return v
        return None

    def call(self, c):
        K = self.K
        prog = self.prog
        cn = call_name(c)
        f = c.func
        # builtins that keep or convert kinds
        if isinstance(f, ast.Name) and f.id not in self.scope and prog.resolve_name(self.fi.module, f.id) is None:
            args = [self.expr(a) for a in c.args]
            for k in c.keywords:
                self.expr(k.value)
            handled, node = K.special_call(self, c, args)
            if handled:
                return node
            if f.id in ("set", "list", "tuple", "sorted", "frozenset", "reversed", "iter") and args and args[0] is not None:
                return args[0]
            if f.id == "next" and args and args[0] is not None:
                return K.child(args[0], "k")
            if f.id in ("dict", "OrderedDict") and args and args[0] is not None:
                return args[0]
            if f.id == "enumerate" and args and args[0] is not None:
                n = K.new("enumerate(...)")
                K.union(K.child(K.child(n, "k"), 1), K.child(args[0], "k"), "enumerate", self.where(c))
                return n
            if f.id == "zip" and args:
                n = K.new("zip(...)")
                for i, a in enumerate(args):
                    if a is not None:
                        K.union(K.child(K.child(n, "k"), i), K.child(a, "k"), "zip", self.where(c))
                return n
            if f.id in ("min", "max") and len(args) == 1 and args[0] is not None:
                return K.child(args[0], "k")
            if f.id in ("min", "max") and len(args) > 1:
                known = [a for a in args if a is not None]
                for a in known[1:]:
                    K.union(known[0], a, "operands of `%s`" % unparse(c)[:40], self.where(c))
                return known[0] if known else None
            if f.id in ("int", "float", "abs") and len(args) == 1:
                return args[0]
            return None
        # methods of containers and strings
        if isinstance(f, ast.Attribute):
            targets = resolve_call(prog, self.fi, self.fi.cls, c)
            is_pkg = bool(targets) and not (f.attr in CONTAINER_READ | ELEMENT_ADD | CONTAINER_MERGE | {"items", "keys", "values", "copy"} and len(targets) > 1)
            if not is_pkg or not targets:
                recv = self.expr(f.value)
                args = [self.expr(a) for a in c.args]
                for k in c.keywords:
                    self.expr(k.value)
                handled, node = K.special_call(self, c, [recv] + args)
                if handled:
                    return node
                if recv is None:
                    return None
                if f.attr in CONTAINER_READ and args:
                    self.access(c, args[0], recv)
                    v = K.child(recv, "v")
                    if f.attr in ("get", "setdefault", "pop") and len(args) > 1 and args[1] is not None:
                        K.union(v, args[1], "default of `%s`" % unparse(c)[:40], self.where(c))
                    return v
                if f.attr in ELEMENT_ADD and args:
                    if args[0] is not None:
                        K.union(K.child(recv, "k"), args[0], "`%s`" % unparse(c)[:50], self.where(c))
                    return None
                if f.attr in CONTAINER_MERGE:
                    for a in args:
                        if a is not None:
                            K.union(recv, a, "`%s`" % unparse(c)[:50], self.where(c))
                    return recv
                if f.attr == "items":
                    n = K.new("`%s`" % unparse(c)[:40])
                    K.union(K.child(K.child(n, "k"), 0), K.child(recv, "k"), "keys of `%s`" % unparse(c)[:40], self.where(c))
                    K.union(K.child(K.child(n, "k"), 1), K.child(recv, "v"), "values of `%s`" % unparse(c)[:40], self.where(c))
                    return n
                if f.attr == "keys":
                    return recv
                if f.attr == "values":
                    n = K.new("`%s`" % unparse(c)[:40])
                    K.union(K.child(n, "k"), K.child(recv, "v"), "values of `%s`" % unparse(c)[:40], self.where(c))
                    return n
                if f.attr == "copy":
                    return recv
                if f.attr in ("split", "rsplit", "strip", "lstrip", "rstrip", "partition", "rpartition", "startswith", "endswith", "find", "index", "rfind",
                              "lower", "upper", "replace", "title", "casefold", "translate", "capitalize", "swapcase", "expandtabs", "splitlines"):
                    K.parses.append((self.fi, c, recv, f.attr))
                    return None
                return None
        else:
            targets = resolve_call(prog, self.fi, self.fi.cls, c) if isinstance(f, (ast.Name,)) else []
        # package callees
        args = [(a, self.expr(a.value if isinstance(a, ast.Starred) else a)) for a in c.args]
        kws = [(k.arg, self.expr(k.value)) for k in c.keywords]
        targets = [(t, k) for t, k in targets if K.is_analysed(t) or t.qual in K.skip]
        if not targets:
            return None
        # unrelated by-name candidates: no constraint
        if len(targets) > 1:
            roots = set()
            for t, k in targets:
                owner = t.cls
                for b in prog.mro(owner) if owner is not None else []:
                    if t.name in b.methods:
                        root = b
                roots.add(root.qual if owner is not None else t.qual)
            if len(roots) > 1:
                return None
        res = None
        is_ctor = False
        rcls = None
        if isinstance(f, (ast.Name, ast.Attribute)):
            rcls = prog.resolve_class(self.fi.module, f) if not (isinstance(f, ast.Attribute) and dotted(f.value) in ("self", "cls")) else None
            is_ctor = rcls is not None
        for t, k in targets:
            ps = list(t.params)
            if t.cls is not None and not t.is_static and ps and ps[0] in ("self", "cls"):
                ps = ps[1:]
            va = t.node.args.vararg.arg if t.node.args.vararg is not None else None
            i = 0
            for a, v in args:
                if isinstance(a, ast.Starred):
                    if va is not None and v is not None and i >= len(ps):
                        K.union(K.named(("v", t.qual, va)), v, "`*%s` passed as *%s of %s" % (unparse(a.value)[:30], va, t.qual), self.where(c))
                    elif v is not None:
                        # spread over the remaining positional parameters
                        for p in ps[i:]:
                            K.union(K.named(("v", t.qual, p), "parameter %s of %s" % (p, t.qual)), K.child(v, "k"),
                                    "`*%s` passed to %s" % (unparse(a.value)[:30], t.qual), self.where(c))
                        if va is not None:
                            K.union(K.named(("v", t.qual, va)), v, "`*%s` passed as *%s of %s" % (unparse(a.value)[:30], va, t.qual), self.where(c))
                    continue
                if i < len(ps):
                    if v is not None:
                        K.union(K.named(("v", t.qual, ps[i]), "parameter %s of %s" % (ps[i], t.qual)), v,
                                "`%s` passed as %s of %s" % (unparse(a)[:40], ps[i], t.qual), self.where(c))
                elif va is not None and v is not None:
                    K.union(K.child(K.named(("v", t.qual, va)), "k"), v, "`%s` passed in *%s of %s" % (unparse(a)[:40], va, t.qual), self.where(c))
                i += 1
            for name, v in kws:
                if name in ps and v is not None:
                    K.union(K.named(("v", t.qual, name), "parameter %s of %s" % (name, t.qual)), v, "`%s=...` passed to %s" % (name, t.qual), self.where(c))
            if not is_ctor:
                r = K.named(("r", t.qual), "result of %s" % t.qual)
                if res is None:
                    res = K.new("`%s`" % unparse(c)[:40])
                K.union(res, r, "result of %s" % t.qual, self.where(c))
        if is_ctor:
            res = K.new("`%s`" % unparse(c)[:40])
            K.constructed(self, c, rcls, res)
        return res


# ======================================================================================================================
ROWS, WIDTH, BYTES = "ROWS", "WIDTH", "BYTES"


class Dims(QualInfer):
    """Roles of the quantities that describe DAQmx raw buffers: ROWS (number of values of a buffer / object), WIDTH (bytes per
    row) and BYTES (their product).  Seeds: `number_values` attributes are ROWS, the elements of `raw_data_widths` are WIDTHs, and
    the shape given to ndarray.reshape is (ROWS, WIDTH).  rows * width is BYTES, bytes // width is ROWS; sums, differences and
    comparisons relate like quantities."""
    analysed_modules = frozenset({"daqmx"})
    keys_have_kinds = False
    arithmetic = True

    def is_analysed(self, fi):
        # the DAQmx module, plus the row reader it hands (width, rows) to; element counts of typed reads are another quantity
        return fi.module.name == "daqmx" or fi.qual == "base_segment.read_interleaved_segment_bytes"

    def _seed(self):
        for ci in self.fields().get("number_values", ()):
            n = self.field_node(ci, "number_values")
            if n is not None:
                self.seed(n, ROWS, "%s.number_values (values per chunk)" % ci.qual, "%s:%d" % (ci.module.relpath, ci.node.lineno))
        for ci in self.fields().get("raw_data_widths", ()):
            n = self.field_node(ci, "raw_data_widths")
            if n is not None:
                self.union(self.child(n, "k"), self.child(n, "v"), "elements of the widths array", "%s:%d" % (ci.module.relpath, ci.node.lineno))
                self.seed(self.child(n, "k"), WIDTH, "elements of %s.raw_data_widths (bytes per row of each buffer)" % ci.qual,
                          "%s:%d" % (ci.module.relpath, ci.node.lineno))

    def special_call(self, gen, c, args):
        f = c.func
        if isinstance(f, ast.Attribute) and f.attr == "reshape" and c.args:
            shape = c.args[0] if len(c.args) == 1 and isinstance(c.args[0], ast.Tuple) else (ast.Tuple(elts=list(c.args), ctx=ast.Load()) if len(c.args) == 2 else None)
            if shape is not None and len(shape.elts) == 2:
                for e, kind in zip(shape.elts, (ROWS, WIDTH)):
                    n = gen.expr(e)
                    if n is not None:
                        self.seed(n, kind, "%s of the shape given to reshape" % ("first (rows)" if kind == ROWS else "second (bytes per row)"), gen.where(c))
                return True, None
        return False, None

    def binop(self, gen, e, a, b):
        if isinstance(e.op, (ast.Add, ast.Sub)):
            if a is not None and b is not None:
                self.union(a, b, "`%s`" % unparse(e)[:40], gen.where(e))
            return a if a is not None else b
        if isinstance(e.op, ast.Mult) and isinstance(e.left, (ast.List, ast.Tuple)):
            return a                     # [x] * n: a sequence of the same kind of element
        if isinstance(e.op, ast.Mult) and isinstance(e.right, (ast.List, ast.Tuple)):
            return b
        if isinstance(e.op, (ast.Mult, ast.FloorDiv, ast.Div)) and a is not None and b is not None:
            res = self.new("`%s`" % unparse(e)[:40])
            if isinstance(e.op, ast.Mult):
                self.__dict__.setdefault("products", []).append((gen.fi, e, a, b))
            self.pending.append(("arith", "mul" if isinstance(e.op, ast.Mult) else "div", res, a, b, gen.where(e), unparse(e)[:50]))
            return res
        return None

    def solve_item(self, item, rounds):
        if item[0] != "arith":
            return False
        _t, op, res, a, b, where, text = item
        ka, kb, kr = self.kind(a), self.kind(b), self.kind(res)
        if op == "mul":
            if {ka, kb} == {ROWS, WIDTH}:
                self.seed(res, BYTES, "`%s`: rows x width" % text, where)
                return True
            if ka in (ROWS, WIDTH) and kb == ka:
                self.conflicts.append(Conflict(a, b, "`%s` multiplies two %s quantities" % (text, ka), where))
                return True
        else:
            if ka == BYTES and kb == WIDTH:
                self.seed(res, ROWS, "`%s`: bytes // width" % text, where)
                return True
            if ka == BYTES and kb == ROWS:
                self.seed(res, WIDTH, "`%s`: bytes // rows" % text, where)
                return True
        return False
