"""Rule registry and per-run context (caches CFGs, rule results, call resolution)."""
import ast

from .core import Program, AnalysisError, AnchorMissing, call_name, dotted, walk_body
from .cfg import CFG
from .report import RuleResult

RULES = {}


def _private_subject(msg):
    """the qualified name an AnchorMissing message is about, if its last component is private (`_x`, not `__x__`)"""
    import re
    m = re.match(r"(?:function |method |class )?([A-Za-z_][\w]*(?:\.[A-Za-z_][\w]*)+)", msg)
    if not m:
        return None
    last = m.group(1).split(".")[-1]
    if last.startswith("_") and not (last.startswith("__") and last.endswith("__")):
        return m.group(1)
    return None


def rule(name, title, floor=0):
    def deco(fn):
        RULES[name] = (fn, title, floor)
        fn.rule_name = name
        return fn
    return deco


class Ctx:
    def __init__(self, prog, tier="quick"):
        self.prog = prog
        self.tier = tier
        self.thorough = tier == "thorough"
        self._results = {}
        self._cfgs = {}
        self._callgraph = None
        self._res_stats = None
        from . import cfg as _cfg
        _cfg.PURE_PREDICATES.clear()
        _cfg.PURE_PREDICATES.update(_cfg.pure_predicates(prog))

    def run(self, name):
        if name in self._results:
            return self._results[name]
        fn, title, floor = RULES[name]
        R = RuleResult(name, title, floor)
        try:
            try:
                fn(self, R)
            except AnchorMissing as e:
                # Anchors are public or structural entities.  A *private* helper (leading underscore) that a rule used as its
                # starting point and that is no longer there - split, inlined, renamed, moved behind another object - is not an
                # anchor: the rule says, as an explicit instance in the evidence, that it did not recognise the construct
                # (not decided), instead of declaring the whole check broken.  A missing public entity stays an error.
                priv = _private_subject(str(e))
                if priv is None or R.violations:
                    raise
                R.unrecognised("%s::not recognised" % priv, "nptdms", "the private helper this rule starts from is not where it was (%s): "
                               "what the rule decides about it is NOT decided on this tree" % e)
            R.finish()
        except AnalysisError as e:
            # a violating shape that was established before the analysis lost its footing
            # is still a violation; otherwise the rule cannot vouch for the code
            if not R.violations:
                raise
            R.note("analysis incomplete after the reported violation(s): %s: %s" % (type(e).__name__, e))
        self._results[name] = R
        return R

    def cfg(self, fi, **kw):
        key = (fi.qual, tuple(sorted(kw.items())) if kw else ())
        if key not in self._cfgs:
            self._cfgs[key] = CFG(fi.node, **kw)
        return self._cfgs[key]

    # -- call graph ------------------------------------------------------------
    def callgraph(self):
        if self._callgraph is None:
            from .callgraph import build_callgraph
            self._callgraph, self._res_stats = build_callgraph(self.prog)
        return self._callgraph

    def kinds(self):
        """string-kind inference (object names vs. object paths), shared by the C16 rules"""
        if getattr(self, "_kinds", None) is None:
            from .kinds import Kinds
            self._kinds = Kinds(self)
        return self._kinds

    def dims(self):
        """role inference for DAQmx buffer quantities (rows / width / bytes), used by the C11 rules"""
        if getattr(self, "_dims", None) is None:
            from .kinds import Dims
            self._dims = Dims(self)
        return self._dims

    def call_resolution_stats(self):
        if self._res_stats is None:
            try:
                self.callgraph()
            except AnalysisError:
                return {}
        return self._res_stats
