"""Rules for the structural part of C06 (a file cut short reads as a prefix): how the end of the last segment is taken from the
file, when a segment counts as incomplete, how a torn lead-in or torn metadata ends the scan, and how the byte remainder of a
short final chunk becomes per-object lengths.  Decided on normal forms by scenario evaluation; nothing is executed."""
import ast

from .registry import rule
from .core import call_name, dotted, walk_body, unparse, AnchorMissing, names_in

MARKER = 0xFFFFFFFFFFFFFFFF
SIZE = ("self", "_data_file_size")


def _segment_ctor_site(ctx):
    """(function, call) of the construction of the segment object on the way from read_metadata"""
    from .region import region
    from .flow import resolve_call
    prog = ctx.prog
    top = prog.func("reader.TdmsReader.read_metadata")
    seg = prog.cls("tdms_segment.TdmsSegment")
    for g in region(ctx, top, depth=3):
        for c in walk_body(g.node):
            if isinstance(c, ast.Call):
                d = dotted(c.func) or ""
                if d.split(".")[-1] == seg.name:
                    r = prog.resolve_name(g.module, d.split(".")[0])
                    if r is not None:
                        return g, c
    return None, None


def _expand_result(prog, v, depth=0):
    """element i of the tuple a package function returns, when the normal form kept the call opaque (a function too large to be
    inlined): `f(...)[i]` is replaced by the i-th element of f's own normal form (parameters stay parameters)"""
    from .sym import Sym
    if not isinstance(v, tuple) or not v or depth > 2:
        return v
    if v[0] == "item" and len(v) == 3 and isinstance(v[2], int) and isinstance(v[1], tuple) and v[1] and v[1][0] == "call" \
            and isinstance(v[1][1], str) and v[1][1] in prog.functions:
        callee = prog.functions[v[1][1]]
        try:
            fv = Sym(prog, callee, callee.cls).function_value()
        except Exception:
            fv = None
        if isinstance(fv, tuple) and fv and fv[0] == "tuple" and len(fv[1]) > v[2]:
            return _expand_result(prog, fv[1][v[2]], depth + 1)
        return v
    return tuple(_expand_result(prog, y, depth) if isinstance(y, tuple) else y for y in v)


def _is_size(v):
    return v == SIZE


def _mk_oracle(marker, size_known, rel):
    """marker: the lead-in carries the 'length unknown' value; size_known: the reader has a data file; rel: how the end of the
    segment claimed by the lead-in compares with the size of the data file ('lt', 'eq', 'gt')"""
    def oracle(c):
        if not (isinstance(c, tuple) and c and c[0] == "cmp" and len(c) == 4):
            return None
        op, a, b = c[1], c[2], c[3]
        if op in ("==", "!=") and (a == ("const", MARKER) or b == ("const", MARKER)):
            return marker if op == "==" else (not marker)
        if op in ("is", "is not") and (_is_size(a) or _is_size(b)) and ("const", None) in (a, b):
            return (not size_known) if op == "is" else size_known
        if op in ("<", ">", "<=", ">=") and (_is_size(a) != _is_size(b)) and size_known and rel is not None:
            # orient as  other <op> size
            if _is_size(a):
                op = {"<": ">", ">": "<", "<=": ">=", ">=": "<="}[op]
            return {"<": rel == "lt", ">": rel == "gt", "<=": rel in ("lt", "eq"), ">=": rel in ("gt", "eq")}[op]
        return None
    return oracle


def _resolve_minmax(v, rel):
    """min(x, size) / max(...) of two with the size of the data file as one operand, under a known ordering"""
    if isinstance(v, tuple) and v and v[0] == "call" and v[1] in ("min", "max") and len(v) >= 3 and len(v[2]) == 2 and rel is not None:
        a, b = v[2]
        if _is_size(a) != _is_size(b):
            other = b if _is_size(a) else a
            if rel == "eq":
                return other
            small, big = (other, SIZE) if rel == "lt" else (SIZE, other)
            return small if v[1] == "min" else big
    return v


@rule("TC1", "the end of a segment is the lead-in's claim unless the file is shorter or the claim is 'unknown'; incomplete exactly then", floor=4)
def tc1(ctx, R):
    """The two values the segment object is constructed with - where the segment ends and whether it is incomplete - are
    evaluated in normal form (lead-in parser inlined) under every scenario of: 'length unknown' marker present or not, data
    file size known or not, claimed end before / at / beyond the end of the file.  Expected: marker -> end = size of the file,
    incomplete; claimed end beyond the file -> end = size of the file, incomplete; otherwise -> the claimed end, complete."""
    from .sym import Sym, simplify, eval_cond, show, contains
    from .sem import call_arg
    prog = ctx.prog
    g, c = _segment_ctor_site(ctx)
    if g is None:
        R.unrecognised("reader.TdmsReader.read_metadata::segment construction", prog.func("reader.TdmsReader.read_metadata").where(),
                       "no construction of TdmsSegment within three calls of read_metadata: where the end of a segment is decided was not recognised")
        return
    ctor = prog.func("tdms_segment.TdmsSegment.__init__")
    sy = Sym(prog, g, g.cls)
    env, _guards = sy.env_at(c)
    vals = {}
    for p in ("next_segment_pos", "segment_incomplete"):
        if p not in ctor.params:
            raise AnchorMissing("TdmsSegment.__init__ has no parameter %s" % p)
        vals[p] = call_arg(prog, c, ctor, p, sy, env)
    for p in list(vals):
        vals[p] = _expand_result(prog, vals[p])
    if vals["next_segment_pos"] is None or vals["segment_incomplete"] is None:
        R.unrecognised("%s::segment end and incomplete flag" % g.qual, g.where(c), "arguments of the segment construction not resolved")
        return
    has_marker = contains(vals["segment_incomplete"], lambda y: y == ("const", MARKER)) or contains(vals["next_segment_pos"], lambda y: y == ("const", MARKER))
    has_size = contains(vals["next_segment_pos"], _is_size)
    if not has_marker and not has_size:
        R.unrecognised("%s::segment end and incomplete flag" % g.qual, g.where(c), "neither the 'length unknown' value nor the size of the data file appears in "
                       "the normal form of the segment's end (`%s`): the decision lives where the normal forms do not reach" % show(vals["next_segment_pos"])[:120])
        return
    scenarios = [
        ("length unknown, data file present", (True, True, None), "size", True),
        ("claimed end beyond the end of the file", (False, True, "gt"), "size", True),
        ("claimed end exactly at the end of the file", (False, True, "eq"), "claim", False),
        ("claimed end before the end of the file", (False, True, "lt"), "claim", False),
        ("no data file (index file alone), length known", (False, False, None), "claim", False),
    ]
    for name, (marker, known, rel), want_end, want_inc in scenarios:
        orc = _mk_oracle(marker, known, rel)
        end = simplify(vals["next_segment_pos"], orc)
        end = _resolve_minmax(end, rel)
        inc = eval_cond(simplify(vals["segment_incomplete"], orc), orc)
        key = "%s::%s" % (g.qual, name)
        # the incomplete flag
        if inc is None:
            R.undecided(key + " / incomplete", g.where(c), "flag not decided in this scenario: %s" % show(simplify(vals["segment_incomplete"], orc))[:140])
        else:
            R.check(inc == want_inc, key + " / incomplete", g.where(c), "segment_incomplete is %s" % inc,
                    "segment_incomplete is %s where it must be %s: file_status then reports %s and the truncated-chunk logic is %s" % (
                        inc, want_inc, "an incomplete final segment for a complete file" if inc else "a complete file although data is missing",
                        "applied to a complete segment" if inc else "not applied"))
        # the end of the segment
        if isinstance(end, tuple) and end and end[0] == "phi":
            R.undecided(key + " / end", g.where(c), "end of the segment not decided in this scenario: %s" % show(end)[:140])
            continue
        if want_end == "size":
            R.check(_is_size(end), key + " / end", g.where(c), "the segment ends at the end of the data file",
                    "the segment is taken to end at `%s`, not at the end of the data file: data beyond the end of the file is counted (read as zeros or failing)" % show(end)[:120])
        else:
            ok = not _is_size(end) and not contains(end, _is_size)
            R.check(ok, key + " / end", g.where(c), "the segment ends where its lead-in says",
                    "the segment is taken to end at `%s` although its lead-in gives an end that lies within the file: the next segment's lead-in is "
                    "looked for in the wrong place" % show(end)[:120])


def _handler_catches(h, names):
    if h.type is None:
        return True
    ts = h.type.elts if isinstance(h.type, ast.Tuple) else [h.type]
    return any((dotted(t) or "").split(".")[-1] in names for t in ts)


@rule("TC2", "a torn lead-in or torn metadata ends the scan of the file quietly", floor=3)
def tc2(ctx, R):
    """(a) In the lead-in parser the fixed-size read is followed by a length test that raises EOFError exactly when fewer bytes
    than asked for came back; (b) a segment whose metadata is not completely in the file (end of the segment before its data
    position) raises EOFError before any metadata is parsed; (c) the loop over the segments catches EOFError around the parser
    and leaves the loop, without recording the segment."""
    from .sym import Sym, eval_cond, show, contains, simplify
    from .region import region
    prog = ctx.prog
    top = prog.func("reader.TdmsReader.read_metadata")
    reg = [f for f in region(ctx, top, depth=3) if f.module.name == "reader"]
    # (a) and (b): raise EOFError statements and their guards
    n_len, n_torn = 0, 0
    for f in reg:
        raises = [n for n in walk_body(f.node) if isinstance(n, ast.Raise) and n.exc is not None and
                  (dotted(n.exc.func if isinstance(n.exc, ast.Call) else n.exc) or "").split(".")[-1] == "EOFError"]
        if not raises:
            continue
        sy = Sym(prog, f, f.cls, inline=False)
        for r in raises:
            _env, guards = sy.env_at(r)
            for gd in guards:
                # (a) len(<stream>.read(K)) compared with a constant
                for atom in _atoms(gd):
                    m = _len_of_read(atom)
                    if m is not None and eval_cond(gd, _len_oracle(0)) is not True:
                        m = None         # a raise on the path where the read was long enough: not the short-read exit
                    if m is not None:
                        op, k_read, k_cmp, swapped = m
                        n_len += 1
                        key = "%s::short read of the %d-byte lead-in" % (f.qual, k_read)
                        bad = []
                        for got in sorted({0, 1, 4, k_read - 1, k_read}):
                            def orc(a, got=got):
                                mm = _len_of_read(a)
                                if mm is None:
                                    return None
                                o, _kr, kc, sw = mm
                                l, r_ = (kc, got) if sw else (got, kc)
                                return {"<": l < r_, ">": l > r_, "<=": l <= r_, ">=": l >= r_, "==": l == r_, "!=": l != r_}[o]
                            v = eval_cond(gd, orc)
                            if v is None:
                                bad = None
                                break
                            if v != (got < k_read):
                                bad.append(got)
                        if bad is None:
                            R.undecided(key, f.where(r), "guard not decided: %s" % show(gd)[:120])
                        else:
                            b0 = bad[0] if bad else k_read
                            R.check(not bad, key, f.where(r), "EOFError exactly when fewer than %d bytes came back" % k_read,
                                    "with %s byte(s) read the guard `%s` does %s: a file cut inside a lead-in %s" % (
                                        ", ".join(map(str, bad)), show(gd)[:80], "not raise" if b0 < k_read else "raise",
                                        "reaches struct.unpack with a short buffer and fails" if b0 < k_read else "- or a complete one - is taken for the end of the file"))
                        break
                else:
                    continue
                break
            else:
                # (b) ordering between the end of the segment and its data position, together with what makes a segment incomplete
                sy_in = Sym(prog, f, f.cls)          # helpers inlined: the incomplete flag in terms of the lead-in
                _e2, guards_in = sy_in.env_at(r)
                conj = [a for gd in guards_in for a in _atoms(gd)]
                ords = [a for a in _flatten_atoms(conj) if a[0] == "cmp" and a[1] in ("<", ">", "<=", ">=") and not (_is_size(a[2]) != _is_size(a[3]) and _role(a[3] if _is_size(a[2]) else a[2]) == "end" and _claim_only(a[3] if _is_size(a[2]) else a[2]))]
                torn = [a for a in ords if {_role(a[2]), _role(a[3])} == {"end", "data"}]
                if len(torn) != 1:
                    continue
                n_torn += 1
                a = torn[0]
                key = "%s::metadata not completely in the file" % f.qual
                op = a[1]
                if _role(a[2]) == "data":
                    op = {"<": ">", ">": "<", "<=": ">=", ">=": "<="}[op]
                # now: end <op> data.  Evaluate the whole guard for: incomplete by marker / incomplete by clamp, end before / at / after data
                bad = []
                undec = False
                for inc_name, (marker, known, rel) in (("'length unknown' marker", (True, True, None)), ("claimed end beyond the end of the file", (False, True, "gt"))):
                    for pos in ("before", "at", "after"):
                        base = _mk_oracle(marker, known, rel)

                        a_s = simplify(a, base)
                        # the end that is compared must be the end of the segment as it will be used: in both scenarios the size of the file
                        end_op = a_s[2] if _role(a[2]) == "end" else a_s[3]
                        end_op = _resolve_minmax(end_op, rel)
                        if pos == "before" and not _is_size(end_op) and not (isinstance(end_op, tuple) and end_op and end_op[0] == "phi"):
                            bad.append("%s: the test compares `%s` with the data position, not the end of the file - the end of the segment is only "
                                       "cut back to the file's size afterwards, so a lead-in that claims more than the file holds never looks torn" % (inc_name, show(end_op)[:60]))
                            continue

                        def orc(c, base=base, pos=pos, a=a, a_s=a_s):
                            if c == a or c == a_s:
                                o = a[1]
                                if _role(a[2]) == "data":
                                    o = {"<": ">", ">": "<", "<=": ">=", ">=": "<="}[o]
                                return {"<": pos == "before", "<=": pos in ("before", "at"), ">": pos == "after", ">=": pos in ("after", "at")}[o]
                            return base(c)
                        vs = []
                        for gd in guards_in:
                            v = eval_cond(gd, orc)
                            if v is None:
                                v = eval_cond(simplify(gd, orc), orc)
                            if v is None and not contains(gd, lambda y: y == ("const", MARKER) or _is_size(y) or y == a):
                                v = True       # a condition of a well-formed lead-in (length, tag), not part of the scenario
                            vs.append(v)
                        if any(v is None for v in vs):
                            undec = True
                            continue
                        fires = all(vs)
                        if fires != (pos == "before"):
                            bad.append("%s, segment ends %s its data position: %s" % (inc_name, pos, "raises" if fires else "does not raise"))
                if undec and not bad:
                    R.undecided(key, f.where(r), "guards not decided in every scenario: %s" % "; ".join(show(gd)[:80] for gd in guards_in))
                else:
                    R.check(not bad, key, f.where(r), "EOFError exactly when an incomplete segment ends before its data begins (by marker or by the end of the file)",
                            "; ".join(bad) + ": " + ("a segment whose metadata was cut is parsed from bytes that are not there" if any("does not raise" in b or "never looks torn" in b for b in bad)
                                                     else "a segment whose metadata is complete is dropped with its objects and properties"))
    if n_len == 0:
        R.unrecognised("reader::short read of the lead-in", top.where(), "no `raise EOFError` guarded by the length of what a fixed-size read returned was found")
    if n_torn == 0:
        R.unrecognised("reader::metadata not completely in the file", top.where(), "no `raise EOFError` guarded by one ordering test between the end of the segment and its data position was found")
    # (c) the loop
    found = False
    for f in reg:
        for t in [n for n in walk_body(f.node) if isinstance(n, ast.Try)]:
            hs = [h for h in t.handlers if isinstance(h.type, (ast.Name, ast.Attribute, ast.Tuple)) and _handler_catches(h, {"EOFError"})]
            if not hs:
                continue
            found = True
            h = hs[0]
            key = "%s::end of file ends the scan" % f.qual
            leaves = all(isinstance(s, (ast.Break, ast.Return)) or (isinstance(s, ast.Expr) and isinstance(s.value, (ast.Constant, ast.Call))) for s in h.body) and \
                any(isinstance(s, (ast.Break, ast.Return)) for s in h.body)
            if any(isinstance(s, ast.Raise) for s in ast.walk(h)):
                R.violation(key, f.where(h), "the handler for EOFError raises: a file cut inside a lead-in or inside metadata cannot be read at all")
            elif any(isinstance(s, ast.Continue) for s in ast.walk(h)) and not any(isinstance(s, (ast.Break, ast.Return)) for s in ast.walk(h)):
                R.violation(key, f.where(h), "the handler for EOFError continues the loop over the segments instead of leaving it")
            elif leaves:
                stores = [s for s in ast.walk(t) if isinstance(s, ast.Call) and isinstance(s.func, ast.Attribute) and s.func.attr == "append"
                          and (dotted(s.func.value) or "").endswith("_segments") and s in [x for hh in t.handlers for x in ast.walk(hh)]]
                R.check(not stores, key, f.where(h), "EOFError from the segment parser leaves the loop; nothing is recorded for the torn segment",
                        "the handler records a segment although its lead-in or metadata was cut")
            else:
                R.undecided(key, f.where(h), "handler body not understood")
    if not found:
        R.unrecognised("reader.TdmsReader.read_metadata::end of file ends the scan", top.where(), "no handler for EOFError around the segment parser was found")


def _flatten_atoms(cs):
    """atoms of conditions, looking through and / or / not"""
    out = []
    def visit(c):
        if isinstance(c, tuple) and c and c[0] in ("and", "or", "not"):
            for y in c[1:]:
                visit(y)
        elif isinstance(c, tuple) and c:
            out.append(c)
    for c in cs:
        visit(c)
    return out


def _claim_only(v):
    return True


def _len_oracle(got):
    def orc(a):
        mm = _len_of_read(a)
        if mm is None:
            return None
        o, _kr, kc, sw = mm
        l, r_ = (kc, got) if sw else (got, kc)
        return {"<": l < r_, ">": l > r_, "<=": l <= r_, ">=": l >= r_, "==": l == r_, "!=": l != r_}[o]
    return orc


def _atoms(c):
    """the conjuncts of a guard"""
    if isinstance(c, tuple) and c and c[0] == "and":
        out = []
        for y in c[1:]:
            out.extend(_atoms(y))
        return out
    return [c]


def _len_of_read(a):
    """(op, K read, K compared, swapped) for  len(<x>.read(K)) <op> K'  (either orientation)"""
    if not (isinstance(a, tuple) and a and a[0] == "cmp" and len(a) == 4):
        return None
    def is_len_read(v):
        if isinstance(v, tuple) and v and ((v[0] == "call" and v[1] == "len" and len(v[2]) == 1) or (v[0] == "len" and len(v) == 2)):
            r = v[2][0] if v[0] == "call" else v[1]
            if isinstance(r, tuple) and r and r[0] == "method" and r[1] == "read" and r[3] and r[3][0][0] == "const" and isinstance(r[3][0][1], int):
                return r[3][0][1]
        return None
    l, r_ = a[2], a[3]
    kl, kr = is_len_read(l), is_len_read(r_)
    if kl is not None and r_[0] == "const" and isinstance(r_[1], int):
        return a[1], kl, r_[1], False
    if kr is not None and l[0] == "const" and isinstance(l[1], int):
        return a[1], kr, l[1], True
    return None


def _role(v):
    """'end' for a value that is (or may be) the size of the data file / built from the next-segment offset, 'data' for one built from the
    raw data offset: decided by which field of the lead-in record the value mentions"""
    from .sym import contains
    def item_idx(y):
        return isinstance(y, tuple) and y and y[0] == "item" and isinstance(y[-1], int)
    idx = set()
    def visit(y):
        if isinstance(y, tuple):
            if y and y[0] == "item" and isinstance(y[-1], int):
                idx.add(y[-1])
            for z in y:
                visit(z)
    visit(v)
    if contains(v, _is_size) or 1 in idx:
        return "end" if 2 not in idx else None
    if 2 in idx:
        return "data"
    return None
