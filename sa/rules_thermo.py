"""TB1-TB5: thermocouple tables and their evaluator (property C18)."""
import ast
import json
import os

from .registry import rule
from .core import call_name, dotted, walk_shallow, walk_body, unparse, AnchorMissing

REFDIR = os.path.join(os.path.dirname(os.path.abspath(__file__)), "refdata")
LETTERS = {"type_b": "B", "type_e": "E", "type_j": "J", "type_k": "K", "type_n": "N", "type_r": "R", "type_s": "S", "type_t": "T"}
NI_CODES = {10047: "B", 10055: "E", 10072: "J", 10073: "K", 10077: "N", 10082: "R", 10085: "S", 10086: "T"}


def _kw(call, name, pos=None):
    for k in call.keywords:
        if k.arg == name:
            return k.value
    if pos is not None and len(call.args) > pos:
        return call.args[pos]
    return None


def _piece_of(prog, mod, name, p, env, line, depth=0):
    """one table entry: Polynomial(applicable_range=Range(a, b), coefficients=[...]) written out, or built by a module helper
    that returns such a call from its parameters"""
    if not isinstance(p, ast.Call):
        raise AnchorMissing("thermocouples.%s: Polynomial(...) entries" % name)
    if dotted(p.func) != "Polynomial":
        r = prog.resolve_expr(mod, p.func) if isinstance(p.func, (ast.Name, ast.Attribute)) else None
        if not (r and r[0] == "func") or depth > 2:
            raise AnchorMissing("thermocouples.%s: Polynomial(...) entries" % name)
        g = r[1]
        rets = [x for x in walk_body(g.node) if isinstance(x, ast.Return) and x.value is not None]
        if len(rets) != 1:
            raise AnchorMissing("thermocouples.%s: helper %s with a single return" % (name, g.qual))
        env2 = {}
        for prm, a in list(zip(g.params, p.args)) + [(k.arg, k.value) for k in p.keywords if k.arg]:
            v = prog.try_fold(a, mod, env=env, default="?")
            if v == "?":
                raise AnchorMissing("thermocouples.%s: constant table entries" % name)
            env2[prm] = v
        return _piece_of(prog, g.module, name, rets[0].value, env2, line, depth + 1)
    rng = _kw(p, "applicable_range", 0)
    coefs = _kw(p, "coefficients", 1)
    if not (isinstance(rng, ast.Call) and dotted(rng.func) == "Range" and len(rng.args) == 2):
        raise AnchorMissing("thermocouples.%s: Range(start, end)" % name)
    start, end = (prog.try_fold(a, mod, env=env, default="?") for a in rng.args)
    cs = prog.try_fold(coefs, mod, env=env)
    if cs is None or start == "?" or end == "?":
        raise AnchorMissing("thermocouples.%s: constant table entries" % name)
    return {"start": start, "end": end, "coefficients": [float(c) for c in cs], "line": line}


def extract_tables(prog):
    """{letter: {forward: [{start,end,coefficients}], inverse: [...], exponential: [a0,a1,a2] or None, node}}"""
    mod = prog.module("thermocouples")
    out = {}
    for name, letter in LETTERS.items():
        v = mod.assigns.get(name)
        if not (isinstance(v, ast.Call) and dotted(v.func) == "Thermocouple"):
            raise AnchorMissing("thermocouples.%s = Thermocouple(...)" % name)
        entry = {"node": v, "name": name}
        for key, pos in (("forward_polynomials", 0), ("inverse_polynomials", 1)):
            lst = _kw(v, key, pos)
            if not isinstance(lst, ast.List):
                raise AnchorMissing("thermocouples.%s: %s list" % (name, key))
            pieces = []
            for p in lst.elts:
                pieces.append(_piece_of(prog, mod, name, p, None, p.lineno))
            entry[key.split("_")[0]] = pieces
        ex = _kw(v, "exponential_term", 2)
        exv = prog.try_fold(ex, mod) if ex is not None else None
        if exv is None and isinstance(ex, ast.Call) and isinstance(ex.func, ast.Name):
            # a named record of the three constants:  ExponentialTerm(a_0=.., a_1=.., a_2=..)  declared with namedtuple
            decl = mod.assigns.get(ex.func.id)
            if decl is None:
                # class ExponentialTerm(namedtuple('ExponentialTerm', [...])): ...   /   class ExponentialTerm(NamedTuple): a_0: float ...
                ci_ = next((c_ for c_ in prog.classes.values() if c_.module is mod and c_.name == ex.func.id), None)
                if ci_ is not None:
                    decl = next((b_ for b_ in ci_.node.bases if isinstance(b_, ast.Call) and (call_name(b_) or "").split(".")[-1] == "namedtuple"), None)
                    if decl is None and any("NamedTuple" in (dotted(b_) or "") for b_ in ci_.node.bases):
                        fl_ = [n_.target.id for n_ in ci_.node.body if isinstance(n_, ast.AnnAssign) and isinstance(n_.target, ast.Name)]
                        decl = ast.Call(func=ast.Name(id="namedtuple", ctx=ast.Load()), args=[ast.Constant(value=ci_.name), ast.Constant(value=" ".join(fl_))], keywords=[])
            if isinstance(decl, ast.Call) and (call_name(decl) or "").split(".")[-1] == "namedtuple" and len(decl.args) >= 2:
                names = prog.try_fold(decl.args[1], mod)
                if isinstance(names, str):
                    names = names.replace(",", " ").split()
                if isinstance(names, (list, tuple)):
                    vals = {}
                    for nm, a in list(zip(names, ex.args)) + [(k.arg, k.value) for k in ex.keywords if k.arg]:
                        vals[nm] = prog.try_fold(a, mod)
                    if all(nm in vals and vals[nm] is not None for nm in names):
                        exv = [vals[nm] for nm in names]
        entry["exponential"] = [float(x) for x in exv] if exv is not None else None
        out[letter] = entry
    return out


@rule("TB1", "each thermocouple table partitions the real line (first piece open below, last open above, contiguous)", floor=16)
def tb1(ctx, R):
    prog = ctx.prog
    tabs = extract_tables(prog)
    mod = prog.module("thermocouples")
    for letter, t in sorted(tabs.items()):
        for which in ("forward", "inverse"):
            pcs = t[which]
            where = "%s:%d" % (mod.relpath, pcs[0]["line"])
            key = "thermocouples.%s::%s" % (t["name"], which)
            problems = []
            if pcs[0]["start"] is not None:
                problems.append("first piece starts at %r instead of being open below" % pcs[0]["start"])
            if pcs[-1]["end"] is not None:
                problems.append("last piece ends at %r instead of being open above" % pcs[-1]["end"])
            for a, b in zip(pcs, pcs[1:]):
                if a["end"] is None or b["start"] is None or float(a["end"]) != float(b["start"]):
                    problems.append("piece ending at %r is followed by a piece starting at %r" % (a["end"], b["start"]))
            for p in pcs:
                if p["start"] is not None and p["end"] is not None and not (p["start"] < p["end"]):
                    problems.append("empty piece [%r, %r)" % (p["start"], p["end"]))
            R.check(not problems, key, where, "%d pieces partition the real line" % len(pcs),
                    "the %s table of type %s does not partition the real line (%s): some inputs fall into no piece (NaN) or the table is rejected at import" % (
                        which, letter, "; ".join(problems)))


def _is_none_atom(attr):
    return ("cmp", "is", ("self", attr), ("const", None))


@rule("TB2", "piece selection is start <= v < end, conditions and functions are built from the same list, nothing else yields NaN", floor=8)
def tb2(ctx, R):
    from .sym import Sym, show, alpha, same, select_path, contains, collect, eval_cond
    from .region import region, cone
    prog = ctx.prog
    # --- Range.within_range, evaluated for the three kinds of range
    from .sym import simplify
    from .region import attrs_in
    wr = prog.func("thermocouples.Range.within_range")
    v = ("param", wr.params[1])
    whole = Sym(prog, wr, wr.cls).function_value()
    lo = ("cmp", "<=", ("self", "start"), v)
    lo2 = ("cmp", ">=", v, ("self", "start"))
    hi = ("cmp", "<", v, ("self", "end"))
    hi2 = ("cmp", ">", ("self", "end"), v)
    scen = {"open below (start None)": ({"start": True, "end": False}, [hi, hi2]),
            "open above (end None)": ({"start": False, "end": True}, [lo, lo2]),
            "bounded": ({"start": False, "end": False}, None)}
    for name, (nulls, want) in scen.items():
        def oracle(c, nulls=nulls):
            for a, isnone in nulls.items():
                if c == _is_none_atom(a):
                    return isnone
            return None
        val = simplify(whole, oracle)
        key = "thermocouples.Range.within_range::%s" % name
        if whole[0] == "opaque" or (isinstance(val, tuple) and val and val[0] == "phi"):
            R.undecided(key, wr.where(), "membership test not decided for this kind of range: %s" % show(alpha(val))[:100])
            continue
        if want is not None:
            R.check(val in want, key, wr.where(), show(alpha(val)), "range membership for a range %s is `%s` (expected inclusive start / exclusive end): a value exactly "
                    "on a piece boundary belongs to two pieces or to none" % (name, show(alpha(val))))
        else:
            ok = val[0] == "binop" and val[1] == "&" and set(val[2]) <= {lo, lo2, hi, hi2} and len(val[2]) == 2 and \
                any(x in (lo, lo2) for x in val[2]) and any(x in (hi, hi2) for x in val[2])
            R.check(ok, key, wr.where(), "start <= v < end", "range membership for a bounded range is `%s` (expected (start <= v) & (v < end)): a value exactly on a piece "
                    "boundary belongs to two pieces or to none" % show(alpha(val)))
    # --- contiguity verification
    vc = prog.func("thermocouples._verify_contiguous")
    reg = region(ctx, vc, depth=2)
    raises = [(f, n) for f in reg for n in walk_body(f.node) if isinstance(n, ast.Raise)]
    toks = set()
    for f in reg:
        toks |= attrs_in(f.node)
    guarded_ne = False
    for f, n in raises:
        sy_ = Sym(prog, f, f.cls, inline=False)
        _env, guards = sy_.env_at(n)
        from .sem import find as _find, W as _W
        if any(_find(g, ("cmp", "!=", _W(), _W())) for g in guards):
            guarded_ne = True
    key = "thermocouples._verify_contiguous"
    if not raises:
        R.violation(key, vc.where(), "contiguity of the tables is no longer verified (nothing is raised)")
    elif guarded_ne and ".start" in toks and ".end" in toks:
        R.ok(key, vc.where(), "raises unless each piece starts where the previous one ended")
    else:
        R.undecided(key, vc.where(), "the contiguity test was not recognised (a raise exists)")
    ti = prog.func("thermocouples.Thermocouple.__init__")
    args = []
    for f in region(ctx, ti):
        sy_ = Sym(prog, f, f.cls, inline=False)
        for c in walk_body(f.node):
            if isinstance(c, ast.Call) and (call_name(c) or "").split(".")[-1] == vc.name and c.args:
                env, _g = sy_.env_at(c)
                a = sy_.expr(c.args[0], env)
                expanded = [a]
                for it, bv in env.get("<iter>", ()):
                    if a == bv and it[0] in ("tuple", "list"):
                        expanded = list(it[1])
                args += [show(x) for x in expanded]
    if len(set(args)) < 2:
        # verified inside a helper object's constructor: what the two constructions in Thermocouple.__init__ hand to it
        from .sem import call_chains, subst as _subst_
        args2 = []
        for f in region(ctx, ti, depth=3):
            if f is ti:
                continue
            sy_ = Sym(prog, f, f.cls, inline=False)
            for c in walk_body(f.node):
                if isinstance(c, ast.Call) and (call_name(c) or "").split(".")[-1] == vc.name and c.args:
                    for c2 in [x for x in walk_body(ti.node) if isinstance(x, ast.Call) and isinstance(x.func, (ast.Name, ast.Attribute))
                               and prog.resolve_class(ti.module, x.func) is f.cls and f.name == "__init__"]:
                        st_ = Sym(prog, ti, ti.cls, inline=False)
                        e_, _g_ = st_.env_at(c2)
                        env, _g = sy_.env_at(c, bound={p_: st_.expr(a_, e_) for p_, a_ in zip(f.params[1:], c2.args)})
                        args2.append(show(sy_.expr(c.args[0], env)))
        if len(set(args2)) >= 2:
            args = args2
    args = sorted(args)
    R.check(len(args) >= 2 and len(set(args)) >= 2, "thermocouples.Thermocouple.__init__::verification", ti.where(), "both tables verified (%s)" % args,
            "contiguity is verified for %s only" % args)
    # --- the two conversions
    ap = prog.func("thermocouples.Polynomial.apply")
    av = Sym(prog, ap, ap.cls).function_value()
    R.check(av == ("call", "numpy.polynomial.polynomial.polyval", (("param", ap.params[1]), ("self", "_coefficients")), ()), "thermocouples.Polynomial.apply", ap.where(),
            "numpy.polynomial.polynomial.polyval(x, coefficients): coefficients in ascending order, as tabulated",
            "polynomials are evaluated by `%s`: np.polyval expects the highest power first and would silently reverse the tables" % show(alpha(av)))
    pw_ = prog.func("thermocouples.Polynomial.within_range")
    pv = Sym(prog, pw_, pw_.cls).function_value()
    tinit = prog.func("thermocouples.Thermocouple.__init__")

    def field_origin(F):
        """the parameter of Thermocouple.__init__ a field path is filled from: self.f = param, or self.f = Helper(param) with the
        helper storing it as .g  (for the path self.f.g)"""
        from .sem import instance_attrs
        from .region import ctor_fields
        tc = tinit.cls
        if F[0] == "self":
            for fn, n in instance_attrs(prog, tc).get(F[1], []):
                if isinstance(n, ast.Assign) and isinstance(n.value, ast.Name) and n.value.id in tinit.params:
                    return n.value.id
        if F[0] == "attr" and F[1][0] == "self":
            for fn, n in instance_attrs(prog, tc).get(F[1][1], []):
                if isinstance(n, ast.Assign) and isinstance(n.value, ast.Call) and isinstance(n.value.func, (ast.Name, ast.Attribute)):
                    k = prog.resolve_class(fn.module, n.value.func)
                    for pos, (fld, pn) in (ctor_fields(k) if k is not None else {}).items():
                        if fld == F[2] and pos < len(n.value.args) and isinstance(n.value.args[pos], ast.Name):
                            return n.value.args[pos].id
        return None
    is_field = lambda t: isinstance(t, tuple) and ((len(t) == 2 and t[0] == "self") or (len(t) == 3 and t[0] == "attr" and is_field(t[1])))
    main_fields = {}
    for q, want_param in (("thermocouples.Thermocouple.celsius_to_mv", tinit.params[1]), ("thermocouples.Thermocouple.mv_to_celsius", tinit.params[2])):
        f = prog.func(q)
        x = ("param", f.params[1])
        paths = Sym(prog, f, f.cls, inline=True).function_paths()
        # do not inline Polynomial methods: they are called on the pieces (bound variables)
        for guards, val, _e in paths:
            pws = collect(val, lambda n: isinstance(n, tuple) and n and n[0] == "call" and n[1] == "numpy.piecewise") if val else []
            # the table the conditions are drawn from: a field (possibly of a helper object) filled from the expected constructor parameter
            cand = [(n, n[2][1][3]) for n in pws if len(n[2]) >= 3 and n[2][1][0] == "comp" and is_field(n[2][1][3])]
            main = [n for n, F in cand if field_origin(F) == want_param]
            attr = show(cand[0][1]) if cand else want_param
            if main:
                attr_t = [F for n, F in cand if n is main[0]][0]
                main_fields[q] = attr_t
            key = "%s::piecewise%s" % (q, "" if not guards else " [%s]" % show(alpha(guards[0]))[:40])
            if len(main) == 0:
                R.unrecognised(key, f.where(), "no np.piecewise over the table given as `%s` in the normal form of the conversion: how the pieces are selected was not recognised" % want_param)
                continue
            if len(main) != 1:
                R.violation(key, f.where(), "the conversion is not one np.piecewise over the table given as `%s` (found %d)" % (want_param, len(main)))
                continue
            m = main[0]
            a = m[2]
            conds, funcs = (a[1], a[2]) if len(a) >= 3 else (None, None)
            ok_c = conds is not None and conds[0] == "comp" and conds[3] == attr_t and not conds[4] and \
                conds[1] == ("method", "within_range", conds[2], (x,), ())
            ok_f = funcs is not None and funcs[0] == "list" and len(funcs[1]) == 2 and funcs[1][0][0] == "splice" and funcs[1][1] == ("ext", "numpy.nan") and \
                funcs[1][0][1][0] == "comp" and funcs[1][0][1][3] == attr_t and not funcs[1][0][1][4] and \
                funcs[1][0][1][1] == ("attr", funcs[1][0][1][2], "apply")
            if a[0] == x and ok_c and not ok_f and not (funcs is not None and funcs[0] == "list"):
                # the function list is prepared somewhere else (a field filled by the constructor): not compared
                R.unrecognised(key, f.where(), "the functions handed to np.piecewise are `%s`, prepared outside the conversion: their order and the NaN default were not compared" % show(alpha(funcs))[:80])
                continue
            R.check(a[0] == x and ok_c and ok_f, key, f.where(), "np.piecewise(x, [p.within_range(x) for p in pieces], [p.apply for p in pieces] + [nan])",
                    "conditions and functions handed to np.piecewise are not built from %s in the same order with exactly one NaN default: %s" % (attr, show(alpha(m))[:200]))
            # nothing else produces NaN / masks the result
            nans = collect(val, lambda n: n == ("ext", "numpy.nan") or (isinstance(n, tuple) and n and n[0] == "const" and isinstance(n[1], float) and n[1] != n[1]))
            masks = collect(val, lambda n: isinstance(n, tuple) and n and n[0] == "call" and n[1] in ("numpy.where", "numpy.clip", "numpy.full_like", "numpy.ma.masked_outside"))
            if not nans and not masks:
                R.unrecognised(key + " total", f.where(), "the piecewise default is not in the normal form of the conversion (prepared elsewhere): totality not decided")
            else:
                R.check(len(nans) == 1 and not masks, key + " total", f.where(), "np.nan appears once, as the unreachable piecewise default",
                        "the result can be NaN / masked besides the unreachable piecewise default (`%s`): the conversion is no longer total" % (show(alpha((masks or nans)[-1]))[:80]))
    # --- type K exponential term
    f = prog.func("thermocouples.Thermocouple.celsius_to_mv")
    T = ("param", f.params[1])
    paths = Sym(prog, f, f.cls).function_paths()

    def oracle_exp(c):
        if c == _is_none_atom("_exponential_term"):
            return False
        return None
    sel = select_path(paths, oracle_exp)
    E = lambda i: ("item", ("self", "_exponential_term"), i)
    ok = False
    got = None
    if sel is not None and sel[1] is not None:
        fwd_field = main_fields.get("thermocouples.Thermocouple.celsius_to_mv", ("self", "_forward_polynomials"))
        pws = collect(sel[1], lambda n: isinstance(n, tuple) and n and n[0] == "call" and n[1] == "numpy.piecewise" and not contains(n, lambda y: y == fwd_field))
        if len(pws) == 1 and sel[1][0] == "binop" and sel[1][1] == "+":
            a = pws[0][2]
            got = pws[0]
            if len(a) >= 3 and a[0] == T and a[1] == ("list", (("cmp", ">=", T, ("const", 0)),)) and a[2][0] == "list" and len(a[2][1]) == 2 and a[2][1][1] in (("const", 0.0), ("const", 0)):
                fn = a[2][1][0]
                if fn[0] == "fn" and len(fn[1]) == 1:
                    t = fn[1][0]
                    sy = Sym(prog, f, f.cls)
                    inner = ("call", "numpy.square", (("binop", "-", (t, E(2))),), ())
                    want = sy._binop("*", E(0), ("call", "numpy.exp", (sy._binop("*", E(1), inner),), ()))
                    ok = fn[2] == want
    cand_vals = [sel[1]] if (sel is not None and sel[1] is not None) else [v_ for g_, v_, _e in paths if v_ is not None and not any(
        eval_cond(c_, oracle_exp) is False for c_ in g_)]
    if not ok and got is None and cand_vals:
        # positive evidence: the exponential of the type K term is part of the result but not under a selection of t >= 0
        def exp_outside_selection(v, inside=False):
            if not isinstance(v, tuple) or not v:
                return False
            if v[0] == "call" and v[1] in ("numpy.piecewise", "numpy.where", "numpy.select"):
                inside = True
            if v[0] == "call" and v[1] == "numpy.exp" and contains(v, lambda y: y == ("self", "_exponential_term")) and not inside:
                return True
            if v[0] == "fn":
                return False
            return any(exp_outside_selection(y, inside) for y in v if isinstance(y, tuple))
        if any(exp_outside_selection(v_) for v_ in cand_vals):
            R.violation("thermocouples.Thermocouple.celsius_to_mv::exponential term", f.where(), "the type K exponential term a0 * exp(a1 * (t - a2)**2) is added to the "
                        "result without a selection of t >= 0 (no np.piecewise / np.where around it): in an array that holds temperatures on both sides of 0 degC it is "
                        "also added below 0 degC, where ITS-90 has no such term")
            return
    if not ok and got is None:
        R.unrecognised("thermocouples.Thermocouple.celsius_to_mv::exponential term", f.where(), "the type K exponential term was not found as a second np.piecewise added to the polynomial "
                       "(it may live in a helper object): its formula is not decided")
        return
    R.check(ok, "thermocouples.Thermocouple.celsius_to_mv::exponential term", f.where(), "a0 * exp(a1 * (t - a2)**2) for t >= 0, else 0, added to the polynomial",
            "the type K exponential term is no longer a0 * exp(a1 * (t - a2)**2) applied for t >= 0 only (%s)" % (show(alpha(got))[:200] if got else "not found"))


def _load(name):
    p = os.path.join(REFDIR, name)
    if not os.path.exists(p):
        raise AnchorMissing("reference data %s" % p)
    return json.load(open(p))


@rule("TB3", "forward tables equal the NIST ITS-90 reference; inverse tables equal the reviewed transcription", floor=25)
def tb3(ctx, R):
    prog = ctx.prog
    tabs = extract_tables(prog)
    mod = prog.module("thermocouples")
    ref = _load("nist_its90_forward.json")["types"]
    inv = _load("nist_its90_inverse_pinned.json")["types"]
    for letter, t in sorted(tabs.items()):
        fw = t["forward"]
        rf = ref.get(letter)
        if rf is None or len(rf) != len(fw):
            R.violation("thermocouples.%s::forward piece count" % t["name"], "%s:%d" % (mod.relpath, fw[0]["line"]),
                        "%d forward pieces, the NIST reference function for type %s has %s" % (len(fw), letter, len(rf) if rf else "none"))
            continue
        for i, (p, r) in enumerate(zip(fw, rf)):
            where = "%s:%d" % (mod.relpath, p["line"])
            key = "thermocouples.%s::forward piece %d" % (t["name"], i)
            # interior boundaries
            b_ok = (i == 0 or float(p["start"]) == float(r["tmin"])) and (i == len(fw) - 1 or float(p["end"]) == float(r["tmax"]))
            if not b_ok:
                R.violation(key + " boundary", where, "piece boundary [%r, %r) differs from the NIST sub-range [%r, %r]" % (p["start"], p["end"], r["tmin"], r["tmax"]))
            c, rc = p["coefficients"], [float(x) for x in r["coefficients_ascending"]]
            # trailing zero coefficients are immaterial
            while len(c) > len(rc) and c[-1] == 0.0:
                c = c[:-1]
            while len(rc) > len(c) and rc[-1] == 0.0:
                rc = rc[:-1]
            if c == rc:
                R.ok(key, where, "%d coefficients equal the NIST ITS-90 reference function" % len(c))
            else:
                diff = [j for j, (a, b) in enumerate(zip(c, rc)) if a != b] or ["length %d vs %d" % (len(c), len(rc))]
                R.violation(key, where, "coefficient(s) %s of the type %s temperature->voltage function differ from the NIST ITS-90 reference (e.g. %r vs %r)" % (
                    diff[:4], letter, c[diff[0]] if isinstance(diff[0], int) else None, rc[diff[0]] if isinstance(diff[0], int) else None))
        g = [r["gaussian"] for r in rf if r["gaussian"]]
        if g or t["exponential"]:
            R.check(bool(g) and t["exponential"] == [float(x) for x in g[0]], "thermocouples.%s::exponential constants" % t["name"], "%s:%d" % (mod.relpath, t["node"].lineno),
                    "exponential term constants equal the reference", "exponential term %s differs from the NIST constants %s" % (t["exponential"], g[0] if g else None))
        iv = t["inverse"]
        ri = inv.get(letter)
        same = ri is not None and len(ri) == len(iv) and all(
            (a["start"], a["end"]) == (b["start"], b["end"]) and a["coefficients"] == [float(x) for x in b["coefficients"]] for a, b in zip(iv, ri))
        if same:
            R.ok("thermocouples.%s::inverse table" % t["name"], "%s:%d" % (mod.relpath, iv[0]["line"]), "%d pieces equal the reviewed transcription of the NIST inverse polynomials" % len(iv))
        else:
            where = "%s:%d" % (mod.relpath, iv[0]["line"])
            detail = "piece count differs"
            if ri is not None and len(ri) == len(iv):
                for i, (a, b) in enumerate(zip(iv, ri)):
                    if (a["start"], a["end"]) != (b["start"], b["end"]):
                        detail = "piece %d range [%r, %r) vs [%r, %r)" % (i, a["start"], a["end"], b["start"], b["end"])
                        where = "%s:%d" % (mod.relpath, a["line"])
                        break
                    bc = [float(x) for x in b["coefficients"]]
                    if a["coefficients"] != bc:
                        j = [k for k, (x, y) in enumerate(zip(a["coefficients"], bc)) if x != y]
                        detail = "piece %d coefficient %s: %r vs %r" % (i, j[:3], a["coefficients"][j[0]] if j else None, bc[j[0]] if j else None)
                        where = "%s:%d" % (mod.relpath, a["line"])
                        break
            R.violation("thermocouples.%s::inverse table" % t["name"], where, "the type %s voltage->temperature table differs from the NIST inverse polynomials (%s)" % (letter, detail))
    if ctx.thorough:
        # cross-validate the vendored forward copy against the copy shipped in /venv, read by ast
        try:
            import importlib.util
            spec = importlib.util.find_spec("thermocouples_reference")
        except Exception:
            spec = None
        if spec is not None and spec.submodule_search_locations:
            import sys
            sys.path.insert(0, os.path.join(os.path.dirname(REFDIR), "..", "tools"))
            path = os.path.join(list(spec.submodule_search_locations)[0], "source_NIST.py")
            from importlib.machinery import SourceFileLoader
            tools = os.path.join(os.path.dirname(os.path.dirname(REFDIR)), "tools", "vendor_nist.py")
            vn = SourceFileLoader("vendor_nist", tools).load_module()
            live = vn.forward_reference(path)
            R.check(json.loads(json.dumps(live)) == ref, "refdata::vendored forward tables equal thermocouples_reference", tools,
                    "vendored copy equals the NIST tables shipped in /venv", "vendored reference differs from thermocouples_reference/source_NIST.py")


@rule("TB4", "NI thermocouple type codes select the table of the same letter", floor=8)
def tb4(ctx, R):
    from .region import region
    prog = ctx.prog
    init = prog.func("scaling.ThermocoupleScaling.__init__")
    cands = []
    for f in region(ctx, init, same_module=False):
        for n in ast.walk(f.node):
            if isinstance(n, ast.Dict) and len(n.keys) >= 8 and all(isinstance(prog.try_fold(k, f.module), int) for k in n.keys):
                cands.append((f.module, n))
    for mname in ("scaling", "thermocouples"):
        mod = prog.module(mname)
        for nm, v in mod.assigns.items():
            if isinstance(v, ast.Dict) and len(v.keys) >= 8 and all(isinstance(prog.try_fold(k, mod), int) for k in v.keys):
                cands.append((mod, v))
        for ci in prog.classes.values():
            if ci.module is mod:
                for nm, v in ci.attrs.items():
                    if isinstance(v, ast.Dict) and len(v.keys) >= 8 and all(isinstance(prog.try_fold(k, mod), int) for k in v.keys):
                        cands.append((mod, v))
    if not cands:
        raise AnchorMissing("thermocouple type code dictionary (looked in ThermocoupleScaling.__init__, its helpers and module/class level tables)")
    dmod, d = cands[0]
    got = {}
    for k, v in zip(d.keys, d.values):
        r = prog.resolve_expr(dmod, v)
        name = None
        if r and r[0] == "const" and r[2].name == "thermocouples":
            for nm, val in r[2].assigns.items():
                if val is r[1]:
                    name = nm
        got[prog.try_fold(k, dmod)] = name or dotted(v)
    where = "%s:%d" % (dmod.relpath, d.lineno)
    for code, letter in sorted(NI_CODES.items()):
        want = "type_%s" % letter.lower()
        g = (got.get(code) or "").split(".")[-1]
        R.check(g == want, "thermocouple type code %d" % code, where, "%d -> type %s" % (code, letter),
                "NI-DAQmx thermocouple type code %d (type %s) selects %s: channels of this type are converted with another type's tables" % (code, letter, got.get(code)))
    R.check(len(set(got.values())) == len(got) == 8, "thermocouple type codes::eight distinct targets", where, "8 codes, 8 tables",
            "type code map has %d entries with %d distinct targets" % (len(got), len(set(got.values()))))
    fp = prog.func("scaling.ThermocoupleScaling.from_properties")
    defaults = {}
    for c in walk_body(fp.node):
        if isinstance(c, ast.Call) and isinstance(c.func, ast.Attribute) and c.func.attr == "get" and len(c.args) == 2:
            for nm in ("Thermocouple_Type", "Scaling_Direction"):
                if nm in unparse(c.args[0]):
                    defaults[nm] = prog.try_fold(c.args[1], fp.module, default="?")
    key = "scaling.ThermocoupleScaling.from_properties"
    if set(defaults) != {"Thermocouple_Type", "Scaling_Direction"}:
        R.undecided(key, fp.where(), "how the type and direction properties are read (properties.get(name, default)) was not recognised")
    else:
        R.check(defaults["Thermocouple_Type"] == 10072, key, fp.where(), "type (default J = 10072) and direction are read from the scale's properties",
                "the default thermocouple type is %r, not 10072 (type J)" % (defaults["Thermocouple_Type"],))


def _factor_to(node, target_pred):
    """log10 of the constant factor by which `node` multiplies the subtree satisfying target_pred (None if not of that shape)"""
    import math
    if target_pred(node):
        return 0

    def lg(c):
        if isinstance(c, tuple) and c and c[0] == "const" and isinstance(c[1], (int, float)) and not isinstance(c[1], bool) and c[1] > 0:
            v = math.log10(c[1])
            return int(round(v)) if abs(v - round(v)) < 1e-12 else None
        return None
    if isinstance(node, tuple) and node and node[0] == "binop" and node[1] == "*":
        consts = [lg(t) for t in node[2]]
        others = [t for t, l in zip(node[2], consts) if l is None]
        if len(others) == 1 and all(l is not None for t, l in zip(node[2], consts) if t is not others[0]):
            inner = _factor_to(others[0], target_pred)
            return None if inner is None else inner + sum(l for l in consts if l is not None)
    if isinstance(node, tuple) and node and node[0] == "binop" and node[1] == "/" and len(node[2]) == 2:
        l = lg(node[2][1])
        inner = _factor_to(node[2][0], target_pred)
        if l is not None and inner is not None:
            return inner - l
    return None


@rule("TB5", "the scaling applies the configured direction with TDMS's microvolt convention", floor=2)
def tb5(ctx, R):
    from .sym import Sym, show, alpha, select_path, collect, contains
    prog = ctx.prog
    fi = prog.func("scaling.ThermocoupleScaling.scale")          # own or inherited (template method with a hook)
    value = Sym(prog, fi, prog.cls("scaling.ThermocoupleScaling")).function_value()
    data = ("param", fi.params[1])
    from .sym import simplify

    def is_data(n):
        # the input array, possibly converted to double
        if n == data:
            return True
        return isinstance(n, tuple) and n and n[0] == "method" and n[1] == "astype" and n[2] == data
    for direction, method, want in ((1, "celsius_to_mv", (0, 3)), (0, "mv_to_celsius", (-3, 0))):
        def oracle(c, direction=direction):
            if c == ("cmp", "==", ("self", "scaling_direction"), ("const", 1)):
                return direction == 1
            if c == ("cmp", "!=", ("self", "scaling_direction"), ("const", 1)):
                return direction != 1
            return None
        key = "scaling.ThermocoupleScaling.scale::direction %d" % direction
        val = simplify(value, oracle)
        if val[0] in ("opaque", "phi"):
            R.undecided(key, fi.where(), "no unique result for scaling_direction %s 1" % ("==" if direction == 1 else "!="))
            continue
        calls = collect(val, lambda n: isinstance(n, tuple) and n and n[0] == "method" and n[1] in ("celsius_to_mv", "mv_to_celsius") and n[2] == ("self", "thermocouple"))
        if not calls:
            R.undecided(key, fi.where(), "no call of the thermocouple's conversion methods found in the result `%s`" % show(alpha(val))[:100])
            continue
        if len(calls) != 1 or calls[0][1] != method:
            R.violation(key, fi.where(), "with scaling_direction %s 1 the conversion applied is %s (expected %s)" % (
                "==" if direction == 1 else "!=", [c[1] for c in calls], method))
            continue
        c = calls[0]
        res = _factor_to(val, lambda n: n == c)
        arg = _factor_to(c[3][0], is_data) if c[3] else None
        R.check((arg, res) == want, key, fi.where(), "%s with data x 10**%d, result x 10**%d (TDMS stores microvolts, the tables use millivolts)" % (method, want[0], want[1]),
                "in direction %d the data is scaled by 10**%s before and the result by 10**%s after %s (expected %d and %d): wrong unit factor" % (direction, arg, res, method, want[0], want[1]))


