"""TB1-TB5: thermocouple tables and their evaluator (property C18)."""
import ast
import json
import os

from .registry import rule
from .core import call_name, dotted, walk_shallow, walk_body, unparse, AnchorMissing

REFDIR = os.path.join(os.path.dirname(os.path.abspath(__file__)), "refdata")
LETTERS = {"type_b": "B", "type_e": "E", "type_j": "J", "type_k": "K", "type_n": "N", "type_r": "R", "type_s": "S", "type_t": "T"}
NI_CODES = {10047: "B", 10055: "E", 10072: "J", 10073: "K", 10077: "N", 10082: "R", 10085: "S", 10086: "T"}


def _kw(call, name, pos=None):
    for k in call.keywords:
        if k.arg == name:
            return k.value
    if pos is not None and len(call.args) > pos:
        return call.args[pos]
    return None


def extract_tables(prog):
    """{letter: {forward: [{start,end,coefficients}], inverse: [...], exponential: [a0,a1,a2] or None, node}}"""
    mod = prog.module("thermocouples")
    out = {}
    for name, letter in LETTERS.items():
        v = mod.assigns.get(name)
        if not (isinstance(v, ast.Call) and dotted(v.func) == "Thermocouple"):
            raise AnchorMissing("thermocouples.%s = Thermocouple(...)" % name)
        entry = {"node": v, "name": name}
        for key, pos in (("forward_polynomials", 0), ("inverse_polynomials", 1)):
            lst = _kw(v, key, pos)
            if not isinstance(lst, ast.List):
                raise AnchorMissing("thermocouples.%s: %s list" % (name, key))
            pieces = []
            for p in lst.elts:
                if not (isinstance(p, ast.Call) and dotted(p.func) == "Polynomial"):
                    raise AnchorMissing("thermocouples.%s: Polynomial(...) entries" % name)
                rng = _kw(p, "applicable_range", 0)
                coefs = _kw(p, "coefficients", 1)
                if not (isinstance(rng, ast.Call) and dotted(rng.func) == "Range" and len(rng.args) == 2):
                    raise AnchorMissing("thermocouples.%s: Range(start, end)" % name)
                start, end = (prog.try_fold(a, mod, default="?") for a in rng.args)
                cs = prog.try_fold(coefs, mod)
                if cs is None or start == "?" or end == "?":
                    raise AnchorMissing("thermocouples.%s: constant table entries" % name)
                pieces.append({"start": start, "end": end, "coefficients": [float(c) for c in cs], "line": p.lineno})
            entry[key.split("_")[0]] = pieces
        ex = _kw(v, "exponential_term", 2)
        entry["exponential"] = [float(x) for x in prog.try_fold(ex, mod)] if ex is not None and prog.try_fold(ex, mod) is not None else None
        out[letter] = entry
    return out


@rule("TB1", "each thermocouple table partitions the real line (first piece open below, last open above, contiguous)", floor=16)
def tb1(ctx, R):
    prog = ctx.prog
    tabs = extract_tables(prog)
    mod = prog.module("thermocouples")
    for letter, t in sorted(tabs.items()):
        for which in ("forward", "inverse"):
            pcs = t[which]
            where = "%s:%d" % (mod.relpath, pcs[0]["line"])
            key = "thermocouples.%s::%s" % (t["name"], which)
            problems = []
            if pcs[0]["start"] is not None:
                problems.append("first piece starts at %r instead of being open below" % pcs[0]["start"])
            if pcs[-1]["end"] is not None:
                problems.append("last piece ends at %r instead of being open above" % pcs[-1]["end"])
            for a, b in zip(pcs, pcs[1:]):
                if a["end"] is None or b["start"] is None or float(a["end"]) != float(b["start"]):
                    problems.append("piece ending at %r is followed by a piece starting at %r" % (a["end"], b["start"]))
            for p in pcs:
                if p["start"] is not None and p["end"] is not None and not (p["start"] < p["end"]):
                    problems.append("empty piece [%r, %r)" % (p["start"], p["end"]))
            R.check(not problems, key, where, "%d pieces partition the real line" % len(pcs),
                    "the %s table of type %s does not partition the real line (%s): some inputs fall into no piece (NaN) or the table is rejected at import" % (
                        which, letter, "; ".join(problems)))


@rule("TB2", "piece selection is start <= v < end, conditions and functions are built from the same list, nothing else yields NaN", floor=8)
def tb2(ctx, R):
    prog = ctx.prog
    wr = prog.func("thermocouples.Range.within_range")
    rets = [unparse(n.value).replace(" ", "") for n in walk_body(wr.node) if isinstance(n, ast.Return)]
    want = {"value<self.end", "self.start<=value", "(self.start<=value)&(value<self.end)"}
    R.check(set(rets) == want and len(rets) == 3, "thermocouples.Range.within_range", wr.where(), "inclusive start, exclusive end in all three branches",
            "range membership is %s (expected start <= v < end): a value exactly on a piece boundary belongs to two pieces or to none" % rets)
    vc = prog.func("thermocouples._verify_contiguous")
    t = unparse(vc.node)
    R.check("applicable_range.start != prev_end" in t and "raise ValueError" in t, "thermocouples._verify_contiguous", vc.where(),
            "pieces must join exactly", "contiguity of the tables is no longer verified")
    ti = prog.func("thermocouples.Thermocouple.__init__")
    calls = [unparse(c) for c in walk_body(ti.node) if isinstance(c, ast.Call) and call_name(c) == "_verify_contiguous"]
    R.check(sorted(calls) == ["_verify_contiguous(forward_polynomials)", "_verify_contiguous(inverse_polynomials)"], "thermocouples.Thermocouple.__init__::verification", ti.where(),
            "both tables verified", "contiguity verified for %s" % calls)
    for q, attr in (("thermocouples.Thermocouple.celsius_to_mv", "self._forward_polynomials"), ("thermocouples.Thermocouple.mv_to_celsius", "self._inverse_polynomials")):
        f = prog.func(q)
        arg = f.params[1]
        comps = [n for n in walk_body(f.node) if isinstance(n, ast.ListComp)]
        srcs = [unparse(c.generators[0].iter) for c in comps]
        elts = [unparse(c.elt) for c in comps]
        ok = len(comps) == 2 and srcs == [attr, attr] and elts[0] == "p.within_range(%s)" % arg and elts[1] == "p.apply"
        R.check(ok, q + "::conditions/functions", f.where(), "both lists are built from %s in order" % attr,
                "conditions %s / functions %s are not built from %s in the same order" % (elts[:1], elts[1:], attr))
        nans = [n for n in ast.walk(f.node) if isinstance(n, ast.Attribute) and dotted(n) in ("np.nan", "numpy.nan", "np.NaN")] + \
               [n for n in ast.walk(f.node) if isinstance(n, ast.Call) and call_name(n) in ("float",) and n.args and isinstance(n.args[0], ast.Constant) and str(n.args[0].value).lower() == "nan"]
        appended = [c for c in walk_body(f.node) if isinstance(c, ast.Call) and call_name(c) == "functions.append" and c.args and dotted(c.args[0]) == "np.nan"]
        R.check(len(nans) == 1 and len(appended) == 1, q + "::only the unreachable default is NaN", f.where(), "np.nan appears once, as the piecewise default",
                "%d NaN-producing expression(s) besides the piecewise default: the conversion is no longer total (NaN for inputs outside some limits)" % (len(nans) - len(appended)))
        extra = [c for c in ast.walk(f.node) if isinstance(c, ast.Call) and call_name(c) in ("np.where", "np.clip", "np.ma.masked_outside", "np.full_like") ]
        R.check(not extra, q + "::no range masking", f.where(), "no masking outside limits", "result is masked/clipped with `%s`" % (unparse(extra[0])[:60] if extra else ""))
        pw = [c for c in walk_body(f.node) if isinstance(c, ast.Call) and call_name(c) == "np.piecewise"]
        R.check(bool(pw) and unparse(pw[0].args[0]) == arg and [unparse(a) for a in pw[0].args[1:3]] == ["conditions", "functions"], q + "::piecewise", f.where(),
                "np.piecewise(%s, conditions, functions)" % arg, "piecewise evaluation changed")
    ap = prog.func("thermocouples.Polynomial.apply")
    r = [unparse(n.value) for n in walk_body(ap.node) if isinstance(n, ast.Return)]
    mod = prog.module("thermocouples")
    R.check(r == ["poly.polyval(x, self._coefficients)"] and mod.imports.get("poly") == "numpy.polynomial.polynomial", "thermocouples.Polynomial.apply", ap.where(),
            "numpy.polynomial.polynomial.polyval: coefficients in ascending order, as tabulated",
            "polynomials are evaluated by `%s` (import poly=%s): np.polyval expects the highest power first and would silently reverse the tables" % (r, mod.imports.get("poly")))
    # type K exponential term
    f = prog.func("thermocouples.Thermocouple.celsius_to_mv")
    t = unparse(f.node).replace(" ", "")
    arg = f.params[1]
    R.check("a_0*np.exp(a_1*np.square(t-a_2))" in t and ("[%s>=0]" % arg) in t and "a_0,a_1,a_2=self._exponential_term" in t and ",0.0]" in t,
            "thermocouples.Thermocouple.celsius_to_mv::exponential term", f.where(), "a0 * exp(a1 * (t - a2)**2) for t >= 0, else 0",
            "the type K exponential term is no longer a0 * exp(a1 * (t - a2)**2) applied for t >= 0 only")


def _load(name):
    p = os.path.join(REFDIR, name)
    if not os.path.exists(p):
        raise AnchorMissing("reference data %s" % p)
    return json.load(open(p))


@rule("TB3", "forward tables equal the NIST ITS-90 reference; inverse tables equal the reviewed transcription", floor=25)
def tb3(ctx, R):
    prog = ctx.prog
    tabs = extract_tables(prog)
    mod = prog.module("thermocouples")
    ref = _load("nist_its90_forward.json")["types"]
    inv = _load("nist_its90_inverse_pinned.json")["types"]
    for letter, t in sorted(tabs.items()):
        fw = t["forward"]
        rf = ref.get(letter)
        if rf is None or len(rf) != len(fw):
            R.violation("thermocouples.%s::forward piece count" % t["name"], "%s:%d" % (mod.relpath, fw[0]["line"]),
                        "%d forward pieces, the NIST reference function for type %s has %s" % (len(fw), letter, len(rf) if rf else "none"))
            continue
        for i, (p, r) in enumerate(zip(fw, rf)):
            where = "%s:%d" % (mod.relpath, p["line"])
            key = "thermocouples.%s::forward piece %d" % (t["name"], i)
            # interior boundaries
            b_ok = (i == 0 or float(p["start"]) == float(r["tmin"])) and (i == len(fw) - 1 or float(p["end"]) == float(r["tmax"]))
            if not b_ok:
                R.violation(key + " boundary", where, "piece boundary [%r, %r) differs from the NIST sub-range [%r, %r]" % (p["start"], p["end"], r["tmin"], r["tmax"]))
            c, rc = p["coefficients"], [float(x) for x in r["coefficients_ascending"]]
            # trailing zero coefficients are immaterial
            while len(c) > len(rc) and c[-1] == 0.0:
                c = c[:-1]
            while len(rc) > len(c) and rc[-1] == 0.0:
                rc = rc[:-1]
            if c == rc:
                R.ok(key, where, "%d coefficients equal the NIST ITS-90 reference function" % len(c))
            else:
                diff = [j for j, (a, b) in enumerate(zip(c, rc)) if a != b] or ["length %d vs %d" % (len(c), len(rc))]
                R.violation(key, where, "coefficient(s) %s of the type %s temperature->voltage function differ from the NIST ITS-90 reference (e.g. %r vs %r)" % (
                    diff[:4], letter, c[diff[0]] if isinstance(diff[0], int) else None, rc[diff[0]] if isinstance(diff[0], int) else None))
        g = [r["gaussian"] for r in rf if r["gaussian"]]
        if g or t["exponential"]:
            R.check(bool(g) and t["exponential"] == [float(x) for x in g[0]], "thermocouples.%s::exponential constants" % t["name"], "%s:%d" % (mod.relpath, t["node"].lineno),
                    "exponential term constants equal the reference", "exponential term %s differs from the NIST constants %s" % (t["exponential"], g[0] if g else None))
        iv = t["inverse"]
        ri = inv.get(letter)
        same = ri is not None and len(ri) == len(iv) and all(
            (a["start"], a["end"]) == (b["start"], b["end"]) and a["coefficients"] == [float(x) for x in b["coefficients"]] for a, b in zip(iv, ri))
        if same:
            R.ok("thermocouples.%s::inverse table" % t["name"], "%s:%d" % (mod.relpath, iv[0]["line"]), "%d pieces equal the reviewed transcription of the NIST inverse polynomials" % len(iv))
        else:
            where = "%s:%d" % (mod.relpath, iv[0]["line"])
            detail = "piece count differs"
            if ri is not None and len(ri) == len(iv):
                for i, (a, b) in enumerate(zip(iv, ri)):
                    if (a["start"], a["end"]) != (b["start"], b["end"]):
                        detail = "piece %d range [%r, %r) vs [%r, %r)" % (i, a["start"], a["end"], b["start"], b["end"])
                        where = "%s:%d" % (mod.relpath, a["line"])
                        break
                    bc = [float(x) for x in b["coefficients"]]
                    if a["coefficients"] != bc:
                        j = [k for k, (x, y) in enumerate(zip(a["coefficients"], bc)) if x != y]
                        detail = "piece %d coefficient %s: %r vs %r" % (i, j[:3], a["coefficients"][j[0]] if j else None, bc[j[0]] if j else None)
                        where = "%s:%d" % (mod.relpath, a["line"])
                        break
            R.violation("thermocouples.%s::inverse table" % t["name"], where, "the type %s voltage->temperature table differs from the NIST inverse polynomials (%s)" % (letter, detail))
    if ctx.thorough:
        # cross-validate the vendored forward copy against the copy shipped in /venv, read by ast
        try:
            import importlib.util
            spec = importlib.util.find_spec("thermocouples_reference")
        except Exception:
            spec = None
        if spec is not None and spec.submodule_search_locations:
            import sys
            sys.path.insert(0, os.path.join(os.path.dirname(REFDIR), "..", "tools"))
            path = os.path.join(list(spec.submodule_search_locations)[0], "source_NIST.py")
            from importlib.machinery import SourceFileLoader
            tools = os.path.join(os.path.dirname(os.path.dirname(REFDIR)), "tools", "vendor_nist.py")
            vn = SourceFileLoader("vendor_nist", tools).load_module()
            live = vn.forward_reference(path)
            R.check(json.loads(json.dumps(live)) == ref, "refdata::vendored forward tables equal thermocouples_reference", tools,
                    "vendored copy equals the NIST tables shipped in /venv", "vendored reference differs from thermocouples_reference/source_NIST.py")


@rule("TB4", "NI thermocouple type codes select the table of the same letter", floor=8)
def tb4(ctx, R):
    prog = ctx.prog
    smod = prog.module("scaling")
    cls = prog.cls("scaling.ThermocoupleScaling")
    dicts = [n for n in ast.walk(cls.node) if isinstance(n, ast.Dict) and len(n.keys) >= 8]
    if not dicts:
        raise AnchorMissing("scaling.ThermocoupleScaling: type code dictionary")
    d = dicts[0]
    got = {}
    for k, v in zip(d.keys, d.values):
        got[prog.try_fold(k, smod)] = dotted(v)
    for code, letter in sorted(NI_CODES.items()):
        want = "thermocouples.type_%s" % letter.lower()
        R.check(got.get(code) == want, "scaling.ThermocoupleScaling::code %d" % code, "%s:%d" % (smod.relpath, d.lineno), "%d -> type %s" % (code, letter),
                "NI-DAQmx thermocouple type code %d (type %s) selects %s: channels of this type are converted with another type's tables" % (code, letter, got.get(code)))
    R.check(len(set(got.values())) == len(got) == 8, "scaling.ThermocoupleScaling::eight distinct targets", "%s:%d" % (smod.relpath, d.lineno), "8 codes, 8 tables",
            "type code map has %d entries with %d distinct targets" % (len(got), len(set(got.values()))))
    fp = prog.func("scaling.ThermocoupleScaling.from_properties")
    t = unparse(fp.node)
    R.check("_Thermocouple_Type" in t and "_Scaling_Direction" in t and "10072" in t, "scaling.ThermocoupleScaling.from_properties", fp.where(),
            "type (default J) and direction are read from the scale's properties", "type/direction properties are not read as before")


def _ten_exponent(prog, fi, e, target_call):
    """Power of ten applied around `target_call` inside expression e:  (factor on argument, factor on result)."""
    import math

    def lit(x):
        v = prog.try_fold(x, fi.module)
        if isinstance(v, (int, float)) and v > 0:
            lg = math.log10(v)
            if abs(lg - round(lg)) < 1e-12:
                return int(round(lg))
        return None
    # result factor: walk up multiplications/divisions around the call
    res = 0
    cur = e

    def find(node, acc):
        if node is target_call:
            return acc
        if isinstance(node, ast.BinOp) and isinstance(node.op, (ast.Mult, ast.Div)):
            l, r = lit(node.left), lit(node.right)
            if isinstance(node.op, ast.Mult):
                if l is not None:
                    x = find(node.right, acc + l)
                    if x is not None:
                        return x
                if r is not None:
                    x = find(node.left, acc + r)
                    if x is not None:
                        return x
            else:
                if r is not None:
                    x = find(node.left, acc - r)
                    if x is not None:
                        return x
        return None
    return find(e, 0)


@rule("TB5", "the scaling applies the configured direction with TDMS's microvolt convention", floor=3)
def tb5(ctx, R):
    prog = ctx.prog
    fi = prog.func("scaling.ThermocoupleScaling.scale")
    ifs = [n for n in walk_body(fi.node) if isinstance(n, ast.If) and "scaling_direction" in unparse(n.test)]
    if not ifs:
        raise AnchorMissing("scaling.ThermocoupleScaling.scale: branch on scaling_direction")
    br = ifs[0]
    R.check(unparse(br.test) == "self.scaling_direction == 1", "scaling.ThermocoupleScaling.scale::direction test", fi.where(br),
            "direction 1 = temperature to voltage", "direction test is `%s`" % unparse(br.test))

    def analyse(stmts, method):
        calls = [c for s in stmts for c in ast.walk(s) if isinstance(c, ast.Call) and isinstance(c.func, ast.Attribute) and c.func.attr == method]
        if not calls:
            return None
        c = calls[0]
        ret = [s for s in stmts if isinstance(s, ast.Return)]
        res_exp = _ten_exponent(prog, fi, ret[0].value, c) if ret else None
        arg = c.args[0]
        arg_exp = 0
        if isinstance(arg, ast.Name):
            ds = [s.value for s in stmts if isinstance(s, ast.Assign) and dotted(s.targets[0]) == arg.id]
            if ds:
                inner = [x for x in ast.walk(ds[0]) if isinstance(x, ast.Name) and x.id == fi.params[1]]
                arg_exp = _ten_exponent(prog, fi, ds[0], inner[0]) if inner else None
        elif not (isinstance(arg, ast.Name)):
            inner = [x for x in ast.walk(arg) if isinstance(x, ast.Name) and x.id == fi.params[1]]
            arg_exp = _ten_exponent(prog, fi, arg, inner[0]) if inner else None
        return arg_exp, res_exp
    fwd = analyse(br.body, "celsius_to_mv")
    inv = analyse(br.orelse, "mv_to_celsius")
    R.check(fwd == (0, 3), "scaling.ThermocoupleScaling.scale::direction 1", fi.where(br), "microvolts = 10**3 x celsius_to_mv(data)",
            "in direction 1 the data is scaled by 10**%s before and the result by 10**%s after celsius_to_mv (expected 0 and 3: mV -> uV); wrong branch or wrong unit factor" % (
                fwd if fwd is None else fwd[0], None if fwd is None else fwd[1]))
    R.check(inv == (-3, 0), "scaling.ThermocoupleScaling.scale::direction 0", fi.where(br), "temperature = mv_to_celsius(data x 10**-3)",
            "in the voltage->temperature direction the data is scaled by 10**%s before and the result by 10**%s after mv_to_celsius (expected -3 and 0: uV -> mV)" % (
                inv if inv is None else inv[0], None if inv is None else inv[1]))
