"""Helpers that make rules robust against 'extract helper' refactorings: a function's region
(itself plus the private helpers it calls), call-graph based event detection, dependence cones."""
import ast

from .core import call_name, dotted, walk_body, walk_shallow, unparse
from .cfg import node_calls

INTRA = {"direct", "self", "super", "receiver", "ctor"}


def region(ctx, fi, depth=3, same_module=True):
    """fi plus the package functions it (transitively) calls through resolved edges."""
    cg = ctx.callgraph()
    prog = ctx.prog
    out = [fi]
    seen = {fi.qual}
    frontier = [fi]
    for _ in range(depth):
        nxt = []
        for f in frontier:
            for e in cg.callees(f.qual):
                if e.kind not in INTRA:
                    continue
                g = prog.functions.get(e.callee)
                if g is None or g.qual in seen:
                    continue
                if same_module and g.module is not fi.module:
                    continue
                seen.add(g.qual)
                out.append(g)
                nxt.append(g)
        frontier = nxt
    return out


def call_targets(ctx, fi, call):
    """callee quals of one call node of fi (resolved edges only)"""
    cg = ctx.callgraph()
    return [e.callee for e in cg.callees(fi.qual) if e.node is call and e.kind in INTRA | {"byname", "byname-unique"}]


def call_reaches(ctx, fi, call, target_quals, depth=4):
    """does this call (transitively) reach one of target_quals"""
    cg = ctx.callgraph()
    starts = call_targets(ctx, fi, call)
    if any(s in target_quals for s in starts):
        return True
    if not starts:
        return False
    seen = cg.reachable(starts, kinds=INTRA | {"byname", "byname-unique"})
    return any(t in seen for t in target_quals)


def nodes_reaching(ctx, fi, cfg, target_quals):
    """CFG nodes of fi containing a call that reaches one of target_quals"""
    return cfg.where(lambda n: any(call_reaches(ctx, fi, c, target_quals) for c in node_calls(n)))


def names_in(e):
    return {n.id for n in ast.walk(e) if isinstance(n, ast.Name)}


def attrs_in(e):
    """dotted attribute chains, plus '.attr' tokens for attributes of non-name bases (p[0].is_root -> '.is_root')"""
    out = set()
    for n in ast.walk(e):
        if isinstance(n, ast.Attribute):
            d = dotted(n)
            if d:
                out.add(d)
            out.add("." + n.attr)
    return out


def _names_outside_indices(e):
    """names of an expression, not counting those that only select an element (inside a subscript's index)"""
    out = set()

    def walk(x):
        if isinstance(x, ast.Subscript):
            walk(x.value)
            return
        if isinstance(x, ast.IfExp):
            walk(x.body)          # the test selects, it does not enter the arithmetic
            walk(x.orelse)
            return
        if isinstance(x, ast.Name):
            out.add(x.id)
        for y in ast.iter_child_nodes(x):
            walk(y)
    walk(e)
    return out


def cone(ctx, fi, expr, depth=3, _seen=None, control=True, loops=True, indices=True):
    """Backward dependence cone of an expression inside fi: the set of names and dotted attribute
    chains the value may depend on, following local assignments (data dependence), the tests of the
    ifs/loops enclosing those assignments (control dependence) and the return expressions of
    resolved package helpers."""
    prog = ctx.prog
    _seen = _seen if _seen is not None else set()
    out = set()
    work = [expr]
    local_done = set()
    while work:
        e = work.pop()
        e_names = names_in(e) if indices else _names_outside_indices(e)
        out |= e_names | attrs_in(e)
        for c in [x for x in ast.walk(e) if isinstance(x, ast.Call)]:
            if depth > 0:
                for q in call_targets(ctx, fi, c):
                    g = prog.functions.get(q)
                    if g is None or q in _seen:
                        continue
                    _seen.add(q)
                    for r in [n for n in walk_body(g.node) if isinstance(n, ast.Return) and n.value is not None]:
                        out |= {("%s" % x) for x in cone(ctx, g, r.value, depth - 1, _seen, control, loops, indices)}
        for nm in list(e_names):
            if nm in local_done or nm in fi.params:
                continue
            local_done.add(nm)
            for n in walk_body(fi.node):
                tg = val = None
                if isinstance(n, ast.Assign):
                    tg, val = n.targets, n.value
                elif isinstance(n, ast.AugAssign):
                    tg, val = [n.target], n.value
                elif isinstance(n, (ast.For, ast.comprehension)):
                    if not loops:
                        continue
                    tg, val = [n.target], n.iter
                elif isinstance(n, ast.Call) and isinstance(n.func, ast.Attribute) and dotted(n.func.value) == nm \
                        and n.func.attr in ("append", "add", "extend", "update", "insert"):
                    for a in n.args:
                        work.append(a)
                    if control:
                        for anc in _enclosing_tests(fi, n):
                            work.append(anc)
                    continue
                if tg is None:
                    continue
                if any(isinstance(x, ast.Name) and x.id == nm for t in tg for x in ast.walk(t)):
                    work.append(val)
                    if control:
                        for anc in _enclosing_tests(fi, n):
                            work.append(anc)
    return out


def _enclosing_tests(fi, node):
    out = []
    for anc in walk_body(fi.node):
        if isinstance(anc, (ast.If, ast.While)) and any(x is node for b in (anc.body, anc.orelse) for s in b for x in ast.walk(s)):
            out.append(anc.test)
        if isinstance(anc, ast.IfExp) and any(x is node for x in ast.walk(anc)):
            out.append(anc.test)
    return out


def must_call(ctx, fi, target_quals, depth=3, _seen=None):
    """every normal path from the entry of fi to its exit passes a call that (surely) reaches one of target_quals"""
    _seen = _seen or set()
    if fi.qual in _seen or depth < 0:
        return False
    cfg = ctx.cfg(fi)
    nodes = set(must_call_nodes(ctx, fi, cfg, target_quals, depth, _seen | {fi.qual}))
    if not nodes:
        return False
    r = cfg.reach([cfg.entry], avoid=lambda n: n in nodes, follow_exc=False)
    return cfg.exit not in r and cfg.entry not in nodes or (cfg.entry in nodes)


def must_call_nodes(ctx, fi, cfg, target_quals, depth=3, _seen=None):
    """CFG nodes of fi containing a call that surely reaches one of target_quals: the call resolves to a target, or every
    function it resolves to must-calls a target on all its normal paths"""
    prog = ctx.prog
    out = []
    for n in cfg.nodes:
        for c in node_calls(n):
            callees = call_targets(ctx, fi, c)
            if not callees:
                continue
            if any(q in target_quals for q in callees):
                out.append(n)
                break
            if depth > 0 and all(prog.has_func(q) and must_call(ctx, prog.func(q), target_quals, depth - 1, _seen) for q in callees):
                out.append(n)
                break
    return out


def backward_slice(ctx, fi, expr, depth=2, frames=None, _seen=None):
    """Expressions the value of `expr` is computed from: [(frames, ast expr)] where frames is the chain
    ((FuncInfo, {param: caller arg expr}), ...) from fi down to the function containing the expression.  Follows local
    assignments (and augmented assignments), and the bodies of resolved package helpers called in those expressions."""
    prog = ctx.prog
    frames = frames if frames is not None else ((fi, {}),)
    _seen = _seen if _seen is not None else set()
    out = []
    work = [expr]
    done = set()
    while work:
        e = work.pop()
        if id(e) in _seen:
            continue
        _seen.add(id(e))
        out.append((frames, e))
        for c in [x for x in ast.walk(e) if isinstance(x, ast.Call)]:
            if depth > 0 and ("handled", id(c)) not in _seen:
                for q in call_targets(ctx, fi, c):
                    g = prog.functions.get(q)
                    if g is None or g.is_generator:
                        continue
                    ps = [p for p in g.params if not (g.cls is not None and not g.is_static and p in ("self", "cls"))]
                    binding = {}
                    for p, a in zip(ps, c.args):
                        binding[p] = a
                    for k in c.keywords:
                        if k.arg:
                            binding[k.arg] = k.value
                    for r in [n for n in walk_body(g.node) if isinstance(n, ast.Return) and n.value is not None]:
                        out += backward_slice(ctx, g, r.value, depth - 1, frames + ((g, binding),), _seen)
        for nm in names_in(e):
            if nm in done:
                continue
            done.add(nm)
            for n in walk_body(fi.node):
                if isinstance(n, ast.Assign) and any(isinstance(t, ast.Name) and t.id == nm for t in n.targets):
                    work.append(n.value)
                elif isinstance(n, ast.Assign) and any(isinstance(t, (ast.Tuple, ast.List)) and any(isinstance(x, ast.Name) and x.id == nm for x in t.elts) for t in n.targets):
                    # a, b = ...: follow only the element this name receives when the right side is a tuple or a helper returning tuples
                    t = [t for t in n.targets if isinstance(t, (ast.Tuple, ast.List))][0]
                    idx = [k for k, x in enumerate(t.elts) if isinstance(x, ast.Name) and x.id == nm][0]
                    val = n.value
                    if isinstance(val, (ast.Tuple, ast.List)) and len(val.elts) == len(t.elts):
                        work.append(val.elts[idx])
                    elif isinstance(val, ast.Call) and depth > 0 and call_targets(ctx, fi, val):
                        handled = False
                        for q in call_targets(ctx, fi, val):
                            g = prog.functions.get(q)
                            if g is None or g.is_generator:
                                continue
                            ps = [p for p in g.params if not (g.cls is not None and not g.is_static and p in ("self", "cls"))]
                            binding = dict(zip(ps, val.args))
                            binding.update({k.arg: k.value for k in val.keywords if k.arg})
                            for r in [x for x in walk_body(g.node) if isinstance(x, ast.Return) and x.value is not None]:
                                rv = r.value
                                if isinstance(rv, (ast.Tuple, ast.List)) and len(rv.elts) == len(t.elts):
                                    rv = rv.elts[idx]
                                out += backward_slice(ctx, g, rv, depth - 1, frames + ((g, binding),), _seen)
                                handled = True
                        if handled:
                            _seen.add(("handled", id(val)))
                            for a in list(val.args) + [k.value for k in val.keywords]:
                                work.append(a)
                        else:
                            work.append(val)
                    else:
                        work.append(val)
                elif isinstance(n, ast.AugAssign) and isinstance(n.target, ast.Name) and n.target.id == nm:
                    work.append(n.value)
                elif isinstance(n, ast.For) and depth > 0 and nm in names_in(n.target):
                    out += _through_generator(ctx, fi, n, nm, e, depth, frames, _seen)
    return out


def ctor_fields(ci):
    """{parameter position (without self): (field, parameter)} for `self.f = parameter` in __init__"""
    init = ci.methods.get("__init__") if ci else None
    out = {}
    if init:
        for n in walk_body(init.node):
            if isinstance(n, ast.Assign) and isinstance(n.value, ast.Name) and n.value.id in init.params[1:]:
                for t in n.targets:
                    if isinstance(t, ast.Attribute) and dotted(t.value) == "self":
                        out[init.params.index(n.value.id) - 1] = (t.attr, n.value.id)
    return out


def _through_generator(ctx, fi, loop, nm, e, depth, frames, _seen):
    """`for .. nm .. in gen(args)`: the values nm (or the fields of nm that e reads) receives are what the package generator
    yields: tuples element-wise, records (constructor calls storing their parameters) field-wise"""
    prog = ctx.prog

    def path_to(t):
        if isinstance(t, ast.Name):
            return [] if t.id == nm else None
        if isinstance(t, (ast.Tuple, ast.List)):
            for k, x in enumerate(t.elts):
                p_ = path_to(x)
                if p_ is not None:
                    return [k] + p_
        return None
    path = path_to(loop.target)
    if path is None:
        return []
    it = loop.iter
    for _ in range(4):
        if isinstance(it, ast.Name):
            defs = [n for n in walk_body(fi.node) if isinstance(n, ast.Assign) and any(isinstance(t, ast.Name) and t.id == it.id for t in n.targets)]
            if len(defs) != 1:
                return []
            it = defs[0].value
        elif isinstance(it, ast.Call) and call_name(it) == "enumerate" and it.args:
            if not path or path[0] != 1:
                return []
            it, path = it.args[0], path[1:]
        else:
            break
    if not isinstance(it, ast.Call):
        return []
    fields = {x.attr for x in ast.walk(e) if isinstance(x, ast.Attribute) and isinstance(x.value, ast.Name) and x.value.id == nm}
    bare = any(isinstance(x, ast.Name) and x.id == nm for x in ast.walk(e)) and not fields
    out = []
    for q in call_targets(ctx, fi, it):
        g = prog.functions.get(q)
        if g is None or not g.is_generator:
            continue
        ps = [p for p in g.params if not (g.cls is not None and not g.is_static and p in ("self", "cls"))]
        binding = dict(zip(ps, it.args))
        binding.update({k.arg: k.value for k in it.keywords if k.arg})
        for y in [x for x in walk_body(g.node) if isinstance(x, ast.Yield) and x.value is not None]:
            v = y.value
            for k in path:
                if isinstance(v, (ast.Tuple, ast.List)) and k < len(v.elts):
                    v = v.elts[k]
                else:
                    break
            sel = [v]
            if fields and not bare and isinstance(v, ast.Call):
                ci = prog.resolve_class(g.module, v.func)
                cf = ctor_fields(ci) if ci is not None else {}
                if cf:
                    sel = [a for pos, a in enumerate(v.args) if pos in cf and cf[pos][0] in fields]
                    sel += [k.value for k in v.keywords for pos, (fld, pn) in cf.items() if k.arg == pn and fld in fields]
            for x in sel:
                out += backward_slice(ctx, g, x, depth - 1, frames + ((g, binding),), _seen)
    return out


def data_roots(ctx, frames, expr):
    """names of the OUTERMOST function that `expr` (inside the innermost frame) is computed from by data flow alone (no control
    dependence, not through loop variables); parameters of inner frames are traced to the caller's argument expressions"""
    fi, binding = frames[-1]
    names = cone(ctx, fi, expr, depth=1, control=False, loops=False, indices=False)
    if len(frames) == 1:
        return {n for n in names if not n.startswith(".")}
    out = set()
    for n in names:
        if n in binding:
            out |= data_roots(ctx, frames[:-1], binding[n])
    return out
