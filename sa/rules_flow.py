"""Reader-path structural rules:
PR1/GR1/UD1 (C01), MP1/MP3/TS1/OFS1 (C03), CS1/ES1/CS2/NT1 (C04), BD1/GD1/CG1/CH1 (C19, C04)."""
import ast

from .registry import rule
from .core import call_name, dotted, walk_shallow, walk_body, unparse, AnchorMissing
from .cfg import node_calls
from .absval import assume_from, NONE, NOTNONE


def _names(e):
    return {n.id for n in ast.walk(e) if isinstance(n, ast.Name)}


def dep_closure(fi, seeds, through_loops=True):
    """Flow-insensitive data dependence inside one function: names that (transitively)
    depend on any of `seeds` through assignments, augmented assignments, loop targets and
    tuple unpacking.  -> set of names"""
    deps = set(seeds)
    changed = True
    while changed:
        changed = False
        for n in walk_body(fi.node):
            tgts, val = [], None
            if isinstance(n, ast.Assign):
                tgts, val = n.targets, n.value
            elif isinstance(n, ast.AugAssign):
                tgts, val = [n.target], n.value
            elif isinstance(n, (ast.For, ast.comprehension)):
                if not through_loops:
                    continue
                tgts, val = [n.target], n.iter
            elif isinstance(n, ast.NamedExpr):
                tgts, val = [n.target], n.value
            if val is None:
                continue
            if _names(val) & deps or any(isinstance(x, ast.Attribute) and dotted(x) in deps for x in ast.walk(val)):
                for t in tgts:
                    for x in ast.walk(t):
                        if isinstance(x, ast.Name) and x.id not in deps:
                            deps.add(x.id)
                            changed = True
    return deps


def depends_on(fi, expr, seeds):
    d = dep_closure(fi, seeds)
    return bool(_names(expr) & d)


# ---------------------------------------------------------------------------
# C01

@rule("PR1", "objects keep first-appearance order and each property keeps the last value written", floor=9)
def pr1(ctx, R):
    prog = ctx.prog
    ORDERED = ("OrderedDict", "dict")

    def is_ordered_map(v):
        return (isinstance(v, ast.Call) and call_name(v) in ORDERED and not v.args) or (isinstance(v, ast.Dict) and not v.keys)
    checks = [("reader.TdmsReader.__init__", "self.object_metadata"), ("reader.ObjectMetadata.__init__", "self.properties"),
              ("tdms.TdmsFile.__init__", "self._groups"), ("tdms.TdmsFile.__init__", "self._properties"),
              ("tdms.TdmsFile._read_file", "group_properties"), ("tdms.TdmsFile._read_file", "group_channels")]
    for q, target in checks:
        try:
            fi = prog.func(q)
        except AnchorMissing:
            if not q.endswith(".__init__"):
                raise
            # a record class without a written constructor (dataclass): the field's default factory is what initialises it
            ci = prog.cls(q.rsplit(".", 1)[0])
            decl = [n for n in ci.node.body if isinstance(n, ast.AnnAssign) and isinstance(n.target, ast.Name) and "self." + n.target.id == target]
            if not decl:
                R.note("%s no longer initialises %s" % (q, target))
                continue
            v = decl[0].value
            fac = next((k.value for k in v.keywords if k.arg == "default_factory"), None) if isinstance(v, ast.Call) and call_name(v) in ("field", "dataclasses.field") else None
            where = "%s:%d" % (ci.module.relpath, decl[0].lineno)
            if fac is not None and dotted(fac) in ORDERED + ("collections.OrderedDict",):
                R.ok("%s::%s" % (q, target), where, "insertion-ordered mapping (field default factory)")
            elif fac is not None:
                R.violation("%s::%s" % (q, target), where, "%s is initialised by `%s`, which does not keep insertion order / uniqueness by key" % (target, unparse(fac)))
            else:
                R.unrecognised("%s::%s" % (q, target), where, "how the field is initialised was not recognised (`%s`)" % unparse(decl[0])[:60])
            continue
        ds = [n for n in walk_body(fi.node) if isinstance(n, ast.Assign) and any(dotted(t) == target for t in n.targets)]
        if not ds:
            R.note("%s no longer initialises %s" % (q, target))
            continue
        R.check(all(is_ordered_map(d.value) for d in ds), "%s::%s" % (q, target), fi.where(ds[0]),
                "insertion-ordered mapping", "%s is initialised with `%s`, which does not keep insertion order / uniqueness by key" % (target, unparse(ds[0].value)))
    # first appearance creates, later appearances reuse
    from .sem import subscript_stores, method_calls_on, leaves, flat_conds, match, W, find
    from .sym import Sym, show
    goc = prog.func("reader.TdmsReader._get_or_create_object")
    P = ("param", [p for p in goc.params if p != "self"][0])
    v = Sym(prog, goc, goc.cls).function_value()
    key = "reader.TdmsReader._get_or_create_object::insert on first appearance only"
    fresh_unconditional = False
    fresh_guarded = False
    for conds, leaf in leaves(v):
        parts = [leaf] if leaf[0] != "try" else [leaf[1], leaf[3]]
        for part in parts:
            if part[0] == "new":
                absent = leaf[0] == "try" and part is leaf[3] and leaf[2] == "KeyError" and match(("sub", W(), P), leaf[1]) is not None
                for c in flat_conds(conds):
                    if match(("cmp", "is", ("method", "get", W(), (P,), ()), ("const", None)), c) is not None or match(("cmp", "not in", P, W()), c) is not None:
                        absent = True
                fresh_guarded = fresh_guarded or absent
                fresh_unconditional = fresh_unconditional or not absent
    stores = [x for x in subscript_stores(prog, goc) if x[2] == P and x[3][0] == "new"]
    stored_when_absent = bool(stores) and all(any(g == ("except", "KeyError") or match(("cmp", "is", ("method", "get", W(), (P,), ()), ("const", None)), g) is not None
                                                  or match(("cmp", "not in", P, W()), g) is not None for g in x[4]) for x in stores)
    if fresh_unconditional or (stores and not stored_when_absent):
        R.violation(key, goc.where(), "object metadata is (re)created for objects already seen: `%s`" % show(v)[:160])
    elif fresh_guarded and stored_when_absent:
        R.ok(key, goc.where(), "an object is inserted when first seen and reused afterwards")
    else:
        R.undecided(key, goc.where(), "form `%s` not understood" % show(v)[:160])
    # properties: plain item assignment = last value wins
    up = prog.func("reader.TdmsReader._update_object_properties")
    pst = [x for x in subscript_stores(prog, up) if isinstance(x[1], tuple) and x[1][0] == "attr" and x[1][2] == "properties"]
    guarded = [x for x in pst if any(find(g, ("cmp", W("op", lambda o: o in ("in", "not in")), x[2], W())) for g in x[4])]
    firstwins = [c for c in method_calls_on(prog, up, ("setdefault",)) if isinstance(c[1], tuple) and c[1][0] == "attr" and c[1][2] == "properties"]
    key = "reader.TdmsReader._update_object_properties::last value wins"
    if guarded or firstwins:
        R.violation(key, up.where(), "a property keeps its first value (guarded store / setdefault) instead of the last one written")
    elif pst:
        R.ok(key, up.where(), "properties[prop] = val unconditionally, in file order")
    elif [c for c in method_calls_on(prog, up, ("update",)) if isinstance(c[1], tuple) and c[1][0] == "attr" and c[1][2] == "properties"]:
        R.ok(key, up.where(), "properties.update(pairs in file order): later values replace earlier ones")
    else:
        R.undecided(key, up.where(), "how the properties of an object are stored was not recognised")
    # both updates happen once per segment, in file order
    rm = prog.func("reader.TdmsReader.read_metadata")
    cfg = ctx.cfg(rm)
    app = cfg.where(lambda n: any(call_name(c) == "self._segments.append" for c in node_calls(n)))
    if not app:
        raise AnchorMissing("reader.TdmsReader.read_metadata: self._segments.append(segment)")
    for name in ("self._update_object_metadata", "self._update_object_properties"):
        through = lambda n, name=name: any(call_name(c) == name for c in node_calls(n))
        rsm = cfg.where(lambda n: any(call_name(c) == "self._read_segment_metadata" for c in node_calls(n)))
        ok = True
        for a in rsm:
            for succ, kind in a.succ:
                if kind in ("exc", "uncaught"):
                    continue
                if through(succ):
                    continue
                r = cfg.reach([succ], avoid=through, follow_exc=False)
                if any(x in r for x in app) :
                    # reached the append without the update
                    pass
                loop_heads = [n for n in r if n.kind == "test" and n.label == "while"]
                if loop_heads:
                    ok = False
        R.check(ok, "reader.TdmsReader.read_metadata::%s per segment" % name.split(".")[-1], rm.where(),
                "every parsed segment updates the accumulated object state before the next one is read",
                "a segment can be parsed without %s being applied" % name)
    # no sorting / set conversion of objects on the way to the user
    rf = prog.func("tdms.TdmsFile._read_file")
    bad = [c for c in walk_body(rf.node) if isinstance(c, ast.Call) and call_name(c) in ("sorted", "set", "frozenset", "reversed")]
    R.check(not bad, "tdms.TdmsFile._read_file::no reordering", rf.where(), "objects are processed in metadata order",
            "objects are reordered or de-duplicated through `%s`" % (unparse(bad[0])[:60] if bad else ""))
    from .region import region as _region
    rfreg = [f_ for f_ in _region(ctx, rf, depth=2) if f_.module is rf.module]
    bad2 = [c for f_ in rfreg if f_ is not rf for c in walk_body(f_.node) if isinstance(c, ast.Call) and call_name(c) in ("sorted", "reversed")
            and "object_metadata" in unparse(c)]
    loops = [n for f_ in rfreg for n in ast.walk(f_.node) if isinstance(n, (ast.For, ast.comprehension)) and "object_metadata.items()" in unparse(n.iter)]
    key_ = "tdms.TdmsFile._read_file::iterates object_metadata in order"
    if bad2:
        R.violation(key_, rf.where(), "objects are reordered on the way to the hierarchy (`%s`)" % unparse(bad2[0])[:60])
    elif loops:
        R.ok(key_, rf.where(), "iterates tdms_reader.object_metadata.items()")
    else:
        R.undecided(key_, rf.where(), "no loop over <reader>.object_metadata.items() reached from _read_file: how the hierarchy is built was not recognised")
    for q in ("tdms.TdmsFile.groups", "tdms.TdmsGroup.channels"):
        f = prog.func(q)
        r = [n for n in walk_body(f.node) if isinstance(n, ast.Return)]
        R.check(bool(r) and unparse(r[0].value) in ("list(self._groups.values())", "list(self._channels.values())"), q, f.where(),
                "returns the values in insertion order", "returns `%s`" % (unparse(r[0].value) if r else None))


@rule("GR1", "a group created while walking the objects is never replaced by a later object of the same walk", floor=1)
def gr1(ctx, R):
    prog = ctx.prog
    from .region import region
    top = prog.func("tdms.TdmsFile._read_file")
    n_stores = 0
    for rf, loop in [(f, n) for f in region(ctx, top, depth=2) if f.cls is top.cls for n in walk_body(f.node) if isinstance(n, ast.For)]:
        stores = []
        for n in ast.walk(loop):
            if isinstance(n, ast.Assign):
                for t in n.targets:
                    if isinstance(t, ast.Subscript) and dotted(t.value) == "self._groups":
                        stores.append(n)
        over_objects = "object_metadata" in unparse(loop.iter)
        for st in stores:
            n_stores += 1
            key = "%s::%s" % (rf.qual, unparse(st)[:60])
            guarded = False
            # guarded by `k not in self._groups` or inside `except KeyError`
            for anc in ast.walk(loop):
                if isinstance(anc, ast.If) and any(x is st for s in anc.body for x in ast.walk(s)) and "not in self._groups" in unparse(anc.test):
                    guarded = True
                if isinstance(anc, ast.ExceptHandler) and any(x is st for s in anc.body for x in ast.walk(s)) and anc.type is not None and "KeyError" in unparse(anc.type):
                    guarded = True
            if over_objects and not guarded and len(stores) > 1:
                R.violation(key, rf.where(st), "while walking the file's objects a group entry is stored unconditionally although the same walk also "
                            "creates groups elsewhere: a group object that appears after one of its channels replaces the group already built "
                            "and drops the channels registered so far")
            elif over_objects and not guarded:
                R.undecided(key, rf.where(st), "single unguarded group store inside the object walk")
            else:
                R.ok(key, rf.where(st), "group entries are created once (guarded, or built from maps with unique keys after the walk)")
    if n_stores == 0:
        R.unrecognised("tdms.TdmsFile._read_file::group entries", top.where(), "no store into self._groups inside a loop reached from _read_file: how the groups are "
                       "registered was not recognised")


@rule("UD1", "string values are cut at byte offsets before they are decoded", floor=1)
def ud1(ctx, R):
    prog = ctx.prog
    fi = prog.func("types.String.read_values")
    decoded = set()
    for n in walk_body(fi.node):
        if isinstance(n, ast.Assign) and isinstance(n.value, ast.Call) and isinstance(n.value.func, ast.Attribute) \
                and n.value.func.attr in ("decode", "_decode"):
            for t in n.targets:
                if isinstance(t, ast.Name):
                    decoded.add(t.id)
    bad = [n for n in walk_body(fi.node) if isinstance(n, ast.Subscript) and isinstance(n.slice, ast.Slice)
           and isinstance(n.value, ast.Name) and n.value.id in decoded]
    offs = [n for n in walk_body(fi.node) if isinstance(n, ast.Call) and call_name(n) in ("Uint32.read",)]
    if bad:
        R.violation("types.String.read_values::slice after decode", fi.where(bad[0]), "`%s` slices decoded text with offsets read from the file; the "
                    "offsets count bytes, so any multi-byte character before the end of a chunk shifts every later value" % unparse(bad[0]))
    else:
        dec_calls = [c for c in walk_body(fi.node) if isinstance(c, ast.Call) and isinstance(c.func, ast.Attribute) and c.func.attr in ("decode", "_decode")]
        if not dec_calls:
            raise AnchorMissing("types.String.read_values: decode call")
        R.ok("types.String.read_values::decode per value", fi.where(), "each value's bytes are cut out first and decoded on their own")


# ---------------------------------------------------------------------------
# C03

READER_STREAMS = ("read_raw_data", "read_raw_data_for_channel", "read_channel_chunk_for_index")


@rule("MP1", "exactly one timestamp-representation switch on every path from the reader to the user", floor=5)
def mp1(ctx, R):
    """Call sites are found through resolved callees (not receiver or helper names); the flag handed to the conversion / to the
    receiver factory is read in canonical form through positional, keyword or default binding."""
    from .sym import Sym, eval_cond, show
    from .sem import calls_to, call_arg, find, W
    from .region import nodes_reaching, call_reaches
    from .flow import resolve_call
    prog = ctx.prog
    gens = {"reader.TdmsReader." + m for m in READER_STREAMS}
    # the conversion functions, found by what they do: module-level functions with a flag parameter that (directly or through one
    # another) call .as_datetime64() on chunk data
    direct_conv = {f.qual for f in prog.functions.values() if f.cls is None and any("timestamp" in p for p in f.params) and any(
        isinstance(x, ast.Call) and isinstance(x.func, ast.Attribute) and x.func.attr == "as_datetime64" for x in walk_body(f.node))}
    convs = set(direct_conv)
    for f in prog.functions.values():
        if f.cls is None and any("timestamp" in p for p in f.params) and f.qual not in convs and any(
                isinstance(x, ast.Call) and any(t.qual in direct_conv for t, _k in resolve_call(prog, f, f.cls, x)) for x in walk_body(f.node)):
            convs.add(f.qual)
    if not convs:
        raise AnchorMissing("functions converting chunk timestamps with as_datetime64() under a flag parameter")
    factory = prog.func("channel_data.get_data_receiver")
    FLAG = ("self", "_raw_timestamps")
    consumers = []
    for fi in prog.functions.values():
        if fi.qual in gens:
            continue
        for c in walk_body(fi.node):
            if isinstance(c, ast.Call) and isinstance(c.func, ast.Attribute) and c.func.attr in READER_STREAMS:
                if any(f.qual in gens for f, _k in resolve_call(prog, fi, fi.cls, c)):
                    consumers.append((fi, c))
    if len(consumers) < 5:
        raise AnchorMissing("call sites of the reader's data generators (found %d)" % len(consumers))

    def flag_of(fi, call, callee):
        sy = Sym(prog, fi, fi.cls)
        env, _g = sy.env_at(call)
        pname = [p for p in callee.params if "timestamp" in p]
        if not pname:
            return None
        return call_arg(prog, call, callee, pname[0], sy, env)
    for fi, c in sorted(consumers, key=lambda x: (x[0].qual, x[1].lineno)):
        key = "%s::%s" % (fi.qual, c.func.attr)
        if fi.module.name != "tdms":
            R.violation(key, fi.where(c), "reader data generator consumed outside nptdms.tdms: raw chunks bypass the timestamp representation switch")
            continue
        cfg = ctx.cfg(fi)
        conv_calls = [x for x in walk_body(fi.node) if isinstance(x, ast.Call) and call_reaches(ctx, fi, x, convs)]
        recv_calls = calls_to(prog, fi, factory.qual)
        recv_fi = fi
        if not recv_calls and fi.cls is not None:
            # receivers created in a helper method of the same class that this function calls
            for h in fi.cls.methods.values():
                if h is not fi and calls_to(prog, h, factory.qual) and calls_to(prog, fi, h.qual, fi.cls):
                    recv_calls, recv_fi = calls_to(prog, h, factory.qual), h
        if not recv_calls and fi.cls is not None:
            # receivers created by another method of the class and kept in a field that this function feeds the chunks into
            for h in fi.cls.methods.values():
                for n_ in walk_body(h.node):
                    if isinstance(n_, ast.Assign) and isinstance(n_.value, ast.Call) and n_.value in calls_to(prog, h, factory.qual):
                        for t_ in n_.targets:
                            base_ = t_.value if isinstance(t_, ast.Subscript) else t_
                            d_ = dotted(base_)
                            if d_ and d_.startswith("self.") and any(dotted(x) == d_ for x in ast.walk(fi.node)):
                                recv_calls, recv_fi = [n_.value], h
        if conv_calls and recv_calls:
            R.violation(key, fi.where(c), "chunks are converted AND fed to a converting receiver: the representation switch is applied twice")
        elif conv_calls:
            direct = [x for x in conv_calls if any(f.qual in convs for f, _k in resolve_call(prog, fi, fi.cls, x))]
            flags = [flag_of(fi, x, [f for f, _k in resolve_call(prog, fi, fi.cls, x) if f.qual in convs][0]) for x in direct]
            if direct and not all(f == FLAG for f in flags):
                R.violation(key, fi.where(direct[0]), "timestamp conversion is not controlled by self._raw_timestamps (`%s`)" % show([f for f in flags if f != FLAG][0]))
                continue
            outs = cfg.where(lambda n: (n.kind == "return" and n.ast.value is not None) or (n.ast is not None and n.kind == "stmt" and any(
                isinstance(x, (ast.Yield, ast.YieldFrom)) for x in walk_shallow(n.ast))))
            conv_nodes = set(nodes_reaching(ctx, fi, cfg, convs))
            through = lambda n: n in conv_nodes
            src = cfg.where(lambda n: any(x is c for x in node_calls(n)))
            bad = None
            for s_ in src:
                starts = [m for m, k in s_.succ if k not in ("exc", "uncaught", "done") and not through(m)]
                r = cfg.reach(starts, avoid=through, follow_exc=False) if starts else set()
                hit = [o for o in outs if o in r]
                if hit:
                    bad = hit[0]
            if bad is not None:
                R.violation(key, fi.where(bad.ast), "a chunk can reach `%s` without passing the timestamp conversion: with raw_timestamps=False this "
                            "path alone hands out TimestampArray data" % bad.text())
            else:
                R.ok(key, fi.where(c), "every chunk passes the conversion controlled by self._raw_timestamps before it is handed out")
        elif recv_calls:
            flags = [flag_of(recv_fi, x, factory) for x in recv_calls]
            R.check(all(f == FLAG for f in flags), key, fi.where(recv_calls[0]), "chunks go into receivers created with self._raw_timestamps",
                    "receiver is created with `%s` instead of self._raw_timestamps" % (show([f for f in flags if f != FLAG][0]) if any(f != FLAG for f in flags) else ""))
        else:
            R.violation(key, fi.where(c), "chunks from the reader are handed on without the timestamp representation switch (neither "
                        "_convert_*_chunk nor a receiver created with raw_timestamps)")
    # the converter itself switches on the flag and on the array type: the store of the converted data runs iff raw timestamps were
    # not requested and the data is a TimestampArray
    if not direct_conv:
        raise AnchorMissing("function converting a chunk's timestamps with as_datetime64() under a flag parameter")
    cv = prog.functions[sorted(direct_conv)[0]]
    flagp = ("param", [p for p in cv.params if "timestamp" in p][0]) if any("timestamp" in p for p in cv.params) else None
    sy = Sym(prog, cv, None)
    ok = False
    found = False
    for st in walk_body(cv.node):
        if isinstance(st, ast.Assign) and isinstance(st.value, ast.Call) and isinstance(st.value.func, ast.Attribute) and st.value.func.attr == "as_datetime64":
            found = True
            _env, guards = sy.env_at(st)

            def orc(c, raw, is_ts):
                if c == flagp:
                    return raw
                if isinstance(c, tuple) and c and c[0] == "call" and c[1] == "isinstance" and find(c, ("class", "timestamp.TimestampArray")):
                    return is_ts
                return None

            def runs(raw, is_ts):
                vals = [eval_cond(g, lambda c: orc(c, raw, is_ts)) for g in guards]
                return False if any(v is False for v in vals) else (True if all(v is True for v in vals) else None)
            ok = runs(False, True) is True and runs(True, True) is False and runs(False, False) is False
    if not found:
        raise AnchorMissing("%s: conversion with as_datetime64()" % cv.qual)
    R.check(ok and flagp is not None, cv.qual, cv.where(),
            "converts TimestampArray data iff raw timestamps were not requested", "converter no longer switches on raw_timestamps / TimestampArray")


@rule("MP3", "scaled accessors apply the channel's scaling exactly once, raw accessors never", floor=8)
def mp3(ctx, R):
    """Every accessor is put in symbolic normal form (locals substituted, helpers such as _scale_data inlined).  Each possible
    result of a scaled accessor must be an empty array, the cached scaled chunk, `scaling.scale(raw)` for a raw value that is not
    itself scaled, or `raw.data` selected by `scaling is None`; raw accessors must contain no scale call.  The function(s) holding
    the scale/raise/raw decision are evaluated as a truth table over (scaling defined?, DAQmx scaler data present?)."""
    from .sym import Sym, show, eval_cond
    from .sem import leaves, flat_conds, find, W, match, calls_to, call_arg, mentions
    prog = ctx.prog
    ch = prog.cls("tdms.TdmsChannel")

    from .rules_cursor import chunk_cache_model
    cm = chunk_cache_model(ctx)
    CACHE_V = cm["V"]

    extra_refs = set()       # per decider function: the term .scale(...) is called on there (e.g. a parameter of a module helper)

    def is_scaling_ref(x):
        if x in extra_refs:
            return True
        return x == ("self", "_scaling") or (isinstance(x, tuple) and len(x) == 3 and x[0] == "attr" and x[2] == "_scaling")

    def strip_index(v):
        while isinstance(v, tuple) and v and v[0] == "sub":
            v = v[1]
        return v

    def has_scale_call(v):
        return bool(find(v, ("method", "scale", W(), W(), W())))

    def is_empty_array(v):
        return isinstance(v, tuple) and v and v[0] == "call" and str(v[1]).split(".")[-1] in ("empty", "zeros", "array") and not has_scale_call(v)

    def classify(conds, leaf):
        """-> ('empty'|'cached'|'scaled'|'raw-because-no-scaling'|'unscaled'|'double'|'other', detail)"""
        v = strip_index(leaf)
        if is_empty_array(v):
            return "empty", None
        if v == CACHE_V:
            return "cached", None
        b = match(("method", "scale", W("S"), (W("X"),), ()), v)
        if b is not None and is_scaling_ref(b["S"]):
            return ("double" if has_scale_call(b["X"]) else "scaled"), b["X"]
        fc = flat_conds(conds)
        if isinstance(v, tuple) and v and v[0] == "attr" and v[2] in ("data", "scaler_data"):
            if any(c[0] == "cmp" and c[1] == "is" and is_scaling_ref(c[2]) and c[3] == ("const", None) for c in fc if isinstance(c, tuple) and len(c) == 4):
                return "raw-because-no-scaling", v[1]
            return "unscaled", v[1]
        return "other", v

    def all_leaves(val, conds=()):
        for cs, leaf in leaves(val, conds):
            v = strip_index(leaf)
            if isinstance(v, tuple) and v and v[0] == "phi":
                for x in all_leaves(v, cs):
                    yield x
            else:
                yield cs, leaf

    def check_scaled(key, f, val, where):
        kinds = {}
        for conds, leaf in all_leaves(val):
            k, d = classify(conds, leaf)
            kinds.setdefault(k, []).append(leaf)
        bad = [k for k in kinds if k in ("unscaled", "double")]
        if bad:
            R.violation(key, where, "%s: `%s`" % ("the scaling is applied twice" if "double" in bad else "a result is raw data although a scaling may be defined "
                                                  "(not selected by `scaling is None`)", show(kinds[bad[0]][0])[:160]))
        elif "scaled" not in kinds:
            if "other" in kinds:
                R.undecided(key, where, "result form `%s` not understood" % show(kinds["other"][0])[:120])
            elif "cached" in kinds:
                R.ok(key, where, "results are served from the chunk cache (what is stored there is checked separately): %s" % ", ".join(sorted(kinds)))
            else:
                R.violation(key, where, "no result applies the channel's scaling (results: %s)" % sorted(kinds))
        elif "other" in kinds:
            R.undecided(key, where, "a result `%s` is not understood" % show(kinds["other"][0])[:120])
        else:
            R.ok(key, where, "results: %s" % ", ".join(sorted(kinds)))
        return kinds
    # read_data: scaled / raw
    rd = prog.func("tdms.TdmsChannel.read_data")
    sp = [p for p in rd.params if p == "scaled"]
    if not sp:
        raise AnchorMissing("tdms.TdmsChannel.read_data: parameter `scaled`")
    v_scaled = Sym(prog, rd, ch).function_value({"scaled": ("const", True)})
    v_raw = Sym(prog, rd, ch).function_value({"scaled": ("const", False)})
    from .sym import simplify
    v_scaled = simplify(v_scaled, lambda c: None)
    v_raw = simplify(v_raw, lambda c: None)
    if v_scaled[0] == "opaque" or v_raw[0] == "opaque":
        raise AnchorMissing("tdms.TdmsChannel.read_data: body in normal form")
    check_scaled("tdms.TdmsChannel.read_data::scaled branch", rd, v_scaled, rd.where())
    R.check(not has_scale_call(v_raw), "tdms.TdmsChannel.read_data::raw branch", rd.where(), "returns raw data", "the unscaled branch applies a scaling")
    R.check(rd.defaults.get("scaled") is not None and prog.try_fold(rd.defaults["scaled"]) is True, "tdms.TdmsChannel.read_data::scaled default", rd.where(),
            "scaled=True by default", "default of `scaled` changed")
    d = prog.func("tdms.TdmsChannel.data")
    check_scaled("tdms.TdmsChannel.data", d, Sym(prog, d, ch).function_value(), d.where())
    ri = prog.func("tdms.TdmsChannel._read_at_index")
    check_scaled("tdms.TdmsChannel._read_at_index", ri, Sym(prog, ri, ch).function_value(), ri.where())
    # what is stored in the chunk cache is scaled
    stores = []
    K = cm["owner"]
    vfield = CACHE_V[-1]
    for m in K.methods.values():
        for n in walk_body(m.node):
            if isinstance(n, ast.Assign) and any(dotted(t) == "self." + vfield for t in n.targets):
                stores.append((m, n))
    ok_store = True
    unknown_store = None
    n_data_stores = 0
    for m, n in stores:
        sy = Sym(prog, m, K)
        env, _g = sy.env_at(n)
        val = sy.expr(n.value, env)
        if val == ("const", None):
            continue
        n_data_stores += 1
        vals = [val]
        if val[0] == "param":
            vals = []
            for caller in list(ch.methods.values()) + ([] if K is ch else list(K.methods.values())):
                for c in calls_to(prog, caller, m.qual, K):
                    s2 = Sym(prog, caller, caller.cls)
                    e2, _ = s2.env_at(c)
                    a = call_arg(prog, c, m, val[1], s2, e2)
                    if a is not None:
                        vals.append(a)
        for x in vals:
            # what is stored may be wrapped in a private record built on the spot:  _CachedChunk(<chunk>, <offset>)  -> its arguments
            if isinstance(x, tuple) and x and x[0] in ("new", "call") and len(x) >= 3 and isinstance(x[1], str) and x[1] in prog.classes and x[2]:
                parts = list(x[2])
            else:
                parts = [x]
            ks = set()
            for part in parts:
                ks |= {classify(conds, leaf)[0] for conds, leaf in all_leaves(part)}
            if len(parts) > 1:
                ks -= {"other"} if ks & {"scaled", "raw-because-no-scaling", "unscaled", "double"} else set()
            if ks & {"unscaled", "double"}:
                ok_store = False
            elif not ks or not ks <= {"scaled", "raw-because-no-scaling"}:
                unknown_store = (m, n, x)
        if not vals:
            unknown_store = (m, n, val)
    if ok_store and (unknown_store is not None or n_data_stores < 1):
        R.unrecognised("tdms.TdmsChannel._read_at_index::cache", ri.where(), "what integer indexing stores in its chunk cache was not recognised as scaled or raw data%s" % (
            " (`%s`)" % show(unknown_store[2])[:100] if unknown_store else ""))
    else:
        R.check(ok_store, "tdms.TdmsChannel._read_at_index::cache", ri.where(), "the cached chunk is the scaled chunk",
                "integer indexing caches an unscaled chunk")
    rs = prog.func("tdms.TdmsChannel._read_slice")
    from .region import region as _region
    oks = []
    for g_ in [f_ for f_ in _region(ctx, rs, depth=2) if f_.cls is ch]:
        sy = Sym(prog, g_, ch)
        for c in calls_to(prog, g_, rd.qual, ch):
            env, _g = sy.env_at(c)
            a = call_arg(prog, c, rd, "scaled", sy, env)
            oks.append(a == ("const", True))
    if not oks:
        R.undecided("tdms.TdmsChannel._read_slice", rs.where(), "no call of read_data reached from _read_slice: how slices are read was not recognised")
    else:
        R.check(all(oks), "tdms.TdmsChannel._read_slice", rs.where(), "slices read through read_data with scaling", "slices are read with scaled overridden")
    for q in ("tdms.TdmsChannel.raw_data", "tdms.TdmsChannel.raw_scaler_data"):
        f = prog.func(q)
        v = Sym(prog, f, ch).function_value()
        R.check(not has_scale_call(v) and not mentions(v, ("self", "data")), q, f.where(), "returns stored raw data", "a raw accessor applies scaling")
    cd = prog.func("tdms.ChannelDataChunk._data")
    check_scaled("tdms.ChannelDataChunk._data", cd, Sym(prog, cd, cd.cls).function_value(), cd.where())
    # the decision itself: (scaling defined?, scaler data present?) -> scale / error / raw
    # (found by what they do: functions of nptdms.tdms, or module-level functions of nptdms.scaling, that call .scale(...) and look at scaler_data)
    has_scale = lambda f: any(isinstance(c, ast.Call) and isinstance(c.func, ast.Attribute) and c.func.attr == "scale" for c in walk_body(f.node))
    deciders = [f for f in prog.functions.values() if has_scale(f) and (
        f.module.name == "tdms" or (f.module.name == "scaling" and f.cls is None and any(
            isinstance(x, ast.Attribute) and x.attr == "scaler_data" for x in ast.walk(f.node))))]
    if not deciders:
        raise AnchorMissing("function applying scaling.scale to a chunk (looked in nptdms.tdms and nptdms.scaling)")
    for f in sorted(deciders, key=lambda f: f.qual):
        sy_f = Sym(prog, f, f.cls)
        paths = sy_f.function_paths()
        # the scaling object in this function: what .scale(...) is called on
        recvs = set()
        for c in walk_body(f.node):
            if isinstance(c, ast.Call) and isinstance(c.func, ast.Attribute) and c.func.attr == "scale":
                e_, _g_ = sy_f.env_at(c)
                recvs.add(sy_f.expr(c.func.value, e_))
        extra_refs.clear()
        extra_refs.update(r_ for r_ in recvs if r_[0] == "param")
        is_scaling_ref_f = is_scaling_ref
        table = {}
        for a in (True, False):        # scaling is None?
            for b in (True, False):    # scaler data present?
                def orc(c, a=a, b=b):
                    if isinstance(c, tuple) and len(c) == 4 and c[0] == "cmp" and c[1] == "is" and is_scaling_ref_f(c[2]) and c[3] == ("const", None):
                        return a
                    if isinstance(c, tuple) and len(c) == 3 and c[0] == "attr" and c[2] == "scaler_data":
                        return b
                    if isinstance(c, tuple) and len(c) == 4 and c[0] == "cmp" and c[1] == "is" and c[3] == ("const", None) and isinstance(c[2], tuple) \
                            and c[2][0] == "attr" and c[2][2] in ("data", "scaler_data"):
                        return False      # not the empty-chunk case
                    return None
                outs = set()
                for guards, val, _e in paths:
                    vals = [eval_cond(g, orc) for g in guards]
                    if any(x is False for x in vals):
                        continue
                    if val is None:
                        outs.add("none")
                    elif val[0] == "raise":
                        outs.add("raise")
                    else:
                        outs.add(classify((), val)[0] if classify((), val)[0] != "unscaled" else "raw")
                table[(a, b)] = outs
        want = {(False, True): {"scaled"}, (False, False): {"scaled"}, (True, True): {"raise"}, (True, False): {"raw"}}
        ok = all(table[k] == want[k] for k in want)
        R.check(ok, "%s::decision" % f.qual, f.where(), "scaling present -> scale; DAQmx without scaling -> error; else raw",
                "the scaling decision is %s (expected: scaling defined -> scale; no scaling and DAQmx scaler data -> error; no scaling -> raw data)" % (
                    {("no scaling" if a else "scaling", "scaler data" if b else "plain"): sorted(v) for (a, b), v in table.items()}))


_USES_FILE = {}


def _reader_method_uses_file(ctx, name):
    """does this TdmsReader method (or what it calls in the reader) use the file handle other than by testing it against None?
    Unknown methods count as using it."""
    prog = ctx.prog
    key = (id(prog), name)
    if key in _USES_FILE:
        return _USES_FILE[key]
    rd = prog.cls("reader.TdmsReader")
    found = prog.lookup(rd, name)
    if not (found and found[0] == "method"):
        _USES_FILE[key] = True
        return True
    cg = ctx.callgraph()
    seen = cg.reachable([found[2].qual])
    uses = False
    for q in seen:
        f = prog.functions.get(q)
        if f is None or f.cls is not rd:
            continue
        tested = set()
        for n in ast.walk(f.node):
            if isinstance(n, ast.Compare) and all(isinstance(o, (ast.Is, ast.IsNot, ast.Eq, ast.NotEq)) for o in n.ops):
                for x in [n.left] + list(n.comparators):
                    tested.add(id(x))
        for n in ast.walk(f.node):
            if isinstance(n, ast.Attribute) and dotted(n) in ("self._file", "self._index_file") and isinstance(n.ctx, ast.Load) and id(n) not in tested:
                uses = True
    _USES_FILE[key] = uses
    return uses


def _reader_calls_under(ctx, fi, facts, seen, chain):
    """Calls of reader methods that use the file, reachable in fi under `facts` (self-method calls followed)."""
    prog = ctx.prog
    cfg = ctx.cfg(fi)
    r = cfg.reach([cfg.entry], assume=assume_from(facts))
    out = []
    for n in sorted(r, key=lambda n: n.id):
        for c in node_calls(n):
            cn = call_name(c) or ""
            if cn.startswith("self._reader.") and _reader_method_uses_file(ctx, cn.split(".")[-1]):
                out.append((fi, c, list(chain)))
            elif cn.startswith("self.") and cn.count(".") == 1 and fi.cls is not None:
                found = prog.lookup(fi.cls, cn[5:])
                if found and found[0] == "method" and found[2].qual not in seen:
                    seen.add(found[2].qual)
                    out += _reader_calls_under(ctx, found[2], facts, seen, chain + [found[2].qual])
    return out


@rule("TS1", "a channel without data type (eagerly read, no receiver) never reaches the closed reader", floor=3)
def ts1(ctx, R):
    prog = ctx.prog
    facts = {"self._raw_data": NONE, "self.data_type": NONE, "index": "<ellipsis>"}
    for q in ("tdms.TdmsChannel.read_data", "tdms.TdmsChannel.data_chunks", "tdms.TdmsChannel._read_data_values", "tdms.TdmsChannel.__iter__"):
        fi = prog.func(q)
        hits = _reader_calls_under(ctx, fi, facts, {fi.qual}, [fi.qual])
        if hits:
            f2, c, chain = hits[0]
            R.violation(q, f2.where(c), "in the state 'eagerly read, no data type' (_raw_data is None because no receiver was created, reader closed) "
                        "`%s` is reached via %s: this access path raises RuntimeError while channel[:] returns an empty array" % (unparse(c)[:60], " -> ".join(chain)))
        else:
            R.ok(q, fi.where(), "under _raw_data is None and data_type is None no reader data method is reachable")
    # the state exists: get_data_receiver returns None for data_type None and _read_data then skips _set_raw_data
    g = prog.func("channel_data.get_data_receiver")
    first = g.node.body[0] if g.node.body else None
    while isinstance(first, ast.Expr):
        first = g.node.body[g.node.body.index(first) + 1]
    R.note("EagerNoType state derivation: get_data_receiver first statement `%s`" % (unparse(first).split("\n")[0] if first is not None else None))


@rule("OFS1", "chunk offsets are snapshots: yielded chunk objects do not capture the running-count accumulator", floor=1)
def ofs1(ctx, R):
    prog = ctx.prog
    dc = prog.func("tdms.TdmsFile.data_chunks")
    # accumulators: locals mutated after a yield and passed into the yielded value
    yields = [n for n in walk_body(dc.node) if isinstance(n, ast.Yield) and n.value is not None]
    if not yields:
        raise AnchorMissing("tdms.TdmsFile.data_chunks: yield")
    from .flow import resolve_call

    def mutating_sites(f):
        """{local name: [statement / call node]} for locals of f whose items are updated in f or in a helper they are passed to"""
        out = {}
        for n in walk_body(f.node):
            if isinstance(n, (ast.AugAssign, ast.Assign)):
                for t in ([n.target] if isinstance(n, ast.AugAssign) else n.targets):
                    if isinstance(t, ast.Subscript) and isinstance(t.value, ast.Name):
                        out.setdefault(t.value.id, []).append(n)
            if isinstance(n, ast.Call):
                for g, _k in resolve_call(prog, f, f.cls, n):
                    if g.module.name != f.module.name or g.cls is not None and g.name == "__init__":
                        continue
                    ps = [p for p in g.params if not (g.cls is not None and not g.is_static and p in ("self", "cls"))]
                    for i, a in enumerate(n.args):
                        if isinstance(a, ast.Name) and i < len(ps):
                            p = ps[i]
                            if any(isinstance(x, (ast.AugAssign, ast.Assign)) and any(
                                    isinstance(t, ast.Subscript) and isinstance(t.value, ast.Name) and t.value.id == p
                                    for t in ([x.target] if isinstance(x, ast.AugAssign) else x.targets)) for x in walk_body(g.node)):
                                out.setdefault(a.id, []).append(n)
        return out
    msites = mutating_sites(dc)
    mutated = set(msites)
    y = yields[0]
    if not isinstance(y.value, ast.Call):
        R.undecided("tdms.TdmsFile.data_chunks::yielded value", dc.where(y), "not a constructor call")
        return
    acc_args = [(i, a.id) for i, a in enumerate(y.value.args) if isinstance(a, ast.Name) and a.id in mutated]
    if not acc_args:
        counters = []
        for a in y.value.args:
            if isinstance(a, ast.Name):
                for n in walk_body(dc.node):
                    if isinstance(n, ast.Assign) and any(isinstance(t, ast.Name) and t.id == a.id for t in n.targets) and (
                            (isinstance(n.value, ast.Call) and call_name(n.value) in ("defaultdict", "collections.defaultdict", "dict", "OrderedDict")) or
                            (isinstance(n.value, ast.Dict) and not n.value.keys) or (isinstance(n.value, ast.Constant) and n.value.value == 0)):
                        counters.append(a.id)
        if counters:
            R.violation("tdms.TdmsFile.data_chunks::count advanced after the yield", dc.where(y), "the offsets handed to the chunk (`%s`) start at zero and are "
                        "never advanced: every chunk reports offset 0" % counters[0])
            return
        R.ok("tdms.TdmsFile.data_chunks::no accumulator passed", dc.where(y), "the yielded object receives plain values")
        return
    seen = set()

    def check_ctor(cls_name, pos, depth=0):
        ci = prog.classes.get("tdms." + cls_name)
        if ci is None or "__init__" not in ci.methods or depth > 4 or (cls_name, pos) in seen:
            return
        seen.add((cls_name, pos))
        init = ci.methods["__init__"]
        params = init.params[1:]
        if pos >= len(params):
            return
        p = params[pos]
        key = "tdms.%s.__init__::%s" % (cls_name, p)
        bad = None
        for n in walk_body(init.node):
            if isinstance(n, ast.Assign) and any(isinstance(t, ast.Attribute) and dotted(t.value) == "self" for t in n.targets):
                # stored as is (not subscripted)?
                for x in ast.walk(n.value):
                    if isinstance(x, ast.Name) and x.id == p and not _is_subscripted(n.value, x) and not _inside_eager_consumer(n.value, x):
                        bad = n
            if isinstance(n, ast.Lambda) and p in _names(n):
                bad = n
        for n in init.node.body:
            for x in ast.walk(n):
                if isinstance(x, (ast.FunctionDef,)) and p in _names(x):
                    bad = x
        if bad is not None:
            R.violation(key, init.where(bad), "the running-count mapping `%s` (updated by TdmsFile.data_chunks after every yield) is captured by the "
                        "chunk object (`%s`): offsets looked at after the generator advanced are no longer the count of values delivered before "
                        "the chunk" % (p, unparse(bad).split("\n")[0][:80]))
        else:
            R.ok(key, init.where(), "only values read from the mapping at construction time are kept")
        # passed on to other constructors
        for c in walk_body(init.node):
            if isinstance(c, ast.Call) and isinstance(c.func, ast.Name) and ("tdms." + c.func.id) in prog.classes:
                for i, a in enumerate(c.args):
                    if isinstance(a, ast.Name) and a.id == p:
                        check_ctor(c.func.id, i, depth + 1)
    for i, nm in acc_args:
        check_ctor(y.value.func.id if isinstance(y.value.func, ast.Name) else "", i)
    # and the count is advanced after the yield by the number of values delivered
    cfg = ctx.cfg(dc)
    acc_names = {nm for _i, nm in acc_args}
    adv_nodes = set()
    for nm in acc_names:
        for site in msites.get(nm, []):
            adv_nodes |= set(cfg.where(lambda n, site=site: n.ast is site or any(c is site for c in node_calls(n))))
            # an inner loop that performs the update for each item counts as the update
            for L in walk_body(dc.node):
                if isinstance(L, (ast.For, ast.While)) and any(x is site for x in ast.walk(L)) and not any(x is y for x in ast.walk(L)):
                    adv_nodes |= set(cfg.where(lambda n, L=L: n.ast is L))
    yn = cfg.where(lambda n: n.ast is not None and any(x is y for x in ast.walk(n.ast)) and n.kind == "stmt")
    heads = cfg.where(lambda n: n.kind == "for" and any(x is y for x in ast.walk(n.ast)))
    ok_adv = bool(adv_nodes) and bool(yn)
    for n in yn:
        r = cfg.reach([m for m, k in n.succ if k not in ("exc", "uncaught") and m not in adv_nodes], avoid=lambda m: m in adv_nodes, follow_exc=False)
        if any(h in r for h in heads):
            ok_adv = False
        # and not before the yield in the same iteration
        if any(cfg.dominated_by(n, lambda m, a=a: m is a)[0] and a.lineno > (heads[0].lineno if heads else 0) and a.lineno < n.lineno for a in adv_nodes):
            ok_adv = False
    R.check(ok_adv, "tdms.TdmsFile.data_chunks::count advanced after the yield", dc.where(),
            "offsets are the running count of values already delivered", "the running count is not advanced by len(data) after each yield")
    cdc = prog.func("tdms.TdmsChannel.data_chunks")
    after = [n for n in walk_body(cdc.node) if isinstance(n, ast.AugAssign) and isinstance(n.op, ast.Add) and "len(" in unparse(n.value)]
    ys = [n for n in walk_body(cdc.node) if isinstance(n, ast.Yield)]
    R.check(bool(after) and bool(ys) and all(n.lineno > ys[0].lineno for n in after), "tdms.TdmsChannel.data_chunks::count advanced after the yield", cdc.where(),
            "channel chunk offsets are the running count", "channel chunk offset is not advanced by len(chunk) after each yield")


def _is_subscripted(root, name_node):
    for x in ast.walk(root):
        if isinstance(x, ast.Subscript) and x.value is name_node:
            return True
        if isinstance(x, ast.Call) and isinstance(x.func, ast.Attribute) and x.func.value is name_node and x.func.attr == "get":
            return True
    return False


def _inside_eager_consumer(root, name_node):
    """name occurs inside a generator expression that is the direct argument of an eager consumer"""
    for x in ast.walk(root):
        if isinstance(x, ast.Call) and call_name(x) in ("OrderedDict", "dict", "list", "tuple", "sorted", "sum") and x.args \
                and isinstance(x.args[0], (ast.GeneratorExp, ast.ListComp, ast.DictComp)):
            if any(y is name_node for y in ast.walk(x.args[0])):
                return True
        if isinstance(x, (ast.ListComp, ast.DictComp, ast.SetComp)) and any(y is name_node for y in ast.walk(x)):
            return True
    return False


# ---------------------------------------------------------------------------
# C04

@rule("CS1", "a position counter carried through a loop is advanced on every path of the body (continue included)", floor=0)
def cs1(ctx, R):
    prog = ctx.prog
    n_inst = 0
    for fi in sorted(prog.functions.values(), key=lambda f: f.qual):
        for loop in [n for n in walk_body(fi.node) if isinstance(n, ast.For)]:
            def own(n, loop=loop):
                """statements of this loop's body that are not inside a nested loop"""
                out = []
                stack = list(loop.body)
                while stack:
                    x = stack.pop()
                    out.append(x)
                    if isinstance(x, (ast.For, ast.While, ast.FunctionDef)):
                        continue
                    for f_ in ("body", "orelse", "finalbody", "handlers"):
                        for y in getattr(x, f_, []) or []:
                            stack.append(y)
                return out
            all_incs = [s_ for s_ in own(loop) if isinstance(s_, ast.AugAssign) and isinstance(s_.target, ast.Name) and isinstance(s_.op, ast.Add)
                        and isinstance(s_.value, ast.Constant) and s_.value.value == 1]
            for v in sorted({i.target.id for i in all_incs}):
                incs = [i for i in all_incs if i.target.id == v]
                # positional use: compared or used as an index inside the body
                used_pos = any((isinstance(x, ast.Compare) and v in _names(x)) or (isinstance(x, ast.Subscript) and v in _names(x.slice))
                               for s_ in loop.body for x in ast.walk(s_))
                if not used_pos:
                    continue
                n_inst += 1
                cfg = ctx.cfg(fi)
                heads = cfg.where(lambda n: n.kind == "for" and n.ast is loop)
                ok = True
                twice = False
                wit = None
                through = lambda n: any(n.ast is i for i in incs)
                for h in heads:
                    starts = [m for m, k in h.succ if k == "loop" and not through(m)]
                    r = cfg.reach(starts, avoid=through, follow_exc=False) if starts else set()
                    if h in r:
                        ok = False
                        wit = cfg.path_to(h)
                    # no path of one iteration passes two increments
                    for n in cfg.where(through):
                        r2 = cfg.reach([m for m, k in n.succ if k not in ("exc", "uncaught") and m is not h], avoid=lambda m, h=h: m is h, follow_exc=False)
                        if any(through(m) for m in r2):
                            twice = True
                key = "%s::loop counter %s" % (fi.qual, v)
                if ok and not twice:
                    R.ok(key, fi.where(incs[0]), "every path through the loop body passes `%s += 1` exactly once" % v)
                elif twice:
                    R.violation(key, fi.where(incs[0]), "`%s += 1` is executed twice on a path of the loop body: afterwards `%s` no longer names the position "
                                "of the loop item" % (v, v))
                else:
                    R.violation(key, fi.where(incs[0]), "`%s += 1` is skipped on a path of the loop body (e.g. through `continue`): afterwards `%s` no longer "
                                "names the position of the loop item, and comparisons against it select the wrong segment" % (v, v),
                                path=cfg.describe_path(wit) if wit else None)
    # positive control
    import ast as _ast
    from .core import Module, FuncInfo
    from .cfg import CFG
    src = "def f(xs, a):\n    i = a\n    for x in xs:\n        if x is None:\n            continue\n        if i == a:\n            pass\n        i += 1\n"
    tree = _ast.parse(src)
    g = CFG(tree.body[0])
    loop = tree.body[0].body[1]
    inc = loop.body[-1]
    h = [n for n in g.nodes if n.kind == "for"][0]
    r = g.reach([m for m, k in h.succ if k == "loop"], avoid=lambda n: n.ast is inc, follow_exc=False)
    R.control("fixture: increment skipped by continue is detected", h in r)
    R.note("positional loop counters found in the package: %d" % n_inst)


@rule("ES1", "the window loop numbers segments from the first segment of the window", floor=1)
def es1(ctx, R):
    """In normal form: the loop draws (number, segment) pairs from enumerate(<slice lo:hi of the segments>, start) with start == lo,
    the chunk offset handed to the segment reader is adjusted under `number == lo` and the chunk count under `number == hi - 1`."""
    from .sym import Sym, show, alpha, simplify
    from .sem import find, W, mentions
    prog = ctx.prog
    fi = prog.func("reader.TdmsReader.read_raw_data_for_channel")
    RF, loops, calls, roots = _channel_window(ctx, fi)
    lfr, lp, sls = loops[0]
    lfun = lfr[-1][0]
    key = "reader.TdmsReader.read_raw_data_for_channel"
    sy = Sym(prog, lfun, lfun.cls)
    env, _g = sy.env_at(lp)
    it = sy.expr(lp.iter, env)
    en = find(it, ("call", "enumerate", W("args"), W("kw"))) if it else []

    def strip_int(v):
        while isinstance(v, tuple) and v and v[0] == "call" and v[1] == "int" and len(v[2]) == 1:
            v = v[2][0]
        return v
    if not en or not sls:
        R.undecided(key + "::segment numbering", lfun.where(lp), "segments are not numbered by enumerate(<slice of the segments>, start): %s (a hand-maintained "
                    "counter's increments are checked by CS1; its initial value is not decided)" % show(alpha(it))[:100])
        return
    m = en[0][1]
    args, kws = m["args"], dict(m["kw"]) if isinstance(m["kw"], (list, tuple)) else {}
    start = args[1] if len(args) > 1 else kws.get("start")
    sl = find(args[0], ("sub", W(), ("slice", W("lo"), W("hi"), W()))) if args else []
    if not sl:
        R.undecided(key + "::segment numbering", lfun.where(lp), "enumerate over something other than a slice: %s" % show(alpha(args[0]))[:100])
        return
    LO, HI = sl[0][1]["lo"], sl[0][1]["hi"]
    good = start is not None and strip_int(start) == strip_int(LO)
    R.check(good, key + "::enumerate start", lfun.where(lp), "segment numbers start at the slice's first segment",
            "enumerate(.., start=%s) over the slice starting at %s: the segment number does not start at the slice's lower bound, so the comparisons that "
            "select the first and last segment of the window pick the wrong segments" % (show(start) if start is not None else "0", show(LO)))
    # the adjustments are keyed on that number
    cfr, c = calls[0]
    cfun = cfr[-1][0]
    if cfun is not lfun:
        R.undecided(key + "::first/last segment adjustments", cfun.where(c), "the segment read is not in the function that numbers the segments")
        return
    callee = prog.func("tdms_segment.TdmsSegment.read_raw_data_for_channel")
    cp = [p for p in callee.params if p != "self"]
    bound = dict(zip(cp, c.args))
    bound.update({k.arg: k.value for k in c.keywords if k.arg})
    cenv, _g2 = sy.env_at(c)
    co = sy.expr(bound[cp[2]], cenv) if len(cp) > 2 and cp[2] in bound else None
    nc = sy.expr(bound[cp[3]], cenv) if len(cp) > 3 and cp[3] in bound else None

    def keyed(v, want):
        cmps = find(v, ("cmp", "==", W("a"), W("b"))) if v is not None else []
        sides = [(strip_int(x[1]["a"]), strip_int(x[1]["b"])) for x in cmps]
        return any(want(a, b) or want(b, a) for a, b in sides), sides
    is_num = lambda t: isinstance(t, tuple) and t and t[0] in ("item", "sub") and mentions(t, "bv") or (isinstance(t, tuple) and t and t[0] == "bv")
    lo_s = strip_int(LO)
    first_ok, s1 = keyed(co, lambda a, b: b == lo_s)
    hi_s = strip_int(HI)
    last_ok, s2 = keyed(nc, lambda a, b: hi_s == ("binop", "+", (b, ("const", 1))) or hi_s == ("binop", "+", (("const", 1), b)) or
                        (b[0] == "binop" and b[1] == "-" and strip_int(b[2][0]) == hi_s and b[2][1] == ("const", 1)))
    if co is None or nc is None or co[0] == "opaque" or nc[0] == "opaque":
        R.undecided(key + "::first/last segment adjustments", lfun.where(c), "chunk offset / chunk count handed to the segment reader not in normal form")
    elif first_ok and last_ok:
        R.ok(key + "::first/last segment adjustments", lfun.where(c), "the chunk offset is adjusted under number == %s and the chunk count under number == %s - 1" % (
            show(alpha(lo_s))[:40], show(alpha(hi_s))[:40]))
    elif (s1 and not first_ok) or (s2 and not last_ok):
        R.violation(key + "::first/last segment adjustments", lfun.where(c), "the first-segment or last-segment adjustment is not keyed on the window's first (%s) / "
                    "last (%s - 1) segment number: comparisons found %s / %s" % (show(alpha(lo_s))[:40], show(alpha(hi_s))[:40],
                                                                                 sorted({show(alpha(b))[:40] for a, b in s1}), sorted({show(alpha(b))[:40] for a, b in s2})))
    else:
        R.undecided(key + "::first/last segment adjustments", lfun.where(c), "no comparison of the segment number found in the chunk offset / chunk count")


@rule("CS2", "data and every scaler array are windowed by the same slice", floor=2)
def cs2(ctx, R):
    """In normal form, the windows applied to the data array and to the scaler arrays are compared (each window is made relative to
    the array it is applied to, since bounds such as len(x) - trim mention the array)."""
    from .sym import Sym, show, alpha
    from .sem import find, W, subst
    prog = ctx.prog

    def is_window(w):
        if not isinstance(w, tuple) or not w:
            return False
        if w[0] == "slice" or (w[0] == "call" and w[1] == "slice"):
            return True
        if w[0] == "phi":
            return is_window(w[2]) and is_window(w[3])
        return False

    def norm_window(w):
        if w[0] == "call" and w[1] == "slice":
            a = list(w[2]) + [("const", None)] * (3 - len(w[2]))
            if len(w[2]) == 1:
                a = [("const", None), w[2][0], ("const", None)]
            return ("slice",) + tuple(a[:3])
        if w[0] == "phi":
            return ("phi", w[1], norm_window(w[2]), norm_window(w[3]))
        return w
    # the two windowing functions, by name or - when they were renamed or turned into methods - by what they do: apply a window to
    # <chunk>.data and deal with <chunk>.scaler_data
    def windowers():
        out = []
        for f in sorted(prog.functions.values(), key=lambda f: f.qual):
            if any(isinstance(n, ast.Subscript) and isinstance(n.value, ast.Attribute) and n.value.attr == "data" for n in ast.walk(f.node)) \
                    and any(isinstance(n, ast.Attribute) and n.attr == "scaler_data" for n in ast.walk(f.node)):
                out.append(f)
        return out
    named = []
    for q in ("reader._trim_channel_chunk", "channel_data.slice_raw_data"):
        try:
            named.append(prog.func(q))
        except AnchorMissing:
            named.append(None)
    spare = [f for f in windowers() if not any(f is g for g in named)]
    for i, fi in enumerate(named):
        if fi is None and spare:
            named[i] = spare.pop(0)
    if any(f is None for f in named):
        R.unrecognised("windowing functions", prog.module("reader").relpath, "the functions that trim a channel chunk / slice raw data were not recognised")
    for fi in [f for f in named if f is not None]:
        q = fi.qual
        v = Sym(prog, fi, fi.cls).function_value()
        apps = [(x[1], x[2]) for x, _b in find(v, ("sub", W(), W())) if is_window(x[2])]
        wins = {alpha(subst(norm_window(w), base, ("<x>",))) for base, w in apps}
        is_data = lambda b: (b[0] == "attr" and b[2] == "data") or b == ("self", "data")
        on_data = [b for b, w in apps if is_data(b)]
        on_scalers = [b for b, w in apps if not is_data(b)]
        if not on_data or not on_scalers:
            if find(v, ("loop", W(), W())) or v[0] == "opaque":
                R.undecided(q, fi.where(), "windowing of %s not in normal form" % ("the scaler arrays" if on_data else "the data"))
            elif not on_data and not on_scalers:
                R.unrecognised(q, fi.where(), "no slice is applied in the normal form of this function (the windowing may live in a method of the chunk object): not decided")
            else:
                R.violation(q, fi.where(), "%s: data and scaler data are not both windowed" % (
                    "only the data array is sliced" if on_data else ("only the scaler arrays are sliced" if on_scalers else "no slice is applied")))
            continue
        R.check(len(wins) == 1, q, fi.where(), "one window `%s` applied to .data and to each scaler array" % show(list(wins)[0])[:80],
                "different windows are applied to data and scaler data: %s" % sorted(show(w)[:80] for w in wins))


# parameters where None means 'not given' and a falsy value (0, '') is meaningful
NONE_PARAMS = {
    "channel_data.slice_raw_data": {"length": "length 0 is an empty window"},
    "tdms.TdmsChannel.read_data": {"length": "length 0 is an empty window"},
    "tdms.TdmsChannel._read_channel_data": {"length": "length 0 is an empty window"},
    "reader.TdmsReader.read_raw_data_for_channel": {"length": "length 0 is an empty window"},
    "tdms_segment.TdmsSegment.read_raw_data_for_channel": {"num_chunks": "0 chunks is an empty read"},
    "common._components_to_path": {"group": "the empty string is a valid group name", "channel": "the empty string is a valid channel name"},
    "tdms.TdmsChannel._read_slice": {"start": "0 is a valid bound", "stop": "0 is a valid bound", "step": "handled explicitly"},
}


@rule("NT1", "optional arguments whose zero/empty value is meaningful are tested with `is None`, never by truthiness", floor=8)
def nt1(ctx, R):
    prog = ctx.prog
    for q, params in sorted(NONE_PARAMS.items()):
        if q == "common._components_to_path":
            from .rules_paths import find_path_encoder
            fi = find_path_encoder(prog)          # wherever the encoder lives today
            q = fi.qual
        else:
            try:
                fi = prog.func(q)
            except AnchorMissing:
                # renamed or turned into a method: the one function of that module which has the parameters in question
                cands = [f for f in prog.functions.values() if f.module.name == q.split(".")[0] and set(params) <= set(f.params)
                         and f.name.lstrip("_") not in ("init__",)]
                if len(cands) != 1:
                    R.unrecognised("%s::%s" % (q, "/".join(sorted(params))), prog.module(q.split(".")[0]).relpath,
                                   "the function is not where it was and no single function of the module has these parameters")
                    continue
                fi = cands[0]
                q = fi.qual
        for p, why in sorted(params.items()):
            if p not in fi.params:
                raise AnchorMissing("%s parameter %s" % (q, p))
            aliases = {p}
            # locals that just carry the parameter (e.g. loop variable over (group, channel))
            for n in walk_body(fi.node):
                if isinstance(n, (ast.ListComp, ast.GeneratorExp, ast.SetComp)):
                    for g in n.generators:
                        if isinstance(g.iter, (ast.Tuple, ast.List)) and any(isinstance(e, ast.Name) and e.id == p for e in g.iter.elts) \
                                and isinstance(g.target, ast.Name):
                            aliases.add(g.target.id)
                if isinstance(n, ast.For) and isinstance(n.iter, (ast.Tuple, ast.List)) and any(isinstance(e, ast.Name) and e.id == p for e in n.iter.elts) \
                        and isinstance(n.target, ast.Name):
                    aliases.add(n.target.id)
            bad = None
            for n in ast.walk(fi.node):
                tests = []
                if isinstance(n, (ast.If, ast.While, ast.IfExp)):
                    tests.append(n.test)
                if isinstance(n, ast.comprehension):
                    tests.extend(n.ifs)
                if isinstance(n, ast.BoolOp):
                    tests.extend(n.values)
                if isinstance(n, ast.UnaryOp) and isinstance(n.op, ast.Not):
                    tests.append(n.operand)
                for t in tests:
                    if isinstance(t, ast.Name) and t.id in aliases:
                        bad = t
            key = "%s::%s" % (q, p)
            if bad is not None:
                R.violation(key, fi.where(bad), "`%s` is tested by truthiness, but %s: the value 0/'' is treated like 'not given'" % (p, why))
            else:
                R.ok(key, fi.where(), "only compared with None / used as a value")
    # the components of an object path (<path>.group, <path>.channel) are None when absent and may be the empty string when present:
    # anywhere in the package, a truthiness test of one of them (or of a loop variable ranging over them) confuses the two
    is_comp = lambda e: isinstance(e, ast.Attribute) and e.attr in ("group", "channel") and isinstance(e.ctx, ast.Load)
    n_mod = 0
    for mod in sorted(prog.modules.values(), key=lambda m: m.name):
        if mod.name.startswith("test") or ".test" in mod.name:
            continue
        n_mod += 1
        for f in [f for f in prog.functions.values() if f.module is mod]:
            aliases = set()
            for n in ast.walk(f.node):
                its = []
                if isinstance(n, (ast.ListComp, ast.GeneratorExp, ast.SetComp, ast.DictComp)):
                    its += [(g.iter, g.target) for g in n.generators]
                if isinstance(n, ast.For):
                    its.append((n.iter, n.target))
                for it, tgt in its:
                    if isinstance(it, (ast.Tuple, ast.List)) and any(is_comp(e) for e in it.elts) and isinstance(tgt, ast.Name):
                        aliases.add(tgt.id)
            for n in ast.walk(f.node):
                tests = []
                if isinstance(n, (ast.If, ast.While, ast.IfExp)):
                    tests.append(n.test)
                if isinstance(n, ast.comprehension):
                    tests.extend(n.ifs)
                if isinstance(n, ast.BoolOp):
                    tests.extend(n.values)
                if isinstance(n, ast.UnaryOp) and isinstance(n.op, ast.Not):
                    tests.append(n.operand)
                for t in tests:
                    if is_comp(t) or (isinstance(t, ast.Name) and t.id in aliases):
                        R.violation("%s::path component tested by truthiness" % f.qual, f.where(t), "`%s` is tested by truthiness: a group or channel whose name is "
                                    "the empty string is treated like an absent component" % unparse(t))
    R.ok("package::path components compared with None", "nptdms", "%d modules: no truthiness test of <path>.group / <path>.channel" % n_mod)


# ---------------------------------------------------------------------------
# C19 (and the window clauses of C04)

def _channel_window(ctx, fi):
    """The window loop of the per-channel read, wherever the refactoring of the day put it: the entry point and the helpers of its
    module that it calls (with the bindings of their parameters), the loops over (a slice of) self._segments that feed the segment
    read, and the segment read calls."""
    from .region import call_targets, backward_slice, data_roots
    prog = ctx.prog
    callee = prog.func("tdms_segment.TdmsSegment.read_raw_data_for_channel")

    def region_frames(depth=2):
        out = [((fi, {}),)]
        seen = {fi.qual}
        level = list(out)
        for _ in range(depth):
            nxt = []
            for fr in level:
                g = fr[-1][0]
                for c in walk_body(g.node):
                    if isinstance(c, ast.Call):
                        for q in call_targets(ctx, g, c):
                            h = prog.functions.get(q)
                            if h is None or h.module is not fi.module or q in seen:
                                continue
                            seen.add(q)
                            ps = [p for p in h.params if not (h.cls is not None and not h.is_static and p in ("self", "cls"))]
                            b = dict(zip(ps, c.args))
                            b.update({k.arg: k.value for k in c.keywords if k.arg})
                            nxt.append(fr + ((h, b),))
            out += nxt
            level = nxt
        return out

    def roots(frames, e):
        """parameters of the entry point that e (in the innermost frame) is computed from, by data flow"""
        out = set()
        for fr, x in backward_slice(ctx, frames[-1][0], e, frames=frames):
            out |= data_roots(ctx, fr, x)
        return out
    RF = region_frames()
    calls = []
    for fr in RF:
        g = fr[-1][0]
        for c in walk_body(g.node):
            if isinstance(c, ast.Call) and isinstance(c.func, ast.Attribute) and c.func.attr == callee.name and not (
                    dotted(c.func.value) == "self") and (callee.qual in call_targets(ctx, g, c) or not call_targets(ctx, g, c)):
                calls.append((fr, c))
    if not calls:
        raise AnchorMissing("reader.TdmsReader.read_raw_data_for_channel: call of segment.read_raw_data_for_channel")
    loops = []          # (frames, loop, [(frames of the slice, slice subscript)])
    for fr in RF:
        g = fr[-1][0]
        for n in walk_body(g.node):
            if isinstance(n, ast.For) and any(isinstance(x, ast.Yield) or any(x is c for _f, c in calls) for x in ast.walk(n)):
                src = backward_slice(ctx, g, n.iter, frames=fr)
                segs = [(f2, x) for f2, e in src for x in ast.walk(e) if dotted(x) == "self._segments"]
                if segs:
                    sls = [(f2, x) for f2, e in src for x in ast.walk(e)
                           if isinstance(x, ast.Subscript) and isinstance(x.slice, ast.Slice) and dotted(x.value) == "self._segments"]
                    loops.append((fr, n, sls))
    if not loops:
        raise AnchorMissing("reader.TdmsReader.read_raw_data_for_channel: loop over self._segments")
    return RF, loops, calls, roots


@rule("BD1", "the per-channel window read is bounded by the request: segment slice, chunk offset and chunk count depend on it", floor=7)
def bd1(ctx, R):
    """Dependence analysis through local assignments and helpers (sa/region.py): which request parameters the segment slice, the
    chunk offset and the chunk count handed to the segment reader are computed from."""
    from .sym import Sym, show
    from .sem import calls_to, find, W
    from .region import cone, backward_slice, data_roots
    prog = ctx.prog
    fi = prog.func("reader.TdmsReader.read_raw_data_for_channel")
    params = [p for p in fi.params if p != "self"]
    if len(params) < 3:
        raise AnchorMissing("reader.TdmsReader.read_raw_data_for_channel(channel_path, offset, length)")
    OFF, LEN = params[1], params[2]
    RF, loops, calls, roots = _channel_window(ctx, fi)
    lfr, lp, sls = loops[0]
    lfun = lfr[-1][0]
    if not sls:
        R.violation("reader.TdmsReader.read_raw_data_for_channel::segment window", lfun.where(lp), "the loop iterates all segments instead of the slice "
                    "[first overlapping segment : last overlapping segment]")
    else:
        sfr, sub = sls[0]
        s_ = sub.slice
        lo = roots(sfr, s_.lower) if s_.lower is not None else set()
        hi = roots(sfr, s_.upper) if s_.upper is not None else set()
        searched = sum(1 for fr in RF for c in walk_body(fr[-1][0].node) if isinstance(c, ast.Call) and (call_name(c) or "").endswith("searchsorted")) >= 2
        R.check(OFF in lo, "reader.TdmsReader.read_raw_data_for_channel::first segment by binary search", lfun.where(lp),
                "lower bound depends on searchsorted(segment_offsets, offset)", "the first segment read does not depend on the requested offset")
        R.check(LEN in hi, "reader.TdmsReader.read_raw_data_for_channel::last segment by binary search", lfun.where(lp),
                "upper bound depends on searchsorted(segment_offsets, offset + length)", "the last segment read does not depend on the requested length")
    callee = prog.func("tdms_segment.TdmsSegment.read_raw_data_for_channel")
    cfr, c = calls[0]
    cfun = cfr[-1][0]
    cp = [p for p in callee.params if p != "self"]
    bound = {}
    for i_, a in enumerate(c.args):
        if i_ < len(cp):
            bound[cp[i_]] = a
    for k in c.keywords:
        bound[k.arg] = k.value
    co = bound.get(cp[2]) if len(cp) > 2 else None
    nc = bound.get(cp[3]) if len(cp) > 3 else None
    co_cone = roots(cfr, co) if co is not None else set()
    R.check(co is not None and OFF in co_cone and not isinstance(co, ast.Constant), "reader.TdmsReader.read_raw_data_for_channel::chunk_offset", cfun.where(c),
            "leading chunks before the window are skipped (chunk_offset depends on offset)",
            "chunk_offset passed to the segment reader (`%s`) does not depend on the requested offset: all leading chunks are read and trimmed afterwards" % (
                unparse(co) if co is not None else "default 0"))
    # num_chunks must depend on the END of the window by data flow (the loop variable depends on the slice bounds, which would make
    # everything in the loop 'depend' on the length)
    nc_data = roots(cfr, nc) if nc is not None else set()
    R.check(nc is not None and LEN in nc_data, "reader.TdmsReader.read_raw_data_for_channel::num_chunks", cfun.where(c),
            "trailing chunks after the window are not read (num_chunks depends on the window end)",
            "the number of chunks requested from the last segment (`%s`) does not depend on where the window ends: every remaining chunk of the "
            "segment is read (for interleaved data in one go) and the surplus is trimmed afterwards" % (unparse(nc) if nc is not None else "None = to the end"))
    # truncated final chunk: the chunk count is computed from a remainder (x % chunk size, or divmod) of a quantity that is not the
    # request offset's skip count, i.e. of the segment's own length; or the reader consults the recorded final chunk lengths
    aware = False
    if nc is not None:
        for frames, e in backward_slice(ctx, cfun, nc, frames=cfr):
            g = frames[-1][0]
            for x in ast.walk(e):
                left = None
                if isinstance(x, ast.BinOp) and isinstance(x.op, ast.Mod) and not (isinstance(x.left, ast.Constant) and isinstance(x.left.value, str)):
                    left = x.left
                elif isinstance(x, ast.Call) and call_name(x) == "divmod" and len(x.args) == 2:
                    left = x.args[0]
                if left is not None:
                    roots = data_roots(ctx, frames, left)
                    if OFF not in roots:
                        aware = True
                if isinstance(x, ast.Attribute) and x.attr == "final_chunk_lengths_override":
                    aware = True
    # the array a windowed lazy read is collected in has room for the window, not for the channel: on every path its size depends on the offset
    try:
        rcd = prog.func("tdms.TdmsChannel._read_channel_data")
    except AnchorMissing:
        rcd = None
    if rcd is not None and "offset" in rcd.params:
        from .sem import leaves as _lv, mentions as _mentions
        sy_r = Sym(prog, rcd, rcd.cls, inline=False)
        OFFP = ("param", "offset")
        for c_ in walk_body(rcd.node):
            if isinstance(c_, ast.Call) and (call_name(c_) or "").split(".")[-1] in ("get_data_receiver",) and len(c_.args) >= 2:
                env_r, _g = sy_r.env_at(c_)
                size_v = sy_r.expr(c_.args[1], env_r)
                lvs = [lf for _cs, lf in _lv(size_v, ())]
                # max(0, X) / min(L, X): look inside
                def offset_free(t):
                    if isinstance(t, tuple) and t and t[0] == "call" and t[1] in ("max", "min") and len(t) > 2:
                        inner = [a_ for a_ in t[2] if not (a_[0] == "const")]
                        return all(offset_free(a_) for lf2 in inner for _c2, a_ in _lv(lf2, ())) if inner else True
                    return not _mentions(t, OFFP)
                has_dep = any(_mentions(lf, OFFP) for lf in lvs)
                free = []
                def walk_free(t):
                    if isinstance(t, tuple) and t and t[0] == "call" and t[1] in ("max", "min") and len(t) > 2:
                        for a_ in t[2]:
                            if a_[0] != "const":
                                for _c2, lf2 in _lv(a_, ()):
                                    walk_free(lf2)
                    elif isinstance(t, tuple) and t and t[0] == "phi":
                        for _c2, lf2 in _lv(t, ()):
                            walk_free(lf2)
                    elif not _mentions(t, OFFP) and not (isinstance(t, tuple) and t and t[0] == "param"):
                        free.append(t)
                for lf in lvs:
                    walk_free(lf)
                key_r = "tdms.TdmsChannel._read_channel_data::room for the window"
                if has_dep and free:
                    R.violation(key_r, rcd.where(c_), "on some path the array the window is collected in is sized `%s`, which does not depend on the offset (other paths do): "
                                "read_data(offset) then returns full[offset:] followed by `offset` values that were never read" % show(free[0])[:80])
                elif has_dep:
                    R.ok(key_r, rcd.where(c_), "the size of the receiving array depends on the offset on every path")
    # a final-chunk size derived from a total modulo the chunk size, with 0 read as "a full chunk", cannot tell a complete final chunk from
    # an EMPTY one: a channel may have no values at all in a truncated final chunk (final_chunk_lengths_override.get(path, 0) == 0)
    ambiguous = None
    for g_ in {fr_[-1][0] for fr_ in RF} | {cfun}:
        for x in walk_body(g_.node):
            tst = body_ = other_ = None
            if isinstance(x, ast.IfExp):
                tst, body_, other_ = x.test, x.body, x.orelse
            elif isinstance(x, ast.BoolOp) and isinstance(x.op, ast.Or) and len(x.values) == 2:
                # (a % c) or c
                m_, c_ = x.values
                if isinstance(m_, ast.BinOp) and isinstance(m_.op, ast.Mod) and not isinstance(m_.left, ast.Constant) and unparse(m_.right) == unparse(c_):
                    ambiguous = (g_, x)
                continue
            if tst is None or not (isinstance(tst, ast.Compare) and len(tst.ops) == 1 and isinstance(tst.ops[0], (ast.Eq, ast.NotEq))
                                   and isinstance(tst.comparators[0], ast.Constant) and tst.comparators[0].value == 0):
                continue
            zero_arm, rest_arm = (body_, other_) if isinstance(tst.ops[0], ast.Eq) else (other_, body_)
            # the tested value: a remainder itself, or a local that holds one
            tv = tst.left
            rems = [tv] if isinstance(tv, ast.BinOp) and isinstance(tv.op, ast.Mod) else [
                a_.value for a_ in walk_body(g_.node) if isinstance(a_, ast.Assign) and isinstance(tv, ast.Name) and any(isinstance(t_, ast.Name) and t_.id == tv.id for t_ in a_.targets)
                and isinstance(a_.value, ast.BinOp) and isinstance(a_.value.op, ast.Mod) and not isinstance(a_.value.left, ast.Constant)]
            if rems and any(unparse(r_.right) == unparse(zero_arm) for r_ in rems):
                ambiguous = (g_, x)
    if ambiguous is not None and not any(isinstance(x, ast.Attribute) and x.attr == "final_chunk_lengths_override" for x in ast.walk(ambiguous[0].node)):
        g_, x = ambiguous
        R.violation("reader.TdmsReader.read_raw_data_for_channel::size of the final chunk", g_.where(x), "`%s` takes the size of the segment's final chunk from a total modulo the "
                    "chunk size and reads a remainder of 0 as a full chunk: for a channel that has NO values in a truncated final chunk the remainder is 0 as well, so the "
                    "window end drops the wrong number of chunks (reads past the window / 'could not broadcast' for windows that end before that chunk)" % unparse(x)[:80])
    R.check(aware, "reader.TdmsReader.read_raw_data_for_channel::truncated final chunk", cfun.where(c),
            "the chunk count dropped at the window end accounts for a shorter final chunk (segment length modulo chunk size)",
            "the number of trailing chunks to drop is computed as if every chunk were full: with a truncated final chunk one chunk too many or too "
            "few is read and the trim becomes negative")
    # TdmsSegment.read_raw_data_for_channel: seek distance and stop chunk
    CO, NC = ("param", cp[2]), ("param", cp[3])
    sc = Sym(prog, callee, callee.cls)
    ok_seek = False
    for x in walk_body(callee.node):
        if isinstance(x, ast.Call) and isinstance(x.func, ast.Attribute) and x.func.attr == "seek" and len(x.args) == 2:
            env, _g = sc.env_at(x)
            d = sc.expr(x.args[0], env)
            rel = dotted(x.args[1]) in ("os.SEEK_CUR", "io.SEEK_CUR") or prog.try_fold(x.args[1], callee.module, default=None) == 1
            if rel and d[0] == "binop" and d[1] == "*" and any(find(t, CO) for t in d[2]) and len(d[2]) == 2:
                ok_seek = True
        if isinstance(x, ast.Call) and isinstance(x.func, ast.Attribute) and x.func.attr == "seek" and (
                len(x.args) == 1 or (len(x.args) == 2 and (dotted(x.args[1]) in ("os.SEEK_SET", "io.SEEK_SET") or prog.try_fold(x.args[1], callee.module, default=None) == 0))):
            # one absolute seek:  data position + chunk size x chunk offset
            env, _g = sc.env_at(x)
            d = sc.expr(x.args[0], env)
            from .sem import leaves as _leaves
            def _abs_ok(t_):
                return t_[0] == "binop" and t_[1] == "+" and any(t == ("self", "data_position") for t in t_[2]) and any(
                    isinstance(t, tuple) and t and t[0] == "binop" and t[1] == "*" and len(t[2]) == 2 and any(find(u, CO) for u in t[2]) for t in t_[2])
            lv = [lf for _cs, lf in _leaves(d, ())]
            if lv and any(_abs_ok(lf) for lf in lv) and all(_abs_ok(lf) or lf == ("self", "data_position") for lf in lv):
                ok_seek = True
    R.check(ok_seek, "tdms_segment.TdmsSegment.read_raw_data_for_channel::seek past leading chunks", callee.where(),
            "seeks chunk_size * chunk_offset bytes past the data start", "leading chunks are not skipped by a relative seek of chunk size x chunk offset")
    inner = [x for x in walk_body(callee.node) if isinstance(x, ast.Call) and (x.args or x.keywords)]
    ok_stop = False
    for x in inner:
        env, _g = sc.env_at(x)
        vals = [sc.expr(a, env) for a in x.args] + [sc.expr(k.value, env) for k in x.keywords]
        for v in vals:
            if find(v, NC) and find(v, CO) and find(v, ("binop", "+", W())):
                ok_stop = True
    R.check(ok_stop, "tdms_segment.TdmsSegment.read_raw_data_for_channel::stop chunk", callee.where(),
            "stop chunk = chunk_offset + num_chunks", "the stop chunk does not depend on num_chunks and chunk_offset")
    # single chunk fetch for integer indexing
    ri = prog.func("reader.TdmsReader.read_channel_chunk_for_index")
    cs_ = calls_to(prog, ri, callee.qual) or [x for x in walk_body(ri.node) if isinstance(x, ast.Call) and isinstance(x.func, ast.Attribute)
                                              and x.func.attr == callee.name]
    if not cs_:
        raise AnchorMissing("reader.TdmsReader.read_channel_chunk_for_index: call of segment.read_raw_data_for_channel")
    b2 = {}
    for i_, a in enumerate(cs_[0].args):
        if i_ < len(cp):
            b2[cp[i_]] = a
    for k in cs_[0].keywords:
        b2[k.arg] = k.value
    co2, nc2 = b2.get(cp[2]), b2.get(cp[3])
    ip = [p for p in ri.params if p != "self"][1]
    one = nc2 is not None and prog.try_fold(nc2, ri.module, default=None) == 1
    R.check(one and co2 is not None and ip in cone(ctx, ri, co2), "reader.TdmsReader.read_channel_chunk_for_index::one chunk", ri.where(cs_[0]),
            "fetches exactly the chunk containing the index", "integer indexing fetches `%s` chunks starting at `%s`" % (
                unparse(nc2) if nc2 is not None else "all", unparse(co2) if co2 is not None else "0"))


@rule("GD1", "the contiguous per-channel reader reads only the requested channel and skips the others arithmetically", floor=3)
def gd1(ctx, R):
    from .sym import Sym, show
    prog = ctx.prog
    ci = prog.cls("tdms_segment.ContiguousDataReader")
    R.check("_read_channel_data_chunk" in ci.methods, "tdms_segment.ContiguousDataReader::overrides _read_channel_data_chunk",
            "%s:%d" % (ci.module.relpath, ci.node.lineno), "own per-channel reader", "falls back to the base implementation, which reads all channels of the chunk")
    if "_read_channel_data_chunk" not in ci.methods:
        return
    fi = ci.methods["_read_channel_data_chunk"]
    cfg = ctx.cfg(fi)
    sy = Sym(prog, fi, ci, inline=False)
    chan = [("param", p) for p in fi.params if p != "self"]
    reads = cfg.where(lambda n: any((isinstance(c.func, ast.Attribute) and c.func.attr in ("read_values", "read", "readinto")) or call_name(c) in ("fromfile",)
                                    for c in node_calls(n)))
    if not reads:
        raise AnchorMissing("tdms_segment.ContiguousDataReader._read_channel_data_chunk: read_values call")

    def same_channel(g):
        """obj.path == <channel path parameter>"""
        if isinstance(g, tuple) and len(g) == 4 and g[0] == "cmp" and g[1] == "==":
            for a, b in ((g[2], g[3]), (g[3], g[2])):
                if isinstance(a, tuple) and a[0] == "attr" and a[2] == "path" and b in chan:
                    return True
        return False

    def other_channel(g):
        return isinstance(g, tuple) and len(g) == 4 and g[0] == "cmp" and g[1] == "!=" and same_channel(("cmp", "==", g[2], g[3]))
    heads = cfg.where(lambda n: n.kind == "for")
    for rn in reads:
        _env, guards = sy.env_at(rn.ast)
        guarded = any(same_channel(g) for g in guards)
        in_loop = any(any(x is rn.ast for x in ast.walk(h.ast)) for h in heads)
        key_ = "tdms_segment.ContiguousDataReader._read_channel_data_chunk::`%s`" % rn.text()[:50]
        if guarded:
            R.ok(key_, fi.where(rn.ast), "data is read only under `obj.path == channel_path`")
        elif any(other_channel(g) for g in guards) or in_loop:
            # read for an object of the loop over the chunk's objects that is not (known to be) the requested one
            R.violation(key_, fi.where(rn.ast), "`%s` reads data of an object that is not the requested channel: the bytes fetched are no longer bounded by "
                        "the request" % rn.text()[:70])
        else:
            R.unrecognised(key_, fi.where(rn.ast), "the read is outside the loop over the chunk's objects (the object and its position are found first, e.g. by a "
                           "helper): that it is the requested channel's object was not followed")
            continue
        # after the requested channel was read the loop ends
        r = cfg.reach([m for m, k in rn.succ if k not in ("exc", "uncaught")], follow_exc=False)
        R.check(not any(h in r for h in heads), "tdms_segment.ContiguousDataReader._read_channel_data_chunk::stops after the channel", fi.where(rn.ast),
                "the loop is left after reading the requested channel", "objects after the requested channel are still visited")
    # other objects advance a position by arithmetic only
    adv = []
    for n in walk_body(fi.node):
        if isinstance(n, ast.AugAssign) and isinstance(n.op, ast.Add) and isinstance(n.target, ast.Name):
            _env, guards = sy.env_at(n)
            if any(other_channel(g) for g in guards):
                adv.append(n)
    key = "tdms_segment.ContiguousDataReader._read_channel_data_chunk::skip by arithmetic"
    if adv:
        R.ok(key, fi.where(), "other channels are skipped by adding their size to the position")
    else:
        # (reads of other channels' data are flagged above; how the position is advanced past them was just not recognised)
        R.undecided(key, fi.where(), "no `position += size` under `obj.path != channel_path` in this function: how other channels are skipped was not recognised")


@rule("CG1", "whole-file and whole-segment readers are unreachable from the per-channel entry points", floor=6)
def cg1(ctx, R):
    prog = ctx.prog
    cg = ctx.callgraph()
    forbidden = ["reader.TdmsReader.read_raw_data", "tdms_segment.TdmsSegment.read_raw_data", "tdms_segment.TdmsSegment._read_data_chunks"]
    for q in forbidden:
        prog.func(q)
    entries = ["tdms.TdmsChannel.read_data", "tdms.TdmsChannel.__getitem__", "tdms.TdmsChannel._read_slice", "tdms.TdmsChannel._read_at_index",
               "tdms.TdmsChannel.data_chunks", "tdms.TdmsChannel.__iter__"]
    kinds = {"direct", "self", "super", "receiver", "byname-unique", "ctor", "prop"}
    for e in entries:
        prog.func(e)
        seen = cg.reachable([e], kinds=kinds)
        hit = [f for f in forbidden if f in seen]
        if hit:
            R.violation(e, prog.func(e).where(), "%s is reachable: a per-channel read goes through the reader for all channels" % hit[0],
                        path=cg.chain(seen, hit[0]))
        else:
            R.ok(e, prog.func(e).where(), "%d functions reachable, none of the whole-file/whole-segment readers" % len(seen))
    # contiguous layout: the per-channel chunk reader seeks past the other channels, it never falls back to the reader of all
    # channels of the chunk (the base class offers that fallback to the layouts that cannot skip)
    cr = prog.classes.get("tdms_segment.ContiguousDataReader")
    pc = cr.methods.get("_read_channel_data_chunk") if cr is not None else None
    if pc is None:
        R.unrecognised("tdms_segment.ContiguousDataReader::per-channel chunk reader", prog.module("tdms_segment").relpath,
                       "the contiguous reader has no per-channel chunk method of its own")
    else:
        seen = cg.reachable([pc.qual], kinds=kinds)
        hit = [q for q in seen if q.endswith("._read_data_chunk") or q.endswith("._read_data_chunks")]
        if hit:
            R.violation(pc.qual, pc.where(), "%s is reachable from the per-channel chunk reader of the contiguous layout: on that path the data of every "
                        "channel in the chunk is fetched to serve one channel" % sorted(hit)[0], path=cg.chain(seen, sorted(hit)[0]))
        else:
            R.ok(pc.qual, pc.where(), "%d functions reachable, the all-channels chunk reader is not among them" % len(seen))


@rule("CH1", "integer indexing serves repeated reads of a chunk from the cache and otherwise fetches one chunk", floor=2)
def ch1(ctx, R):
    from .sym import Sym, show
    from .region import nodes_reaching
    prog = ctx.prog
    fi = prog.func("tdms.TdmsChannel._read_at_index")
    cfg = ctx.cfg(fi)
    from .rules_cursor import _cache_hit_test
    _cache_hit_test(ctx, R, fi)
    # the fetch is not executed when the hit test held: no return from the cache is reachable after a fetch
    fetch = nodes_reaching(ctx, fi, cfg, {"reader.TdmsReader.read_channel_chunk_for_index"})
    if not fetch:
        raise AnchorMissing("tdms.TdmsChannel._read_at_index: chunk fetch")
    from .rules_cursor import chunk_cache_model
    from .sym import eval_cond
    from .sem import flat_conds, norm_items
    cm = chunk_cache_model(ctx, fi)
    sy = Sym(prog, fi, fi.cls)
    for conds, _K, _I, _S in cm["hits"]:
        atoms = set(flat_conds(conds))

        def orc(a):
            if a in atoms:
                return True
            if isinstance(a, tuple) and a and a[0] == "cmp" and len(a) == 4 and ("cmp", {"is": "is not", "==": "!="}.get(a[1], "?"), a[2], a[3]) in atoms:
                return False
            return None
        for f in fetch:
            _env, guards = sy.env_at(f.ast)
            vals = [eval_cond(norm_items(g), orc) for g in guards]
            key = "tdms.TdmsChannel._read_at_index::fetch only on a miss"
            if any(v is False for v in vals):
                R.ok(key, fi.where(f.ast), "the chunk fetch is not executed when the hit test holds")
            elif all(v is True for v in vals):
                R.violation(key, fi.where(f.ast), "a chunk is fetched from the file even when the cached chunk holds the value")
            else:
                R.undecided(key, fi.where(f.ast), "conditions of the fetch not decided under the hit test: %s" % "; ".join(show(g) for g in guards)[:160])
    from .rules_index import _segment_verifiers
    vers = _segment_verifiers(ctx)
    if not vers:
        raise AnchorMissing("a function that seeks to <segment>.position and raises when what it finds there is not a segment start")
    vq = sorted(vers)[0]
    vs = vers[vq][0]
    sv = Sym(prog, vs, vs.cls)
    reads = [c for c in walk_body(vs.node) if isinstance(c, ast.Call) and isinstance(c.func, ast.Attribute) and c.func.attr == "read"]
    nbytes = None
    if len(reads) == 1 and reads[0].args:
        env, _g = sv.env_at(reads[0])
        v = sv.expr(reads[0].args[0], env)
        if v[0] == "const":
            nbytes = v[1]
        elif v[0] == "len" and v[1][0] == "const" and isinstance(v[1][1], (bytes, str)):
            nbytes = len(v[1][1])
    if not reads:
        # the read lives in a helper the check calls: follow one level
        from .flow import resolve_call as _rc_
        for c_ in walk_body(vs.node):
            if isinstance(c_, ast.Call):
                for g_, _k in _rc_(prog, vs, vs.cls, c_):
                    if g_.module is vs.module and g_.cls is None:
                        sg_ = Sym(prog, g_, None)
                        for r_ in walk_body(g_.node):
                            if isinstance(r_, ast.Call) and isinstance(r_.func, ast.Attribute) and r_.func.attr == "read":
                                reads.append(r_)
                                if r_.args:
                                    e_, _gg = sg_.env_at(r_)
                                    v_ = sg_.expr(r_.args[0], e_)
                                    nbytes = v_[1] if v_[0] == "const" else nbytes
    if not reads:
        R.unrecognised("%s::constant 4 bytes" % vq, vs.where(), "no read call in the segment start check or the helper it calls")
    else:
      R.check(len(reads) == 1 and nbytes == 4, "%s::constant 4 bytes" % vq, vs.where(),
            "the per-segment overhead is one 4-byte tag read", "the segment start check reads %s" % [unparse(r) for r in reads])
