"""CT1 cursor typestate across generators, OW4 cache discipline, CE1 de-duplication
compares every element (property C05)."""
import ast

from .registry import rule
from .core import (call_name, dotted, walk_shallow, walk_body, unparse, AnchorMissing, AnalysisError)
from .callgraph import _dispatch, _receiver_classes, EXTERNAL

P, U = "P", "U"
# modules whose functions are interpreted (the read path); calls elsewhere cannot touch the stream
# modules of the baseline tree the cursor interpreter does NOT follow calls into (no stream operations there); every other module
# of the package - including modules that did not exist on the baseline tree - is followed
NO_DESCEND_MODULES = {"common", "log", "scaling", "thermocouples", "timestamp", "utils", "version", "writer", "tdmsinfo", "export.hdf_export", "export.pandas_export", "export", "__init__"}
MAX_DEPTH = 14


class _Flow(Exception):
    pass


class CursorInterp:
    """Abstract interpreter for the position of the shared stream.

    State per activation: subset of {P, U}.  P = positioned by this operation
    since its last suspension, U = unknown (another read may have moved it).
    Generator calls in `for` headers are analysed with the loop body as their
    continuation; only the entry point's own `yield` sets the cursor to U."""

    def __init__(self, ctx, R, entry_label):
        self.ctx = ctx
        self.prog = ctx.prog
        self.R = R
        self.entry = entry_label
        self.reported = set()
        self.n_reads = 0
        self.n_yields = 0
        self.undecided = []
        self.chain = []
        self.active = []
        self.classes_seen = set()
        self.funcs_seen = set()

    # ---- reporting ----------------------------------------------------
    def need_P(self, state, fi, node, what):
        self.n_reads += 1
        if U in state:
            key = "%s::%s::%s" % (self.entry, self._ctxname(fi), what)
            if key not in self.reported:
                self.reported.add(key)
                self.R.violation(key, fi.where(node),
                                 "`%s` depends on the stream position, but on this path the position is unknown: the generator was "
                                 "suspended at a yield (or the operation just started) and no absolute seek followed, so any other read "
                                 "on the same open file changes what this read returns" % unparse(node),
                                 path=list(self.chain) + ["%s: %s" % (fi.where(node), unparse(node))])
            return frozenset([P])
        return state

    def _ctxname(self, fi):
        return fi.qual

    # ---- function interpretation -----------------------------------------
    def run_func(self, fi, self_cls, streams, state, on_yield, depth):
        if depth > MAX_DEPTH:
            raise AnalysisError("CT1: call nesting bound %d exceeded at %s (chain: %s)" % (MAX_DEPTH, fi.qual, " > ".join(self.chain[-16:])))
        tag = "%s%s" % (fi.qual, (" [self: %s]" % self_cls.qual) if self_cls is not None and self_cls is not fi.cls else "")
        if self.chain.count(tag) >= 2:
            # the function is already being interpreted twice on this chain: a cycle of the (partly name-resolved) call graph.
            # The package has no recursive stream readers; the third entry is taken to leave the stream as it found it.
            self.recursion_cut = getattr(self, "recursion_cut", 0) + 1
            return frozenset(state)
        env = dict(fi=fi, self_cls=self_cls, streams=set(streams), on_yield=on_yield, depth=depth,
                   returns=set(), brk=None, cont=None)
        if self_cls is not None:
            self.classes_seen.add(self_cls.qual)
        self.funcs_seen.add(fi.qual)
        self.chain.append("%s%s" % (fi.qual, (" [self: %s]" % self_cls.qual) if self_cls is not None and self_cls is not fi.cls else ""))
        try:
            out = self.block(fi.node.body, frozenset(state), env)
        finally:
            self.chain.pop()
        return frozenset(out | env["returns"])

    def block(self, stmts, state, env):
        for s in stmts:
            if not state:
                break
            state = self.stmt(s, state, env)
        return state

    def stmt(self, s, state, env):
        if isinstance(s, ast.If):
            st = self.expr(s.test, state, env)
            return self.block(s.body, st, env) | self.block(s.orelse, st, env)
        if isinstance(s, (ast.For, ast.AsyncFor)):
            return self.for_loop(s, state, env)
        if isinstance(s, ast.While):
            head = state
            exits = frozenset()
            for _ in range(6):
                st = self.expr(s.test, head, env)
                saved = (env["brk"], env["cont"])
                env["brk"], env["cont"] = set(), set()
                body_out = self.block(s.body, st, env)
                brk, cont = env["brk"], env["cont"]
                env["brk"], env["cont"] = saved
                exits = exits | frozenset(brk)
                new_head = head | body_out | frozenset(cont)
                if new_head == head:
                    break
                head = new_head
            const_true = isinstance(s.test, ast.Constant) and s.test.value is True
            return (frozenset() if const_true else head) | exits
        if isinstance(s, (ast.With, ast.AsyncWith)):
            for it in s.items:
                state = self.expr(it.context_expr, state, env)
            return self.block(s.body, state, env)
        if isinstance(s, ast.Try):
            body_out = self.block(s.body, state, env)
            out = body_out
            if s.orelse:
                out = self.block(s.orelse, out, env)
            for h in s.handlers:
                out = out | self.block(h.body, state | body_out, env)
            if s.finalbody:
                out = self.block(s.finalbody, out | state, env)
            return out
        if isinstance(s, ast.Return):
            if s.value is not None:
                state = self.expr(s.value, state, env)
            env["returns"] |= set(state)
            return frozenset()
        if isinstance(s, ast.Raise):
            return frozenset()
        if isinstance(s, ast.Break):
            if env["brk"] is not None:
                env["brk"] |= set(state)
            return frozenset()
        if isinstance(s, ast.Continue):
            if env["cont"] is not None:
                env["cont"] |= set(state)
            return frozenset()
        if isinstance(s, (ast.FunctionDef, ast.ClassDef, ast.Pass, ast.Import, ast.ImportFrom, ast.Global)):
            return state
        if isinstance(s, ast.Assign):
            state = self.expr(s.value, state, env)
            # alias of the stream:  f = self._file
            d = dotted(s.value)
            for t in s.targets:
                td = dotted(t)
                if td is not None:
                    if d is not None and d in env["streams"]:
                        env["streams"].add(td)
                    elif td in env["streams"] and isinstance(t, ast.Name):
                        env["streams"].discard(td)
            # a helper object built around the stream:  x = Helper(file, ...)  keeps it in the fields its constructor stores it in
            v = s.value
            if isinstance(v, ast.Call) and isinstance(v.func, (ast.Name, ast.Attribute)) and len(s.targets) == 1 and isinstance(s.targets[0], ast.Name):
                k = self.prog.resolve_class(env["fi"].module, v.func)
                if k is not None:
                    from .region import ctor_fields
                    cf = ctor_fields(k)
                    flds = set()
                    for pos, a in enumerate(v.args):
                        if pos in cf and dotted(a) in env["streams"]:
                            flds.add("self." + cf[pos][0])
                    for kw in v.keywords:
                        for pos, (fld, pn) in cf.items():
                            if kw.arg == pn and dotted(kw.value) in env["streams"]:
                                flds.add("self." + fld)
                    if flds:
                        env.setdefault("objstreams", {})[s.targets[0].id] = (k, flds)
            return state
        # Expr, AugAssign, AnnAssign, Assert, Delete ...
        for child in ast.iter_child_nodes(s):
            if isinstance(child, ast.expr):
                state = self.expr(child, state, env)
        return state

    def _unwrap_iter(self, it):
        """strip enumerate(...)/iter(...) wrappers"""
        while isinstance(it, ast.Call) and call_name(it) in ("enumerate", "iter") and it.args:
            it = it.args[0]
        return it

    def _generator_alias(self, it, env):
        """`chunks = gen(...)` ... `for c in chunks`: the local stands for the generator call when it is assigned exactly once"""
        if isinstance(it, ast.Name):
            fi = env["fi"]
            defs = [n for n in walk_body(fi.node) if isinstance(n, ast.Assign) and any(isinstance(t, ast.Name) and t.id == it.id for t in n.targets)]
            if len(defs) == 1 and isinstance(self._unwrap_iter(defs[0].value), ast.Call):
                return self._unwrap_iter(defs[0].value)
        return it

    def for_loop(self, s, state, env):
        it = self._generator_alias(self._unwrap_iter(s.iter), env)
        if isinstance(it, ast.Call) and (call_name(it) or "").split(".")[-1] in ("zip", "zip_longest", "izip"):
            # zip(other, gen(...)): the rounds of the loop are the rounds of the one package generator among the arguments
            cands = [self._generator_alias(self._unwrap_iter(a), env) for a in it.args]
            gs = [c for c in cands if isinstance(c, ast.Call) and any(t.is_generator for t, _c in self.resolve(c, env))]
            if len(gs) == 1:
                it = gs[0]
        if isinstance(it, ast.Call):
            # a wrapper around one package generator -- itertools (chain.from_iterable(gen()), islice(gen(), n)) or a package generator that
            # only pairs the items of the generator it is given with something (for x in <parameter>: yield f(x)) -- has that generator's rounds
            cands = [self._generator_alias(self._unwrap_iter(a), env) for a in it.args]
            inner = [c for c in cands if isinstance(c, ast.Call) and any(t.is_generator for t, _c in self.resolve(c, env))]
            if len(inner) == 1:
                outer = self.resolve(it, env)
                head = (call_name(it) or "").split(".")[0]
                ext = not outer and (head in ("chain", "itertools", "islice", "map", "filter") or (call_name(it) or "").startswith("itertools."))
                passes_through = False
                if len(outer) == 1 and outer[0][0].is_generator:
                    g = outer[0][0]
                    ps = [p for p in g.params if not (g.cls is not None and not g.is_static and p in ("self", "cls"))]
                    idx = [i for i, c in enumerate(cands) if c is inner[0]][0]
                    pname = ps[idx] if idx < len(ps) else None
                    loops_ = [n for n in walk_body(g.node) if isinstance(n, ast.For) and isinstance(n.iter, ast.Name) and n.iter.id == pname]
                    others = [n for n in walk_body(g.node) if isinstance(n, ast.Call) and isinstance(n.func, ast.Attribute)
                              and n.func.attr in ("read", "readinto", "seek", "tell")]
                    passes_through = len(loops_) == 1 and not others
                if ext or passes_through:
                    it = inner[0]
        gens, nongens = [], []
        if isinstance(it, ast.Call):
            targets = self.resolve(it, env)
            gens = [(t, c) for (t, c) in targets if t.is_generator]
            nongens = [(t, c) for (t, c) in targets if not t.is_generator]
        out = frozenset()
        if gens:
            # arguments are evaluated first
            st0 = state
            for a in list(it.args) + [k.value for k in it.keywords]:
                st0 = self.expr(a, st0, env)
            exits = frozenset()
            brks = set()
            for (callee, self_cls) in gens:
                streams = self.bind_streams(callee, it, env, self_cls)

                def on_yield(st, s=s, env=env, brks=brks):
                    saved = (env["brk"], env["cont"])
                    env["brk"], env["cont"] = set(), set()
                    o = self.block(s.body, st, env)
                    o = o | frozenset(env["cont"])
                    brks |= env["brk"]
                    env["brk"], env["cont"] = saved
                    return o
                exits = exits | self.run_func(callee, self_cls, streams, st0, on_yield, env["depth"] + 1)
            out = out | exits | frozenset(brks)
            if not nongens:
                if s.orelse:
                    out = self.block(s.orelse, out, env)
                return out
        # ordinary iterable: evaluate it once (a non-generator callee does all its reads here)
        state = self.expr(s.iter, state, env)
        head = state
        exits = frozenset()
        for _ in range(6):
            saved = (env["brk"], env["cont"])
            env["brk"], env["cont"] = set(), set()
            body_out = self.block(s.body, head, env)
            brk, cont = env["brk"], env["cont"]
            env["brk"], env["cont"] = saved
            exits = exits | frozenset(brk)
            new_head = head | body_out | frozenset(cont)
            if new_head == head:
                break
            head = new_head
        out = out | head | exits
        if s.orelse:
            out = self.block(s.orelse, out, env)
        return out

    # ---- expressions -------------------------------------------------------
    def expr(self, e, state, env):
        if e is None:
            return state
        if isinstance(e, ast.YieldFrom):
            # yield from gen(...)  ==  for x in gen(...): yield x
            inner = self._generator_alias(self._unwrap_iter(e.value), env)
            if isinstance(inner, ast.Call):
                targets = self.resolve(inner, env)
                gens = [(t, c) for (t, c) in targets if t.is_generator]
                if gens and len(gens) == len(targets):
                    st0 = state
                    for a in list(inner.args) + [k.value for k in inner.keywords]:
                        st0 = self.expr(a, st0, env)
                    out = frozenset()
                    for (callee, self_cls) in gens:
                        streams = self.bind_streams(callee, inner, env, self_cls)

                        def on_yield(st, env=env):
                            self.n_yields += 1
                            return frozenset(env["on_yield"](st))
                        out = out | self.run_func(callee, self_cls, streams, st0, on_yield, env["depth"] + 1)
                    return out
        if isinstance(e, (ast.Yield, ast.YieldFrom)):
            if e.value is not None:
                state = self.expr(e.value, state, env)
            self.n_yields += 1
            return frozenset(env["on_yield"](state))
        if isinstance(e, ast.Call):
            return self.call(e, state, env)
        if isinstance(e, (ast.Lambda, ast.FunctionDef)):
            return state
        if isinstance(e, (ast.ListComp, ast.SetComp, ast.DictComp, ast.GeneratorExp)):
            # comprehension: generators' iterables then element expressions, iterated to a fixpoint
            for g in e.generators:
                state = self.expr(g.iter, state, env)
            head = state
            for _ in range(4):
                st = head
                for g in e.generators:
                    for c in g.ifs:
                        st = self.expr(c, st, env)
                if isinstance(e, ast.DictComp):
                    st = self.expr(e.key, st, env)
                    st = self.expr(e.value, st, env)
                else:
                    st = self.expr(e.elt, st, env)
                if head | st == head:
                    break
                head = head | st
            return head
        if isinstance(e, ast.IfExp):
            st = self.expr(e.test, state, env)
            return self.expr(e.body, st, env) | self.expr(e.orelse, st, env)
        if isinstance(e, ast.BoolOp):
            st = self.expr(e.values[0], state, env)
            out = st
            for v in e.values[1:]:
                st = self.expr(v, st, env)
                out = out | st
            return out
        for child in ast.iter_child_nodes(e):
            if isinstance(child, ast.expr):
                state = self.expr(child, state, env)
            elif isinstance(child, ast.keyword):
                state = self.expr(child.value, state, env)
            elif isinstance(child, ast.comprehension):
                state = self.expr(child.iter, state, env)
        return state

    def call(self, c, state, env):
        fi = env["fi"]
        cn = call_name(c)
        # stream operations
        if isinstance(c.func, ast.Attribute):
            recv = dotted(c.func.value)
            if recv is not None and recv in env["streams"]:
                for a in list(c.args) + [k.value for k in c.keywords]:
                    state = self.expr(a, state, env)
                m = c.func.attr
                if m == "seek":
                    whence = c.args[1] if len(c.args) > 1 else None
                    for k in c.keywords:
                        if k.arg == "whence":
                            whence = k.value
                    wd = dotted(whence) if whence is not None else None
                    wv = whence.value if isinstance(whence, ast.Constant) else None
                    if whence is None or wd in ("os.SEEK_SET", "io.SEEK_SET", "SEEK_SET") or wv == 0 \
                            or wd in ("os.SEEK_END", "io.SEEK_END", "SEEK_END") or wv == 2:
                        return frozenset([P])
                    if wd in ("os.SEEK_CUR", "io.SEEK_CUR", "SEEK_CUR") or wv == 1:
                        return self.need_P(state, fi, c, "%s.seek(SEEK_CUR)" % recv)
                    self.undecided.append((fi, c, "seek with unknown whence"))
                    return state
                if m in ("read", "readinto", "tell", "readline", "readlines", "read1"):
                    return self.need_P(state, fi, c, "%s.%s" % (recv, m))
                return state
        # next(gen(...)) : runs the generator up to its first yield and abandons it
        if cn == "next" and c.args and isinstance(self._generator_alias(self._unwrap_iter(c.args[0]), env), ast.Call):
            inner = self._generator_alias(self._unwrap_iter(c.args[0]), env)
            targets = self.resolve(inner, env)
            if targets and all(t.is_generator for t, _ in targets):
                for a in list(inner.args) + [k.value for k in inner.keywords]:
                    state = self.expr(a, state, env)
                out = frozenset()
                for (callee, self_cls) in targets:
                    streams = self.bind_streams(callee, inner, env, self_cls)
                    out = out | self.run_func(callee, self_cls, streams, state, lambda st: st, env["depth"] + 1)
                return out
        # arguments first
        if isinstance(c.func, ast.Attribute):
            state = self.expr(c.func.value, state, env)
        for a in list(c.args) + [k.value for k in c.keywords]:
            state = self.expr(a, state, env)
        targets = self.resolve(c, env)
        if not targets:
            # unknown callee given the stream: cannot know whether it reads
            passed = [a for a in list(c.args) + [k.value for k in c.keywords] if dotted(a) in env["streams"]]
            if passed and cn not in ("isinstance", "hasattr", "id", "log.debug"):
                if U in state:
                    self.undecided.append((fi, c, "stream passed to unresolved callee in state U"))
            return state
        out = frozenset()
        for (callee, self_cls) in targets:
            if callee.is_generator:
                # a generator object created outside for/next: nothing runs here
                out = out | state
                continue
            streams = self.bind_streams(callee, c, env, self_cls)
            if callee.module.name in NO_DESCEND_MODULES or any(x[0] is callee for x in self.active):
                out = out | state
                continue
            self.active.append((callee,))
            try:
                out = out | self.run_func(callee, self_cls, streams, state, env["on_yield"], env["depth"] + 1)
            finally:
                self.active.pop()
        return out

    # ---- resolution --------------------------------------------------------
    def resolve(self, c, env):
        """-> list of (FuncInfo, self class or None)"""
        prog = self.prog
        fi = env["fi"]
        f = c.func
        if isinstance(f, ast.Name):
            r = prog.resolve_name(fi.module, f.id)
            if r and r[0] == "func":
                return [(r[1], None)]
            return []
        if not isinstance(f, ast.Attribute):
            return []
        name = f.attr
        recv = dotted(f.value)
        if recv in ("self", "cls"):
            cls = env["self_cls"] or fi.cls
            if cls is None:
                return []
            found = prog.lookup(cls, name)
            if found and found[0] == "method":
                return [(found[2], cls)]
            return []
        if isinstance(f.value, ast.Call) and call_name(f.value) == "super" and fi.cls is not None:
            for k in prog.mro(fi.cls)[1:]:
                if name in k.methods:
                    return [(k.methods[name], env["self_cls"] or fi.cls)]
            return []
        if recv is not None and recv in (env.get("objstreams") or {}):
            k = env["objstreams"][recv][0]
            found = prog.lookup(k, name)
            return [(found[2], k)] if found and found[0] == "method" else []
        if recv is not None:
            r = prog.resolve_expr(fi.module, f.value)
            if r is not None:
                if r[0] == "module":
                    rr = prog.resolve_name(r[1], name)
                    return [(rr[1], None)] if rr and rr[0] == "func" else []
                if r[0] == "class":
                    found = prog.lookup(r[1], name)
                    return [(found[2], r[1])] if found and found[0] == "method" else []
                if r[0] == "ext":
                    return []
            classes = _receiver_classes(prog, fi, recv, {})
            if classes == EXTERNAL:
                return []
            if classes:
                out = []
                for k in classes:
                    found = prog.lookup(k, name)
                    if found and found[0] == "method" and (found[2], k) not in out:
                        out.append((found[2], k))
                return out
        # by-name union restricted to classes of the data type family / unique names
        cands = [m for m in prog.functions.values() if m.cls is not None and m.name == name]
        from .callgraph import EXTERNAL_METHODS
        if name in EXTERNAL_METHODS:
            return []
        return [(m, m.cls) for m in cands]

    def bind_streams(self, callee, c, env, self_cls):
        """Names that hold the shared stream inside the callee."""
        streams = set()
        params = list(callee.params)
        bound_self = callee.cls is not None and not callee.is_static and params and params[0] in ("self", "cls")
        if bound_self:
            params = params[1:]
        for i, a in enumerate(c.args):
            if i < len(params) and dotted(a) in env["streams"]:
                streams.add(params[i])
        for k in c.keywords:
            if k.arg and dotted(k.value) in env["streams"]:
                streams.add(k.arg)
        owner = self_cls or callee.cls
        if owner is not None and owner.qual == "reader.TdmsReader":
            streams.add("self._file")
        if isinstance(c.func, ast.Attribute) and isinstance(c.func.value, ast.Name) and c.func.value.id in (env.get("objstreams") or {}):
            streams |= env["objstreams"][c.func.value.id][1]
        return streams


ENTRY_GENERATORS = ["tdms.TdmsFile.data_chunks", "tdms.TdmsChannel.data_chunks", "tdms.TdmsChannel._read_data_values"]
ENTRY_FUNCTIONS = ["tdms.TdmsChannel.read_data", "tdms.TdmsChannel._read_at_index", "tdms.TdmsChannel._read_slice",
                   "tdms.TdmsChannel._read_channel_data"]


@rule("CT1", "no read of the shared stream depends on a position left by another activation", floor=7)
def ct1(ctx, R):
    prog = ctx.prog
    for q in ENTRY_GENERATORS + ENTRY_FUNCTIONS:
        fi = prog.func(q)
        interp = CursorInterp(ctx, R, q)
        before = len(R.violations)
        is_gen = q in ENTRY_GENERATORS
        on_yield = (lambda st: frozenset([U])) if is_gen else (lambda st: st)
        interp.run_func(fi, fi.cls, set(), frozenset([U]), on_yield, 0)
        if interp.n_reads == 0:
            raise AnchorMissing("%s: no position-dependent stream operation reached (call resolution lost the reader chain)" % q)
        need = set()
        for q_ in ("tdms_segment.ContiguousDataReader", "tdms_segment.InterleavedDataReader", "daqmx.DaqmxDataReader"):
            need.add(prog.cls(q_).qual)          # wherever the class lives now
        if q not in ("tdms.TdmsChannel._read_slice",) and not need <= interp.classes_seen:
            raise AnchorMissing("%s: data reader classes not all explored (missing %s; seen %s)" % (q, sorted(need - interp.classes_seen), sorted(interp.classes_seen)))
        for (f2, node, why) in interp.undecided:
            R.undecided("%s::%s" % (q, f2.qual), f2.where(node), why)
        if len(R.violations) == before:
            R.ok(q, fi.where(), "%d position-dependent stream operations reached over all three data reader classes, each preceded by an "
                 "absolute seek since the last %s" % (interp.n_reads, "yield of the entry generator (%d yields interpreted)" % interp.n_yields if is_gen else "operation start"))
    _ct1_controls(ctx, R)


_CONTROL_SRC = '''
class Seg:
    def good(self, f, n):
        for i in range(n):
            f.seek(self.pos + i * 4)
            yield f.read(4)
    def bad(self, f, n):
        f.seek(self.pos)
        for i in range(n):
            yield f.read(4)
'''


def _ct1_controls(ctx, R):
    """positive control: a generator that reads after its own yield without re-seeking must be flagged,
    its re-seeking twin must not"""
    import ast as _ast
    from .core import FuncInfo, Module, ClassInfo
    from .report import RuleResult
    tree = _ast.parse(_CONTROL_SRC)
    mod = Module("_ct1_control", "/dev/null/_ct1_control.py", _CONTROL_SRC, tree)
    mod.relpath = "<fixture ct1>"
    ci = ClassInfo(mod, tree.body[0])
    outcomes = {}
    for sub in tree.body[0].body:
        fi = FuncInfo(mod, sub, ci)
        tmp = RuleResult("CT1c", "control")
        interp = CursorInterp(ctx, tmp, "fixture." + sub.name)
        interp.run_func(fi, None, {"f"}, frozenset([U]), lambda st: frozenset([U]), 0)
        outcomes[sub.name] = len(tmp.violations)
    R.control("fixture bad generator flagged", outcomes.get("bad", 0) >= 1)
    R.control("fixture good generator silent", outcomes.get("good", 1) == 0)


# ---------------------------------------------------------------------------

CACHE_FIELDS = {
    "tdms_segment.TdmsSegment": {
        "chunk_size_cached": "_get_chunk_size", "data_objects_cached": "_get_data_objects",
        "has_daqmx_objects_cached": "_have_daqmx_objects"},
}


@rule("OW4", "memo fields are single-writer; the one-chunk cache and its bounds change together and are consulted correctly", floor=8)
def ow4(ctx, R):
    prog = ctx.prog
    # per-segment memo fields: stored only in __init__ (to None) and in their own getter
    for cq, fields in CACHE_FIELDS.items():
        ci = prog.cls(cq)
        for fld, getter in fields.items():
            prog.func("%s.%s" % (cq, getter))
            stores = []
            for fi in prog.functions.values():
                for n in walk_body(fi.node):
                    if isinstance(n, (ast.Assign, ast.AugAssign)):
                        tg = n.targets if isinstance(n, ast.Assign) else [n.target]
                        for t in tg:
                            if isinstance(t, ast.Attribute) and t.attr == fld:
                                stores.append((fi, n))
            bad = [(fi, n) for fi, n in stores if not (
                fi.cls is ci and (fi.name == getter or (fi.name == "__init__" and isinstance(n, ast.Assign)
                                                        and isinstance(n.value, ast.Constant) and n.value.value is None)))]
            key = "%s.%s" % (cq, fld)
            if bad:
                R.violation(key, bad[0][0].where(bad[0][1]), "memo field %s is also written in %s: a memoised per-segment layout that "
                            "other code rewrites makes later reads depend on earlier ones" % (fld, bad[0][0].qual))
            else:
                R.ok(key, "%s:%d" % (ci.module.relpath, ci.node.lineno), "%d store(s): __init__ (None) and %s only" % (len(stores), getter))
    # offset index: stored only in _build_index, never mutated in place
    stores = []
    muts = []
    for fi in prog.functions.values():
        for n in walk_body(fi.node):
            if isinstance(n, ast.Assign):
                for t in n.targets:
                    if isinstance(t, ast.Subscript) and dotted(t.value) == "self._segment_channel_offsets":
                        stores.append((fi, n))
                    if isinstance(t, ast.Subscript) and isinstance(t.value, ast.Name) and t.value.id in ("segment_offsets", "channel_offsets"):
                        muts.append((fi, n))
            if isinstance(n, ast.AugAssign) and isinstance(n.target, (ast.Name, ast.Subscript)):
                base = n.target.value if isinstance(n.target, ast.Subscript) else n.target
                if isinstance(base, ast.Name) and base.id in ("segment_offsets",):
                    muts.append((fi, n))
    bad = [(fi, n) for fi, n in stores if fi.qual != "reader.TdmsReader._build_index"]
    if not stores:
        raise AnchorMissing("stores to reader.TdmsReader._segment_channel_offsets")
    R.check(not bad, "reader.TdmsReader._segment_channel_offsets::single writer", stores[0][0].where(stores[0][1]),
            "stored only in _build_index", "offset index also stored in %s" % (bad[0][0].qual if bad else ""))
    R.check(not muts, "reader.TdmsReader._segment_channel_offsets::arrays never mutated", stores[0][0].where(stores[0][1]),
            "shared (de-duplicated) offset arrays are never written through",
            "an offset array shared between channels is modified in place in %s" % (muts[0][0].qual if muts else ""))
    # one-chunk cache
    from .region import region
    fi = prog.func("tdms.TdmsChannel._read_at_index")
    cm = chunk_cache_model(ctx, fi)
    reg = {f.qual for f in region(ctx, fi, depth=2)}
    K = cm["owner"]
    state = cm["state"]

    def stores_attr(n, name):
        return n.kind == "stmt" and isinstance(n.ast, ast.Assign) and any(
            isinstance(t, ast.Attribute) and dotted(t.value) == "self" and t.attr == name for t in n.ast.targets)

    def assigns_state(f2, own):
        return any(isinstance(n, ast.Assign) and any(isinstance(t, ast.Attribute) and t.attr in state and (dotted(t.value) == "self") == own for t in n.targets)
                   for n in walk_body(f2.node))
    writers = [m for m in K.methods.values() if m.name != "__init__" and assigns_state(m, True)]
    if not writers:
        raise AnchorMissing("%s: stores of the one-chunk cache (%s)" % (K.qual, sorted(state)))
    for w in writers:
        cfg = ctx.cfg(w)
        for a in sorted(state):
            for b in sorted(state):
                if a == b:
                    continue
                for n in cfg.where(lambda n: stores_attr(n, a)):
                    ok1, _ = cfg.always_passes(n, lambda m: stores_attr(m, b), targets={cfg.exit}, follow_exc=False)
                    ok2, _ = cfg.dominated_by(n, lambda m: stores_attr(m, b))
                    R.check(ok1 or ok2, "%s::%s with %s" % (K.qual, a, b), w.where(n.ast),
                            "the cached chunk and its bounds are assigned together", "self.%s is assigned without self.%s on some path: "
                            "the bounds would then describe another chunk" % (a, b))
    cg = ctx.callgraph()
    others = [f2.qual for f2 in prog.functions.values() if f2.cls is not K and f2.name != "__init__" and any(
        isinstance(n, ast.Assign) and any(isinstance(t, ast.Attribute) and t.attr in state and dotted(t.value) != "self" for t in n.targets)
        for n in walk_body(f2.node))]
    for w in writers:
        if w is not fi:
            callers = {e.caller for e in cg.callers(w.qual)}
            if not callers <= reg:
                others.append("%s (called from %s)" % (w.qual, sorted(callers - reg)))
    R.check(not others, "tdms.TdmsChannel::cache single writer", fi.where(), "cache written only by integer indexing (and reset in __init__)",
            "cache also written in %s" % (others[0] if others else ""))
    _cache_hit_test(ctx, R, fi)
    # what the cache holds is scaled data of whatever chunk was indexed last: accessors that promise raw data, or data that does not
    # depend on earlier reads, must not be answered from it
    from .sym import Sym, simplify
    from .sem import mentions
    rd = prog.func("tdms.TdmsChannel.read_data")
    if "scaled" in rd.params:
        v_raw = simplify(Sym(prog, rd, rd.cls).function_value({"scaled": ("const", False)}), lambda c: None)
        if v_raw[0] != "opaque":
            R.check(not mentions(v_raw, cm["V"]), "tdms.TdmsChannel.read_data::raw reads bypass the chunk cache", rd.where(),
                    "read_data(scaled=False) never returns data taken from the (scaled) chunk cache",
                    "read_data(scaled=False) can be answered from the chunk cache of integer indexing, which holds SCALED data: the result of a raw "
                    "read then depends on which index was read before")
    # a window served from the cached chunk: the conditions that select it must bound the END of the window by the end of the
    # cached chunk, not only its start
    from .sem import leaves, flat_conds, params_of, norm_items
    from .sym import show, contains
    V = cm["V"]
    for m_ in sorted(K.methods.values(), key=lambda f_: f_.qual) if K is fi.cls else []:
        if m_ is fi or m_.name == "__init__":
            continue
        if not any(isinstance(x, ast.Attribute) and x.attr == V[-1] for x in ast.walk(m_.node)):
            continue
        try:
            val = _named_items(prog, m_.module, norm_items(Sym(prog, m_, m_.cls).function_value()))
        except Exception:
            continue
        if not isinstance(val, tuple) or not val or val[0] == "opaque":
            continue
        for conds, leaf in leaves(val, ()):
            base = leaf
            while isinstance(base, tuple) and base and base[0] == "method" and base[1] in ("copy", "view", "astype"):
                base = base[2]
            if not (isinstance(base, tuple) and base and base[0] == "sub" and base[1] == V and isinstance(base[2], tuple) and base[2] and base[2][0] == "slice"):
                continue
            lo, hi = base[2][1], base[2][2]
            key = "%s::window served from the chunk cache" % m_.qual
            extent = set(params_of(hi)) - set(params_of(lo)) if hi != ("const", None) else set()
            if not extent:
                R.undecided(key, m_.where(), "upper bound `%s` of the window taken from the cached chunk not understood" % show(hi)[:80])
                continue
            fc = [c for c in flat_conds(conds) if isinstance(c, tuple) and len(c) == 4 and c[0] == "cmp" and c[1] in ("<", ">", "<=", ">=")]
            state_fields = [x for x in cm["state"] if x != V[-1]]
            def mentions_bounds(t):
                return contains(t, lambda y: _is_field(y) and y[-1] in state_fields) or contains(t, lambda y: y == ("len", V) or (isinstance(y, tuple) and y[:2] == ("call", "len") and V in y[2]))
            bounded = [c for c in fc if any(p_ in _flat_terms(c[2]) + _flat_terms(c[3]) for p_ in extent) and (mentions_bounds(c[2]) or mentions_bounds(c[3]))]
            R.check(bool(bounded), key, m_.where(), "the window's end is compared with the end of the cached chunk (`%s`)" % (show(bounded[0])[:80] if bounded else ""),
                    "`%s` is returned from the chunk cached by integer indexing under conditions (%s) that do not compare the end of the window (%s) with the end of the "
                    "cached chunk: a window that starts inside the cached chunk and runs past it is silently cut short, so the result depends on which index was read before"
                    % (show(leaf)[:80], "; ".join(show(c)[:50] for c in fc)[:200], ", ".join(sorted(p_[1] for p_ in extent))))


def _flat_terms(t):
    out = []
    def visit(y):
        if isinstance(y, tuple):
            out.append(y)
            for z in y:
                visit(z)
    visit(t)
    return out


def _is_field(t):
    return isinstance(t, tuple) and ((len(t) == 2 and t[0] == "self") or (len(t) == 3 and t[0] == "attr" and _is_field(t[1])))


def _root_field(t):
    """the field a term is read from: self.x[0] -> self.x"""
    while isinstance(t, tuple) and t and t[0] in ("item", "sub"):
        t = t[1]
    return t if _is_field(t) else None


def _named_items(prog, mod, v):
    """<field>.name, for a record type (namedtuple / NamedTuple class) declared in the module whose fields include `name`, is item i
    of the field: the cached bounds kept as a named pair read the same as the plain pair"""
    names = {}
    clash = set()
    for nm, e in mod.assigns.items():
        if isinstance(e, ast.Call) and (call_name(e) or "").split(".")[-1] == "namedtuple" and len(e.args) >= 2:
            fl = prog.try_fold(e.args[1], mod, default=None)
            if isinstance(fl, str):
                fl = fl.replace(",", " ").split()
            for i, f_ in enumerate(fl or ()):
                if names.get(f_, i) != i:
                    clash.add(f_)
                names[f_] = i
    for ci in prog.classes.values():
        if ci.module is mod and any("NamedTuple" in b for b in ci.ext_bases):
            fl = [n.target.id for n in ci.node.body if isinstance(n, ast.AnnAssign) and isinstance(n.target, ast.Name)]
            for i, f_ in enumerate(fl):
                if names.get(f_, i) != i:
                    clash.add(f_)
                names[f_] = i
    names = {k: i for k, i in names.items() if k not in clash}
    if not names:
        return v

    def rw(x):
        if isinstance(x, tuple):
            if len(x) == 3 and x[0] == "attr" and x[2] in names and _is_field(x[1]):
                return ("item", rw(x[1]), names[x[2]])
            return tuple(rw(y) for y in x)
        return x
    return rw(v)


def chunk_cache_model(ctx, fi=None):
    """The one-chunk cache of integer indexing, discovered from the normal form of _read_at_index: results of the form V[I - S]
    where V is a field (of the channel or of a helper object it keeps in a field).  -> dict(hits=[(conds, V, I, S)], V=, owner=class
    owning the fields, state={field names: values, start, end}, value=normal form)"""
    from .sem import leaves, flat_conds, match, W, norm_items
    from .sym import Sym
    from .callgraph import field_classes
    prog = ctx.prog
    fi = fi or prog.func("tdms.TdmsChannel._read_at_index")
    if getattr(ctx, "_cache_model", None) is not None and ctx._cache_model[0] is fi:
        return ctx._cache_model[1]
    v = _named_items(prog, fi.module, norm_items(Sym(prog, fi, fi.cls).function_value()))
    if v[0] == "opaque":
        raise AnchorMissing("tdms.TdmsChannel._read_at_index: body in normal form")
    hits = []

    def walk(val, conds):
        for cs, leaf in leaves(val, conds):
            if leaf[0] == "sub" and isinstance(leaf[1], tuple) and leaf[1] and leaf[1][0] == "phi":
                # indexing distributes over a conditional base
                for cs2, base in leaves(leaf[1], cs):
                    walk(("sub", base, leaf[2]), cs2)
            elif leaf[0] == "sub" and _is_field(leaf[1]):
                hits.append((cs, leaf[1], leaf[2]))
    walk(v, ())
    if not hits:
        raise AnchorMissing("tdms.TdmsChannel._read_at_index: return from the cached chunk")
    V = hits[0][1]
    if any(h[1] != V for h in hits):
        raise AnchorMissing("tdms.TdmsChannel._read_at_index: one cached chunk (found %d different fields)" % len({h[1] for h in hits}))
    if V[0] == "self":
        owner, prefix = fi.cls, None
    else:
        fc = field_classes(prog, fi.cls).get(V[1][1]) if V[1][0] == "self" else None
        if not fc:
            raise AnchorMissing("tdms.TdmsChannel._read_at_index: class of the object holding the cached chunk")
        owner, prefix = fc[0], V[1]
    state = {V[-1]}
    out_hits = []
    for conds, _v, K in hits:
        m = match(("binop", "-", (W("I"), W("S"))), K)
        I, S = (m["I"], m["S"]) if m else (None, None)
        out_hits.append((conds, K, I, S))
        if S is not None and _root_field(S) is not None:
            state.add(_root_field(S)[-1])
        if I is not None:
            for c in flat_conds(conds):
                if isinstance(c, tuple) and len(c) == 4 and c[0] == "cmp" and c[1] in ("<", ">", "<=", ">="):
                    for t in (c[2], c[3]):
                        rf = _root_field(t)
                        if rf is not None and t != I and (rf[1] if rf[0] == "attr" else None) == prefix and (c[2] == I or c[3] == I):
                            state.add(rf[-1])
    # does a call that (re)writes the cache state precede a return that serves from the cache?  Then the conditions of that
    # result in the normal form are not the hit test (the normal form does not model the update of the fields by the call)
    from .region import call_reaches
    from .cfg import node_calls
    writers = {m.qual for m in owner.methods.values() if m.name != "__init__" and any(
        isinstance(n, ast.Assign) and any(isinstance(t, ast.Attribute) and dotted(t.value) == "self" and t.attr in state for t in n.targets)
        for n in walk_body(m.node))} - {fi.qual}
    refilled = False
    if writers:
        cfg = ctx.cfg(fi)
        sy = Sym(prog, fi, fi.cls)
        wnodes = cfg.where(lambda n: any(call_reaches(ctx, fi, c, writers) for c in node_calls(n)))
        after = cfg.reach([m for w in wnodes for m, k in w.succ if k not in ("exc", "uncaught")], follow_exc=False) if wnodes else set()
        for n in cfg.where(lambda n: n.kind == "return" and n.ast.value is not None):
            if n in after:
                env, _g = sy.env_at(n.ast)
                rv = _named_items(prog, fi.module, norm_items(sy.expr(n.ast.value, env)))
                if rv[0] == "sub" and rv[1] == V:
                    refilled = True
    model = dict(hits=out_hits, V=V, owner=owner, prefix=prefix, state=state, value=v, fi=fi, refilled=refilled)
    ctx._cache_model = (fi, model)
    return model


def _cache_hit_test(ctx, R, fi):
    """In normal form, every result served from the cached chunk is selected by conditions that bound the (normalised) index
    on both sides by the cached chunk's start and end, and is taken at index - start."""
    from .sem import flat_conds, find, W
    from .sym import show
    cm = chunk_cache_model(ctx, fi)
    P = ("param", fi.params[1] if len(fi.params) > 1 else "index")
    for conds, K, I, S in cm["hits"]:
        fc = flat_conds(conds)
        key = "tdms.TdmsChannel._read_at_index::cache hit test"
        if I is None or _root_field(S) is None:
            R.undecided(key, fi.where(), "position in the cached chunk `%s` not understood" % show(K)[:100])
            continue
        lower = ("cmp", "<=", S, I) in fc or ("cmp", ">=", I, S) in fc
        ends = [c[3] if c[2] == I else c[2] for c in fc if isinstance(c, tuple) and len(c) == 4 and c[0] == "cmp" and (
            (c[1] == "<" and c[2] == I) or (c[1] == ">" and c[3] == I))]
        ends = [e for e in ends if _root_field(e) is not None and e != S and (_root_field(e)[1] if _root_field(e)[0] == "attr" else None) == cm["prefix"]
                and _root_field(e)[-1] in cm["state"]]
        upper = bool(ends)
        if lower and upper:
            R.ok(key, fi.where(), "the hit test bounds the index from below and above by the cached bounds")
        elif cm["refilled"]:
            R.undecided(key, fi.where(), "the value is served from the cache after a call that may have refilled it: the update of the cache fields by that "
                        "call is not modelled, so the conditions of this result are not the hit test")
        else:
            R.violation(key, fi.where(), "the value is served from the cached chunk under a test that does not bound the index %s: an index "
                        "outside the cached chunk would be answered from it (result depends on what was read before). Conditions: %s" % (
                            "from below" if upper else ("from above" if lower else "at all"), "; ".join(show(c) for c in fc)[:200]))
        normalised = bool(find(I, ("cmp", "<", P, ("const", 0)))) or bool(find(I, ("cmp", ">=", P, ("const", 0))))
        R.check(normalised or I != P, "tdms.TdmsChannel._read_at_index::index normalised before cache lookup", fi.where(),
                "negative indices are normalised before the cache is consulted",
                "the cache is consulted before a negative index is normalised: the same element is fetched again "
                "or missed depending on how it was addressed")


@rule("CE1", "offset-array de-duplication compares every element", floor=1)
def ce1(ctx, R):
    prog = ctx.prog
    bi = prog.func("reader.TdmsReader._build_index")
    dedup_calls = [c for c in walk_body(bi.node) if isinstance(c, ast.Call) and call_name(c) == "_deduplicate_array"]
    if not dedup_calls:
        # no de-duplication at all is fine for independence, but any other sharing scheme is not understood
        shares = [n for n in walk_body(bi.node) if isinstance(n, ast.Assign) and any(
            isinstance(t, ast.Subscript) and dotted(t.value) == "self._segment_channel_offsets" for t in n.targets)]
        if not shares:
            raise AnchorMissing("reader.TdmsReader._build_index: store of the offset index")
        # is the stored array possibly taken from another channel's entry without an element-wise comparison?
        reuse = [n for n in walk_body(bi.node) if isinstance(n, (ast.Subscript, ast.Call)) and "_offset" in unparse(n)
                 and ("get(" in unparse(n) or "setdefault(" in unparse(n))]
        if reuse:
            R.violation("reader.TdmsReader._build_index::offset arrays shared by key", bi.where(reuse[0]),
                        "an offset array computed for another channel is reused on the basis of a lookup key (`%s`) and not of an "
                        "element-wise comparison: two channels with equal key but different per-segment counts would share one index" % unparse(reuse[0])[:80])
        else:
            R.ok("reader.TdmsReader._build_index::no sharing", bi.where(), "offset arrays are not shared between channels")
        return
    dd = prog.func("reader._deduplicate_array")
    ae = prog.func("reader._array_equal")
    # _deduplicate_array returns a candidate only under _array_equal(xs, candidate)
    cfg = ctx.cfg(dd)
    from .rules_resource import _controlling_tests
    for r in cfg.where(lambda n: n.kind == "return" and isinstance(n.ast.value, ast.Name) and n.ast.value.id != dd.params[0]):
        tests = _controlling_tests(cfg, r)
        ok = any(isinstance(t.ast, ast.Call) and call_name(t.ast) in ("_array_equal", "np.array_equal", "numpy.array_equal") for t in tests)
        # the very same object is equal to itself: `if candidate is xs: return candidate`
        ok = ok or any(isinstance(t.ast, ast.Compare) and len(t.ast.ops) == 1 and isinstance(t.ast.ops[0], ast.Is) and
                       {getattr(t.ast.left, "id", None), getattr(t.ast.comparators[0], "id", None)} == {r.ast.value.id, dd.params[0]} for t in tests)
        R.check(ok, "reader._deduplicate_array::candidate returned only when equal", dd.where(r.ast),
                "an existing array replaces the new one only under an element-wise equality test",
                "an existing array is returned without an element-wise equality test")
    # a block slice whose upper bound does not move with the block:  for off in range(0, n, B): ... a[off:B] ...
    # (for every block after the first the slice is empty - or shrinking - so those elements are never compared)
    for lp in [n for n in walk_body(ae.node) if isinstance(n, ast.For) and isinstance(n.target, ast.Name)]:
        it = lp.iter
        if not (isinstance(it, ast.Call) and call_name(it) == "range" and len(it.args) == 3):
            continue
        lv_, step = lp.target.id, it.args[2]
        for sl in [x for b_ in lp.body for x in ast.walk(b_) if isinstance(x, ast.Subscript) and isinstance(x.slice, ast.Slice)]:
            lo, hi = sl.slice.lower, sl.slice.upper
            if isinstance(lo, ast.Name) and lo.id == lv_ and hi is not None and not any(isinstance(y, ast.Name) and y.id == lv_ for y in ast.walk(hi)) \
                    and unparse(hi) == unparse(step):
                R.violation("reader._array_equal::block slice", ae.where(sl), "`%s` starts at the block's offset but ends at the block SIZE, not at offset + size: from the second block on "
                            "the slice is empty, so only the first %s elements are ever compared and arrays that differ later are taken to be equal" % (unparse(sl)[:60], unparse(step)))
                break
    # _array_equal: the block loop covers ceil(len / chunk_size) blocks
    for n in walk_body(ae.node):
        if isinstance(n, ast.Assign) and isinstance(n.targets[0], ast.Name) and isinstance(n.value, ast.BinOp) \
                and isinstance(n.value.op, ast.FloorDiv):
            num, den = n.value.left, n.value.right
            txt = unparse(num).replace(" ", "")
            d = unparse(den)
            ceil_form = ("+%s-1" % d) in txt or ("-1+%s" % d) in txt or txt.startswith("-(") or ("+(%s-1)" % d) in txt
            uses_len = "len(" in txt
            key = "reader._array_equal::block count"
            if uses_len and ceil_form:
                R.ok(key, ae.where(n), "ceil(len / block) blocks compared: every element is covered")
            elif uses_len:
                R.violation(key, ae.where(n), "`%s` rounds the number of compared blocks down: the tail of the arrays is never compared, so "
                            "channels whose offset arrays differ only in the tail share one index" % unparse(n))
            else:
                R.undecided(key, ae.where(n), "block count expression not understood")
    # length equality required
    has_len = any(isinstance(n, ast.Compare) and "len(" in unparse(n) and isinstance(n.ops[0], (ast.NotEq, ast.Eq)) for n in walk_body(ae.node))
    R.check(has_len, "reader._array_equal::length compared", ae.where(), "lengths are compared first",
            "arrays of different length can compare equal")
