"""Semantic query helpers shared by the rules: everything here works on resolved program facts (MRO, call targets,
symbolic normal forms), never on source text, so that renaming locals, extracting helpers or regrouping statements does
not change the answer.
"""
import ast

from .core import dotted, walk_body
from .sym import Sym, mkphi, mknot


# ---------------------------------------------------------------- canonical values
def leaves(v, conds=()):
    """[(conds, leaf)] of a canonical value: conditional values are split, conds are the canonical tests selecting the leaf
    (('not', c) for the else side)."""
    if isinstance(v, tuple) and v and v[0] == "phi":
        return leaves(v[2], conds + (v[1],)) + leaves(v[3], conds + (neg(v[1]),))
    return [(conds, v)]


def neg(c):
    from .sym import mknot
    return mknot(c)


def flat_conds(conds):
    """split conjunctions / negated disjunctions into atomic conditions"""
    out = []
    for c in conds:
        if isinstance(c, tuple) and c and c[0] == "and":
            out.extend(flat_conds(c[1:]))
        elif isinstance(c, tuple) and c and c[0] == "not" and isinstance(c[1], tuple) and c[1] and c[1][0] == "or":
            out.extend(flat_conds([neg(x) for x in c[1][1:]]))
        elif isinstance(c, tuple) and len(c) == 4 and c[0] == "phi" and c[2] == ("const", False):
            out.extend(flat_conds([neg(c[1]), c[3]]))        # (False if t else X) holds  ==  not t and X
        elif isinstance(c, tuple) and len(c) == 4 and c[0] == "phi" and c[3] == ("const", False):
            out.extend(flat_conds([c[1], c[2]]))
        else:
            out.append(c)
    return out


class W:
    """wildcard in a pattern; W('x') binds, W() matches anything, W('x', pred) binds if pred(value)"""
    def __init__(self, name=None, pred=None):
        self.name = name
        self.pred = pred

    def __repr__(self):
        return "?%s" % (self.name or "")


def match(pat, val, binds=None):
    """structural match of a canonical value against a pattern with W wildcards -> binds dict or None"""
    binds = {} if binds is None else binds
    if isinstance(pat, W):
        if pat.pred is not None and not pat.pred(val):
            return None
        if pat.name is not None:
            if pat.name in binds and binds[pat.name] != val:
                return None
            binds[pat.name] = val
        return binds
    if isinstance(pat, tuple):
        if not isinstance(val, tuple) or len(pat) != len(val):
            return None
        for p, v in zip(pat, val):
            if match(p, v, binds) is None:
                return None
        return binds
    return binds if pat == val else None


def find(val, pat, out=None):
    """all (sub value, binds) of val that match pat"""
    out = [] if out is None else out
    b = match(pat, val, {})
    if b is not None:
        out.append((val, b))
    if isinstance(val, tuple):
        for y in val:
            find(y, pat, out)
    return out


def subst(v, old, new):
    if v == old:
        return new
    if isinstance(v, tuple):
        return tuple(subst(y, old, new) for y in v)
    return v


def mentions(v, leaf):
    if v == leaf:
        return True
    if isinstance(v, tuple):
        return any(mentions(y, leaf) for y in v)
    return False


def params_of(v):
    out = []
    if isinstance(v, tuple):
        if len(v) == 2 and v[0] == "param":
            out.append(v)
        else:
            for y in v:
                for p in params_of(y):
                    if p not in out:
                        out.append(p)
    return out


# ---------------------------------------------------------------- functions
def ret_canon(prog, qual_or_fi, bound=None, self_cls=None, inline=True):
    fi = prog.func(qual_or_fi) if isinstance(qual_or_fi, str) else qual_or_fi
    return Sym(prog, fi, self_cls or fi.cls, inline=inline).function_value(bound)


def canon_at(prog, fi, node, self_cls=None, inline=True):
    """(canonical value of an expression node at its position, guards of the enclosing ifs)"""
    sy = Sym(prog, fi, self_cls or fi.cls, inline=inline)
    # env_at wants a statement or an expression inside one
    env, guards = sy.env_at(node)
    return sy.expr(node, env), guards


def call_arg(prog, call, callee, pname, sy, env):
    """canonical value bound to parameter `pname` of `callee` at `call` (positional, keyword, default), or None"""
    ps = [p for p in callee.params if not (callee.cls is not None and not callee.is_static and p in ("self", "cls"))]
    if pname not in ps:
        return None
    i = ps.index(pname)
    if len(call.args) > i and not any(isinstance(a, ast.Starred) for a in call.args[:i + 1]):
        return sy.expr(call.args[i], env)
    for k in call.keywords:
        if k.arg == pname:
            return sy.expr(k.value, env)
    d = callee.defaults.get(pname) if hasattr(callee, "defaults") else None
    if d is not None:
        return Sym(prog, callee, callee.cls).expr(d, {})
    return None


def calls_to(prog, fi, quals, self_cls=None):
    """call nodes of fi that resolve (directly) to one of the given functions"""
    from .flow import resolve_call
    quals = set([quals] if isinstance(quals, str) else quals)
    out = []
    for c in walk_body(fi.node):
        if isinstance(c, ast.Call):
            if any(f.qual in quals for f, _k in resolve_call(prog, fi, self_cls or fi.cls, c)):
                out.append(c)
    return out


def call_chains(prog, root, target, max_depth=3, inline=False, within=None):
    """every chain of direct calls root -> ... -> target (through functions accepted by `within`, default: same module):
    [(guards, binding)] with the guards of all call sites on the chain and the parameters of `target`, both expressed in
    root's terms (the callee's parameters are replaced by the caller's arguments along the chain)"""
    from .flow import resolve_call
    within = within or (lambda f: f.module is root.module)
    out = []

    def sub_all(v, binding):
        for p_, a_ in binding.items():
            v = subst(v, ("param", p_), a_)
        return v

    def walk(f, guards, binding, depth, seen):
        if f is target:
            out.append((tuple(guards), dict(binding)))
            return
        if depth >= max_depth:
            return
        sy = None
        for c in walk_body(f.node):
            if not isinstance(c, ast.Call):
                continue
            for t, _k in resolve_call(prog, f, f.cls, c):
                if t.qual in seen or not within(t) or (t.cls is not None and t.name == "__init__"):
                    continue
                sy = sy or Sym(prog, f, f.cls, inline=inline)
                env, gs = sy.env_at(c)
                b2 = {}
                for p_ in t.params:
                    if p_ in ("self", "cls") and t.cls is not None and not t.is_static:
                        continue
                    a_ = call_arg(prog, c, t, p_, sy, env)
                    if a_ is not None:
                        b2[p_] = sub_all(a_, binding)
                walk(t, list(guards) + [sub_all(g, binding) for g in gs], b2, depth + 1, seen | {t.qual})
    walk(root, [], {}, 0, {root.qual})
    return out


# ---------------------------------------------------------------- classes
def instance_attrs(prog, ci):
    """attributes stored on self by the constructor of ci: own __init__ or the inherited one, following super().__init__()
    and Base.__init__(self, ...) calls.  -> {attr: [(FuncInfo, Assign)]}"""
    out = {}
    seen = set()

    def visit(fi):
        if fi is None or fi.qual in seen:
            return
        seen.add(fi.qual)
        for n in walk_body(fi.node):
            if isinstance(n, (ast.Assign, ast.AnnAssign, ast.AugAssign)):
                targets = n.targets if isinstance(n, ast.Assign) else [n.target]
                for t in targets:
                    for tt in (t.elts if isinstance(t, (ast.Tuple, ast.List)) else [t]):
                        if isinstance(tt, ast.Attribute) and dotted(tt.value) == "self":
                            out.setdefault(tt.attr, []).append((fi, n))
            if isinstance(n, ast.Call) and isinstance(n.func, ast.Attribute) and n.func.attr == "__init__":
                # super().__init__(...) / Base.__init__(self, ...)
                owner = fi.cls
                if isinstance(n.func.value, ast.Call) and dotted(n.func.value.func) == "super" and owner is not None:
                    m = prog.mro(owner)
                    for base in m[1:]:
                        if "__init__" in base.methods:
                            visit(base.methods["__init__"])
                            break
                else:
                    r = prog.resolve_class(fi.module, n.func.value)
                    if r is not None and "__init__" in r.methods:
                        visit(r.methods["__init__"])
    found = prog.lookup(ci, "__init__")
    if found and found[0] == "method":
        visit(found[2])
    return out


def method_of(prog, ci, name):
    found = prog.lookup(ci, name)
    return found[2] if found and found[0] == "method" else None


def module_region(prog, fi, depth=3):
    """fi plus the module-level functions of the same module it (transitively) calls by name, and the methods of private helper
    classes of the module that it constructs"""
    out, seen = [fi], {fi.qual}
    frontier = [fi]
    for _ in range(depth):
        nxt = []
        for f in frontier:
            for c in walk_body(f.node):
                if isinstance(c, ast.Call) and isinstance(c.func, (ast.Name, ast.Attribute)):
                    r = prog.resolve_expr(f.module, c.func)
                    if r and r[0] == "func" and r[1].qual not in seen and r[1].module is fi.module and r[1].cls is None:
                        seen.add(r[1].qual)
                        out.append(r[1])
                        nxt.append(r[1])
                    if r and r[0] == "class" and r[1].module is fi.module and r[1].name.startswith("_"):
                        # a private helper class of the module built here: its methods belong to the region
                        for m in r[1].methods.values():
                            if m.qual not in seen:
                                seen.add(m.qual)
                                out.append(m)
                                nxt.append(m)
                if isinstance(c, ast.Call) and isinstance(c.func, ast.Attribute) and dotted(c.func.value) == "self" and f.cls is not None \
                        and f.cls.name.startswith("_") and f.cls.module is fi.module:
                    m = f.cls.methods.get(c.func.attr)
                    if m is not None and m.qual not in seen:
                        seen.add(m.qual)
                        out.append(m)
                        nxt.append(m)
        frontier = nxt
    return out


def keyed_constructions(prog, funcs):
    """{string constant: (ClassInfo, FuncInfo, node)} for dispatches of the shape
         if X == 'Name': ... Cls.from_properties(...) / Cls(...)          (if/elif chains, early returns)
         {'Name': Cls, ...} / {'Name': Cls.from_properties, ...}          (dispatch tables)"""
    out = {}

    def cls_of(f, e):
        if isinstance(e, ast.Call):
            e = e.func
        if isinstance(e, ast.Attribute) and e.attr == "from_properties":
            e = e.value
        return prog.resolve_class(f.module, e) if isinstance(e, (ast.Name, ast.Attribute)) else None
    for f in funcs:
        for n in ast.walk(f.node):
            if isinstance(n, ast.If) and isinstance(n.test, ast.Compare) and len(n.test.ops) == 1 and isinstance(n.test.ops[0], ast.Eq):
                sides = [n.test.left, n.test.comparators[0]]
                ks = [s.value for s in sides if isinstance(s, ast.Constant) and isinstance(s.value, str)]
                if len(ks) != 1:
                    continue
                for s in n.body:
                    for c in ast.walk(s):
                        if isinstance(c, ast.Call):
                            ci = cls_of(f, c)
                            if ci is not None and ks[0] not in out:
                                out[ks[0]] = (ci, f, c)
            if isinstance(n, ast.Dict) and n.keys and all(isinstance(k, ast.Constant) and isinstance(k.value, str) for k in n.keys):
                for k, v in zip(n.keys, n.values):
                    ci = cls_of(f, v)
                    if ci is not None and k.value not in out:
                        out[k.value] = (ci, f, v)
    # module-level dispatch tables
    mods = {f.module for f in funcs}

    def entry_class(m, val, depth=0):
        e = val.func if isinstance(val, ast.Call) else val
        if isinstance(e, ast.Attribute) and e.attr == "from_properties":
            e = e.value
        ci = prog.resolve_class(m, e) if isinstance(e, (ast.Name, ast.Attribute)) else None
        if ci is None and isinstance(e, (ast.Name, ast.Attribute)) and depth < 2:
            # a module helper that builds the object:  def _make_x(props, i): return Cls.from_properties(props, i, 'X')
            r = prog.resolve_expr(m, e)
            if r and r[0] == "func":
                found = {entry_class(r[1].module, c) for x in walk_body(r[1].node) if isinstance(x, ast.Return) and x.value is not None
                         for c in [x.value] if isinstance(c, ast.Call)}
                found.discard(None)
                if len(found) == 1:
                    ci = found.pop()
        return ci
    for m in mods:
        for name, v in m.assigns.items():
            if isinstance(v, (ast.Tuple, ast.List)) and v.elts and all(
                    isinstance(el, (ast.Tuple, ast.List)) and len(el.elts) >= 2 and isinstance(el.elts[0], ast.Constant) and isinstance(el.elts[0].value, str)
                    for el in v.elts):
                # ('Name', Cls.from_properties) pairs searched in order
                for el in v.elts:
                    ci = entry_class(m, el.elts[1])
                    if ci is not None and el.elts[0].value not in out:
                        out[el.elts[0].value] = (ci, None, el.elts[1])
            if isinstance(v, ast.Dict) and v.keys and all(isinstance(k, ast.Constant) and isinstance(k.value, str) for k in v.keys):
                for k, val in zip(v.keys, v.values):
                    ci = entry_class(m, val)
                    if ci is not None and k.value not in out:
                        out[k.value] = (ci, None, val)
    return out


def guards_say(guards, atom):
    """True if the guards of a path hold when every atomic condition satisfying `atom` is true and at least one guard is
    decided that way (e.g. atom = 'compares with types.String': is this the string path?)."""
    from .sym import eval_cond

    def orc(c):
        if isinstance(c, tuple) and c and c[0] == "cmp" and c[1] in ("==", "is") and atom(c):
            return True
        if isinstance(c, tuple) and c and c[0] == "call" and atom(c):
            return True
        return None
    vals = [eval_cond(g, orc) for g in guards]
    return any(v is True for v in vals) and not any(v is False for v in vals)


def enumerate_list(v, oracle):
    """Concrete list of canonical elements of a list-valued canonical form under an oracle for its conditions, or None when
    some condition is not decided / the form is not understood.  Handles literals, splices, conditionals and comprehensions
    over enumerable iterables."""
    from .sym import eval_cond
    if not isinstance(v, tuple) or not v:
        return None
    if v[0] in ("list", "tuple"):
        out = []
        for item in v[1]:
            if isinstance(item, tuple) and item and item[0] == "splice":
                sub = enumerate_list(item[1], oracle)
                if sub is None:
                    return None
                out.extend(sub)
            else:
                out.append(item)
        return out
    if v[0] == "phi":
        r = eval_cond(v[1], oracle)
        if r is None:
            return None
        return enumerate_list(v[2] if r else v[3], oracle)
    if v[0] == "comp":
        _t, elt, bv, it, conds = v
        base = enumerate_list(it, oracle)
        if base is None:
            return None
        out = []
        for x in base:
            keep = True
            for c in conds:
                r = eval_cond(subst(c, bv, x), oracle)
                if r is None:
                    return None
                if r is False:
                    keep = False
            if keep:
                out.append(subst(elt, bv, x))
        return out
    if v[0] == "call" and v[1] in ("list", "tuple") and len(v[2]) == 1:
        return enumerate_list(v[2][0], oracle)
    return None


def optional_string_oracle(assign):
    """oracle for scenarios of optional string values: assign maps canonical atoms to None, '' or 'x' (any non-empty string)"""
    def oracle(c):
        if isinstance(c, tuple) and c:
            if c[0] == "cmp" and c[1] in ("is", "==") and c[3] == ("const", None) and c[2] in assign:
                return assign[c[2]] is None
            if c[0] == "cmp" and c[1] == "==" and c[3] == ("const", "") and c[2] in assign:
                return assign[c[2]] == ""
            if c in assign:
                return bool(assign[c])
            if c[0] == "len" and c[1] in assign and assign[c[1]] is not None:
                return len(assign[c[1]]) > 0
        return None
    return oracle


def subscript_stores(prog, fi, self_cls=None):
    """[(stmt, base, key, value, guards)] for every  base[key] = value  of fi, in canonical form; guards are the conditions of the
    enclosing ifs, of earlier ifs that leave the function/loop, and ('except', type) inside an exception handler."""
    sy = Sym(prog, fi, self_cls or fi.cls)
    out = []
    for st in walk_body(fi.node):
        if isinstance(st, ast.Assign):
            for t in st.targets:
                if isinstance(t, ast.Subscript) and not isinstance(t.slice, ast.Slice):
                    env, guards = sy.env_at(st)
                    base = sy.expr(t.value, env)
                    if base[0] == "filled":
                        base = base[1]
                    out.append((st, base, sy.expr(t.slice, env), sy.expr(st.value, env), guards))
    return out


def method_calls_on(prog, fi, names, self_cls=None):
    """[(call, receiver canonical, args canonical, guards)] for calls  recv.<name>(...)  with name in names"""
    sy = Sym(prog, fi, self_cls or fi.cls)
    out = []
    for c in walk_body(fi.node):
        if isinstance(c, ast.Call) and isinstance(c.func, ast.Attribute) and c.func.attr in names:
            env, guards = sy.env_at(c)
            recv = sy.expr(c.func.value, env)
            if recv[0] == "filled":
                recv = recv[1]
            out.append((c, recv, tuple(sy.expr(a, env) for a in c.args), guards))
    return out


def norm_items(v):
    """x[<int constant>] and unpacked item i of x are the same thing: ('item', x, i)"""
    if isinstance(v, tuple):
        if len(v) == 3 and v[0] == "sub" and isinstance(v[2], tuple) and len(v[2]) == 2 and v[2][0] == "const" \
                and isinstance(v[2][1], int) and not isinstance(v[2][1], bool):
            return ("item", norm_items(v[1]), v[2][1])
        return tuple(norm_items(y) for y in v)
    return v


def peval(prog, fi, v, depth=0):
    """Partial evaluation of a canonical value: comparisons of constants, lookups in literal or class-level tables with a constant
    key, items of literal tuples, concatenation of constant strings, conditionals with a constant test.  Class-level attributes reached
    through cls / self are replaced by the normal form of their defining expression."""
    if not isinstance(v, tuple) or not v or depth > 40:
        return v
    v = tuple(peval(prog, fi, y, depth + 1) for y in v)
    tag = v[0]
    if tag == "cmp" and len(v) == 4 and isinstance(v[2], tuple) and isinstance(v[3], tuple) and v[2] and v[3] and v[2][0] == "const" and v[3][0] == "const":
        a, b = v[2][1], v[3][1]
        try:
            r = {"==": a == b, "!=": a != b, "is": a is b or a == b, "is not": not (a is b or a == b)}.get(v[1])
        except Exception:
            r = None
        if r is not None:
            return ("const", bool(r))
    if fi is not None and fi.cls is not None:
        name = None
        if tag == "attr" and len(v) == 3 and v[1] in (("param", "cls"), ("name", "cls"), ("param", "self"), ("name", "self")):
            name = v[2]
        elif tag == "self" and len(v) == 2:
            name = v[1]
        if name is not None:
            for k in prog.mro(fi.cls):
                if name in k.attrs:
                    f0 = next(iter(k.methods.values()), None)
                    if f0 is not None:
                        return peval(prog, f0, Sym(prog, f0, k, inline=False).expr(k.attrs[name], {}), depth + 1)
    if tag in ("sub", "item") and len(v) == 3 and isinstance(v[1], tuple) and v[1]:
        idx = v[2]
        key = idx if isinstance(idx, tuple) else ("const", idx)
        if v[1][0] == "dict":
            for kk, val in v[1][1]:
                if kk == key:
                    return val
        if v[1][0] in ("tuple", "list") and key[0] == "const" and isinstance(key[1], int) and not isinstance(key[1], bool) and -len(v[1][1]) <= key[1] < len(v[1][1]):
            return v[1][1][key[1]]
        if v[1][0] == "const" and isinstance(v[1][1], (tuple, list, dict, str, bytes)) and key[0] == "const":
            try:
                r = v[1][1][key[1]]
                return ("const", r)
            except Exception:
                pass
    if tag == "binop" and v[1] == "+" and len(v[2]) == 2 and all(isinstance(t, tuple) and t and t[0] == "const" and isinstance(t[1], str) for t in v[2]):
        return ("const", v[2][0][1] + v[2][1][1])
    if tag == "phi" and isinstance(v[1], tuple) and v[1] and v[1][0] == "const":
        return v[2] if v[1][1] else v[3]
    return v
