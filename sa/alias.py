"""Alias / freshness analysis per function (forward, flow-sensitive, may-alias join).

Kinds:  FRESH (allocated in this activation) < UNKNOWN < ALIAS (may share storage
with a protected input).  A mutation through an ALIAS name is a violation, through
UNKNOWN it is undecided.
"""
import ast

from .core import call_name, dotted, walk_shallow, unparse

FRESH, UNKNOWN, ALIAS = 0, 1, 2
KIND_NAMES = {FRESH: "fresh", UNKNOWN: "unknown", ALIAS: "alias of input"}

VIEW_METHODS = {"view", "reshape", "ravel", "squeeze", "swapaxes", "transpose", "newbyteorder", "byteswap_view"}
VIEW_ATTRS = {"T", "real", "imag", "flat"}
COPY_METHODS = {"copy", "flatten", "tolist", "tobytes", "byteswap", "round", "clip", "cumsum", "sum", "mean", "max", "min"}
MUTATING_METHODS = {"sort", "fill", "put", "resize", "itemset", "partition", "setfield", "setflags", "append", "extend",
                    "update", "pop", "insert", "remove", "clear", "byteswap_inplace"}
NP_ALIAS_FUNCS = {"asarray", "asanyarray", "ascontiguousarray", "atleast_1d", "ravel", "reshape", "squeeze", "transpose",
                  "nan_to_num_inplace"}
NP_MUTATORS = {"copyto": 0, "put": 0, "putmask": 0, "place": 0, "fill_diagonal": 0}


class Mutation:
    def __init__(self, node, target_name, kind, how):
        self.node, self.name, self.kind, self.how = node, target_name, kind, how


class AliasWalker:
    """Analyse one function.  `protected` maps parameter names to ALIAS; everything
    else starts UNKNOWN (parameters) or is defined by assignments."""

    def __init__(self, prog, fi, protected, fresh_calls=(), elem_alias=False, extra_mutating_methods=(),
                 attr_store_slots=None, summaries=None, self_cls=None):
        self.prog = prog
        self.fi = fi
        self.self_cls = self_cls or fi.cls
        self.fresh_calls = set(fresh_calls)          # call names that return fresh objects
        self.elem_alias = elem_alias                 # element of an alias container is an alias
        self.mutating_methods = MUTATING_METHODS | set(extra_mutating_methods)
        self.attr_store_slots = attr_store_slots     # None: any attribute store on a name is a mutation of that object
        self.summaries = summaries                   # Summaries object for interprocedural facts (or None)
        self.mutations = []
        self.returns = []                            # kinds of returned values
        env = {}
        for p in fi.params:
            env[p] = ALIAS if p in protected else UNKNOWN
        if "self" in env:
            env["self"] = UNKNOWN
        self.entry_env = env

    # -- public --------------------------------------------------------------
    def run(self):
        self.block(self.fi.node.body, dict(self.entry_env))
        return self

    # -- kinds -----------------------------------------------------------------
    def kind(self, e, env):
        if e is None:
            return FRESH
        if isinstance(e, ast.Name):
            return env.get(e.id, UNKNOWN)
        if isinstance(e, ast.Constant):
            return FRESH
        if isinstance(e, (ast.BinOp, ast.UnaryOp, ast.Compare, ast.BoolOp, ast.JoinedStr, ast.List, ast.Tuple, ast.Dict,
                          ast.Set, ast.ListComp, ast.DictComp, ast.SetComp, ast.GeneratorExp, ast.Lambda)):
            if isinstance(e, ast.BoolOp):
                return max(self.kind(v, env) for v in e.values)
            return FRESH
        if isinstance(e, ast.IfExp):
            return max(self.kind(e.body, env), self.kind(e.orelse, env))
        if isinstance(e, ast.Attribute):
            if e.attr in VIEW_ATTRS or e.attr in ("data", "scaler_data"):
                return self.kind(e.value, env)
            base = self.kind(e.value, env)
            return base if (self.elem_alias and base == ALIAS) else (UNKNOWN if base != FRESH else UNKNOWN)
        if isinstance(e, ast.Subscript):
            base = self.kind(e.value, env)
            sl = e.slice
            is_slice = isinstance(sl, ast.Slice) or (isinstance(sl, ast.Tuple) and any(isinstance(x, (ast.Slice,)) or
                                                                                   (isinstance(x, ast.Constant) and x.value is Ellipsis) for x in sl.elts))
            if is_slice or self.elem_alias:
                return base
            return FRESH if base != UNKNOWN else UNKNOWN
        if isinstance(e, ast.Call):
            return self.call_kind(e, env)
        if isinstance(e, ast.Starred):
            return self.kind(e.value, env)
        return UNKNOWN

    def call_kind(self, c, env):
        cn = call_name(c) or ""
        leaf = cn.split(".")[-1]
        kw = {k.arg: k.value for k in c.keywords if k.arg}
        if cn in self.fresh_calls or leaf in self.fresh_calls:
            return FRESH
        if cn in ("copy", "copy.copy", "copy.deepcopy", "deepcopy", "np.copy", "numpy.copy", "list", "dict", "tuple", "sorted"):
            return FRESH
        if isinstance(c.func, ast.Attribute):
            recv = c.func.value
            m = c.func.attr
            if m == "astype":
                cp = kw.get("copy")
                if cp is None and len(c.args) >= 5:
                    cp = c.args[4]
                if cp is not None and isinstance(cp, ast.Constant) and cp.value is False:
                    return self.kind(recv, env)
                if cp is not None and not isinstance(cp, ast.Constant):
                    return max(UNKNOWN, self.kind(recv, env))
                return FRESH
            if m in VIEW_METHODS:
                return self.kind(recv, env)
            if m in COPY_METHODS:
                return FRESH
            rd = dotted(recv)
            if rd in ("np", "numpy") or (rd or "").startswith("np.") or (rd or "").startswith("poly"):
                if "out" in kw:
                    return self.kind(kw["out"], env)
                if m in NP_ALIAS_FUNCS and c.args:
                    return self.kind(c.args[0], env)
                if m == "array":
                    cp = kw.get("copy")
                    if cp is not None and isinstance(cp, ast.Constant) and cp.value is False and c.args:
                        return self.kind(c.args[0], env)
                    return FRESH
                if m == "piecewise":
                    return FRESH
                return FRESH
        # package callee summaries
        if self.summaries is not None:
            k = self.summaries.call_result_kind(self, c, env)
            if k is not None:
                return k
        return UNKNOWN

    # -- statements ---------------------------------------------------------------
    def join(self, a, b):
        out = dict(a)
        for k, v in b.items():
            out[k] = max(out.get(k, v), v)
        return out

    def block(self, stmts, env):
        for s in stmts:
            env = self.stmt(s, env)
        return env

    def stmt(self, s, env):
        if isinstance(s, ast.If):
            self.scan_expr(s.test, env)
            a = self.block(s.body, dict(env))
            b = self.block(s.orelse, dict(env))
            ta, tb = self._terminates(s.body), self._terminates(s.orelse)
            if ta and not tb:
                return b
            if tb and not ta:
                return a
            return self.join(a, b)
        if isinstance(s, (ast.For, ast.AsyncFor)):
            self.scan_expr(s.iter, env)
            it_kind = self.kind(s.iter, env)
            for _ in range(3):
                e2 = dict(env)
                for n in ast.walk(s.target):
                    if isinstance(n, ast.Name):
                        e2[n.id] = it_kind if (self.elem_alias or it_kind == UNKNOWN) else FRESH
                out = self.block(s.body, e2)
                new = self.join(env, out)
                if new == env:
                    break
                env = new
            return self.block(s.orelse, env) if s.orelse else env
        if isinstance(s, ast.While):
            for _ in range(3):
                self.scan_expr(s.test, env)
                out = self.block(s.body, dict(env))
                new = self.join(env, out)
                if new == env:
                    break
                env = new
            return env
        if isinstance(s, (ast.With, ast.AsyncWith)):
            for it in s.items:
                self.scan_expr(it.context_expr, env)
                if it.optional_vars is not None and isinstance(it.optional_vars, ast.Name):
                    env[it.optional_vars.id] = UNKNOWN
            return self.block(s.body, env)
        if isinstance(s, ast.Try):
            out = self.block(s.body, dict(env))
            res = out
            for h in s.handlers:
                res = self.join(res, self.block(h.body, self.join(env, out)))
            if s.orelse:
                res = self.join(res, self.block(s.orelse, dict(out)))
            if s.finalbody:
                res = self.block(s.finalbody, res)
            return res
        if isinstance(s, ast.Return):
            if s.value is not None:
                self.scan_expr(s.value, env)
                self.returns.append((s, self.kind(s.value, env), self._alias_params(s.value, env)))
            return env
        if isinstance(s, ast.Assign):
            self.scan_expr(s.value, env)
            k = self.kind(s.value, env)
            src = self._alias_params(s.value, env)
            for t in s.targets:
                self.assign_target(t, s, k, env, src)
            return env
        if isinstance(s, ast.AugAssign):
            self.scan_expr(s.value, env)
            t = s.target
            if isinstance(t, ast.Name):
                # in-place for arrays (+=, *=, ...): mutation of the object bound to the name
                self.record(s, t.id, env.get(t.id, UNKNOWN), "augmented assignment `%s`" % unparse(s).split("\n")[0])
            elif isinstance(t, (ast.Subscript, ast.Attribute)):
                base = t.value
                self.record_expr(s, base, env, "augmented assignment `%s`" % unparse(s).split("\n")[0])
            return env
        if isinstance(s, (ast.Expr,)):
            self.scan_expr(s.value, env)
            return env
        if isinstance(s, (ast.Delete, ast.Assert, ast.Raise, ast.Pass, ast.Break, ast.Continue, ast.Import, ast.ImportFrom,
                          ast.Global, ast.FunctionDef, ast.ClassDef)):
            for child in ast.iter_child_nodes(s):
                if isinstance(child, ast.expr):
                    self.scan_expr(child, env)
            return env
        return env

    def _terminates(self, stmts):
        return bool(stmts) and isinstance(stmts[-1], (ast.Return, ast.Raise, ast.Continue, ast.Break))

    def _alias_params(self, e, env):
        return None

    def assign_target(self, t, s, k, env, src=None):
        if isinstance(t, ast.Name):
            env[t.id] = k
        elif isinstance(t, (ast.Tuple, ast.List)):
            for e in t.elts:
                self.assign_target(e, s, UNKNOWN if k != FRESH else FRESH, env)
        elif isinstance(t, ast.Subscript):
            self.record_expr(s, t.value, env, "item store `%s`" % unparse(s).split("\n")[0])
        elif isinstance(t, ast.Attribute):
            if self.attr_store_slots is None or t.attr in self.attr_store_slots:
                if not (isinstance(t.value, ast.Name) and t.value.id == "self"):
                    self.record_expr(s, t.value, env, "attribute store `%s`" % unparse(s).split("\n")[0])

    def record_expr(self, node, base, env, how):
        if isinstance(base, ast.Name):
            self.record(node, base.id, env.get(base.id, UNKNOWN), how)
        else:
            d = dotted(base) or unparse(base)
            self.record(node, d, self.kind(base, env), how)

    def record(self, node, name, kind, how):
        self.mutations.append(Mutation(node, name, kind, how))

    def scan_expr(self, e, env):
        """find mutations performed by calls inside an expression"""
        if e is None:
            return
        for n in walk_shallow(e):
            if not isinstance(n, ast.Call):
                continue
            kw = {k.arg: k.value for k in n.keywords if k.arg}
            if "out" in kw and not (isinstance(kw["out"], ast.Constant) and kw["out"].value is None):
                self.record_expr(n, kw["out"], env, "out= argument of `%s`" % unparse(n)[:80])
            if isinstance(n.func, ast.Attribute):
                m = n.func.attr
                rd = dotted(n.func.value)
                if m in self.mutating_methods and rd not in ("np", "numpy"):
                    self.record_expr(n, n.func.value, env, "mutating method call `%s`" % unparse(n)[:80])
                if rd in ("np", "numpy") and m in NP_MUTATORS and n.args:
                    self.record_expr(n, n.args[NP_MUTATORS[m]], env, "`%s`" % unparse(n)[:80])
                if m == "at" and n.args:   # ufunc.at(a, idx, ...)
                    self.record_expr(n, n.args[0], env, "`%s`" % unparse(n)[:80])
            if self.summaries is not None:
                self.summaries.call_mutations(self, n, env)


class Summaries:
    """Interprocedural facts for package callees: does the callee modify parameter p in place,
    may its return value alias parameter p."""

    def __init__(self, prog, walker_kwargs=None, modules=None):
        self.prog = prog
        self.cache = {}
        self.active = set()
        self.kw = walker_kwargs or {}
        self.modules = modules

    def _resolve(self, walker, c):
        from .flow import resolve_call
        return resolve_call(self.prog, walker.fi, walker.self_cls, c)

    def _bind(self, callee, c):
        params = list(callee.params)
        if callee.cls is not None and not callee.is_static and params and params[0] in ("self", "cls"):
            params = params[1:]
        out = []
        for i, a in enumerate(c.args):
            if isinstance(a, ast.Starred):
                break
            if i < len(params):
                out.append((params[i], a))
        for k in c.keywords:
            if k.arg:
                out.append((k.arg, k.value))
        return out

    def summary(self, callee, param, self_cls=None):
        key = (callee.qual, param)
        if key in self.cache:
            return self.cache[key]
        if key in self.active:
            return (False, False, None)
        self.active.add(key)
        try:
            w = AliasWalker(self.prog, callee, {param}, summaries=self, self_cls=self_cls, **self.kw).run()
            mut = [m for m in w.mutations if m.kind == ALIAS]
            ret = any(k == ALIAS for (_, k, _) in w.returns)
            res = (bool(mut), ret, mut[0] if mut else None)
        finally:
            self.active.discard(key)
        self.cache[key] = res
        return res

    def _targets(self, walker, c):
        t = self._resolve(walker, c)
        if self.modules is not None:
            t = [(f, k) for (f, k) in t if f.module.name in self.modules]
        return t

    def call_result_kind(self, walker, c, env):
        targets = self._targets(walker, c)
        if not targets:
            return None
        res = FRESH
        for callee, cls in targets:
            if callee.name == "__init__":
                continue
            for p, a in self._bind(callee, c):
                k = walker.kind(a, env)
                if k == FRESH:
                    continue
                _, ret, _ = self.summary(callee, p, cls)
                if ret:
                    res = max(res, k)
        return res

    def call_mutations(self, walker, c, env):
        targets = self._targets(walker, c)
        for callee, cls in targets:
            for p, a in self._bind(callee, c):
                k = walker.kind(a, env)
                if k == FRESH:
                    continue
                mut, _, m = self.summary(callee, p, cls)
                if mut:
                    walker.record_expr(c, a, env, "passed to %s, which modifies its argument in place (%s)" % (callee.qual, m.how))
