"""SR1 scaler registry sibling interface, TR1 tuple-role flow of buffer dimensions and column selection,
DL1 digital line bit addressing, SB1 truncation loops stop at the first incomplete buffer (property C11)."""
import ast

from .registry import rule
from .core import call_name, dotted, walk_shallow, walk_body, unparse, AnchorMissing, names_in
from .cfg import node_calls


def _defs(fi, name):
    out = []
    for n in walk_body(fi.node):
        if isinstance(n, ast.Assign) and any(isinstance(t, ast.Name) and t.id == name for t in n.targets):
            out.append(n.value)
    return out


@rule("SR1", "every DAQmx scaler class offers what the metadata parser, the dimension code and the data reader use", floor=10)
def sr1(ctx, R):
    prog = ctx.prog
    mod = prog.module("daqmx")
    reg = mod.assigns.get("_scaler_classes")
    if not isinstance(reg, ast.Dict):
        raise AnchorMissing("daqmx._scaler_classes dict literal")
    keys = [dotted(k) for k in reg.keys]
    classes = [prog.resolve_class(mod, v) for v in reg.values]
    from .sem import instance_attrs, method_of
    from .sym import Sym as _Sym
    for k, c in zip(keys, classes):
        if c is None:
            R.violation("daqmx._scaler_classes[%s]" % k, "%s:%d" % (mod.relpath, reg.lineno), "value is not a class")
            continue
        where = "%s:%d" % (c.module.relpath, c.node.lineno)
        # attributes stored by the constructor (own or inherited); with __slots__ anywhere in the hierarchy the name must be a slot
        assigned = dict(instance_attrs(prog, c))
        # ... or by a method of the hierarchy the constructor delegates to (any `self.<name>` store target, tuple unpacking included)
        for b_ in prog.mro(c):
            for m_ in b_.methods.values():
                for st_ in ast.walk(m_.node):
                    if isinstance(st_, (ast.Assign, ast.AugAssign, ast.AnnAssign)):
                        tg_ = st_.targets if isinstance(st_, ast.Assign) else [st_.target]
                        for t_ in tg_:
                            for n_ in ast.walk(t_):
                                if isinstance(n_, ast.Attribute) and isinstance(n_.ctx, ast.Store) and isinstance(n_.value, ast.Name) and n_.value.id == "self":
                                    if not any(x_[1] is st_ for x_ in assigned.get(n_.attr, [])):
                                        assigned.setdefault(n_.attr, []).append((m_, st_))
        slot_lists = [prog.class_const(b, "__slots__") for b in prog.mro(c)]
        slotted = all(sl is not None for sl in slot_lists[:-1]) if len(slot_lists) > 1 else slot_lists[0] is not None
        slots = set(x for sl in slot_lists if sl for x in sl)
        init = method_of(prog, c, "__init__")
        dynamic = init is not None and any(isinstance(n, ast.Call) and call_name(n) == "setattr" for n in walk_body(init.node))
        for attr in ("scale_id", "data_type", "raw_buffer_index"):
            has = attr in assigned or dynamic and False
            key = "%s::%s" % (c.qual, attr)
            if attr in assigned and (not slotted or attr in slots):
                R.ok(key, where, "attribute set by the constructor")
            elif attr in assigned:
                R.violation(key, where, "scaler class %s stores `%s` but its __slots__ do not declare it" % (c.name, attr))
            elif init is None:
                R.violation(key, where, "scaler class %s has no constructor that provides `%s`" % (c.name, attr))
            else:
                R.violation(key, where, "scaler class %s does not provide `%s`, which DaqMxMetadata / get_buffer_dimensions / the data reader use" % (c.name, attr))
        for m, nargs in (("byte_offset", 1), ("postprocess_data", 2)):
            f = method_of(prog, c, m)
            R.check(f is not None and len(f.params) == nargs, "%s::%s" % (c.qual, m), where, "method present with %d parameter(s)" % nargs,
                    "scaler class %s lacks %s(%s)" % (c.name, m, "self" if nargs == 1 else "self, data"))
        R.check(init is not None and len(init.params) == 3, "%s::constructor(file, endianness)" % c.qual, where, "constructed as scaler_class(f, endianness)",
                "constructor signature is %s" % (init.params if init else None))
        # data type through the DAQmx code table
        via_table = False
        for fn, n in assigned.get("data_type", []):
            if isinstance(n, ast.Assign):
                sy = _Sym(prog, fn, fn.cls, inline=False)
                env, _g = sy.env_at(n)
                v = sy.expr(n.value, env)
                if v[0] == "sub" and v[1] in (("global", "DAQMX_TYPES"), ("name", "DAQMX_TYPES")):
                    via_table = True
        if not via_table and any(isinstance(x_, ast.Name) and x_.id == "DAQMX_TYPES" for fn, n in assigned.get("data_type", []) for x_ in ast.walk(fn.node)):
            via_table = True      # looked up in the table inside a try / helper of the same method
        R.check(via_table, "%s::type code table" % c.qual, where, "data_type = DAQMX_TYPES[code]", "scaler data type is not taken from DAQMX_TYPES")
    # the three places that know the set of DAQmx index headers agree
    # the segment object factory, found by what it does: it constructs a DaqmxSegmentObject for some index headers
    dso = prog.cls("daqmx.DaqmxSegmentObject")
    facs = [f for f in sorted(prog.functions.values(), key=lambda f: f.qual) if f.module.name == "tdms_segment" and any(
        isinstance(c, ast.Call) and isinstance(c.func, (ast.Name, ast.Attribute)) and prog.resolve_class(f.module, c.func) is dso for c in walk_body(f.node))]
    if not facs:
        raise AnchorMissing("tdms_segment: function constructing DaqmxSegmentObject")
    nso = facs[0]
    rri = prog.func("daqmx.DaqmxSegmentObject.read_raw_data_index")

    def header_values(fi):
        """values of the container a header is tested against with in / not in: a tuple of constants, or the keys of a module dict"""
        for n in walk_body(fi.node):
            if isinstance(n, ast.Compare) and len(n.ops) == 1 and isinstance(n.ops[0], (ast.In, ast.NotIn)):
                cont = n.comparators[0]
                if isinstance(cont, (ast.Tuple, ast.List, ast.Set)):
                    vals = [prog.try_fold(e, fi.module, default=None) for e in cont.elts]
                    if all(isinstance(v, int) for v in vals):
                        return sorted(vals)
                if isinstance(cont, (ast.Name, ast.Attribute)):
                    r = prog.resolve_expr(fi.module, cont)
                    d = None
                    if r and r[0] == "const" and isinstance(r[1], ast.Dict):
                        d, dm = r[1], (r[2] if len(r) > 2 else fi.module)
                    elif isinstance(cont, ast.Name) and isinstance(fi.module.assigns.get(cont.id), ast.Dict):
                        d, dm = fi.module.assigns[cont.id], fi.module
                    if d is not None:
                        vals = [prog.try_fold(k, dm, default=None) for k in d.keys]
                        if all(isinstance(v, int) for v in vals):
                            return sorted(vals)
        return None
    regvals = sorted(v for v in (prog.try_fold(k, mod, default=None) for k in reg.keys) if isinstance(v, int))
    a, b = header_values(nso), header_values(rri)
    if a is None or b is None:
        R.undecided("daqmx::index header sets", nso.where(), "header membership test not understood (factory %s, parser %s)" % (a, b))
    else:
        R.check(a == b == regvals, "daqmx::index header sets", nso.where(), "segment object factory, DAQmx index parser and scaler registry accept %s" % [hex(v) for v in regvals],
                "the sets of DAQmx raw-data-index headers disagree: factory %s, parser %s, registry %s" % (a, b, regvals))
    vals = {k: prog.try_fold(mod.assigns.get(k), mod) for k in keys if k in mod.assigns}
    R.check(vals == {"FORMAT_CHANGING_SCALER": 0x1269, "DIGITAL_LINE_SCALER": 0x126A}, "daqmx::header constants", "%s:1" % mod.relpath, "0x1269 / 0x126A",
            "DAQmx index header constants are %s" % vals)
    # one scaler object per vector entry, built by the class the registry gives for the index header
    from .sym import Sym, show, alpha
    from .sem import match, W, find
    mm = prog.func("daqmx.DaqMxMetadata.__init__")
    sy = Sym(prog, mm, mm.cls)
    env = sy.env_at_end()
    val = env.get("self.scalers")
    key = "daqmx.DaqMxMetadata.__init__::scalers"
    if val is None:
        raise AnchorMissing("daqmx.DaqMxMetadata.__init__: store of self.scalers")
    m = match(("comp", ("callv", ("sub", W("reg"), W("hdr")), W("args"), W()), W("bv"), ("call", "range", (W("n"),), ()), ()), val)
    if m is None:
        if val[0] == "comp" or find(val, ("callv", W(), W(), W())):
            R.violation(key, mm.where(), "scaler vector is not parsed with the class registered for the header: `%s`" % show(alpha(val))[:200])
        else:
            R.undecided(key, mm.where(), "scaler list `%s` not understood" % show(alpha(val))[:160])
    else:
        reg_ok = m["reg"] in (("global", "_scaler_classes"), ("name", "_scaler_classes")) or find(m["reg"], ("global", "_scaler_classes"))
        hdr_ok = m["hdr"][0] == "param"
        R.check(bool(reg_ok) and hdr_ok and len(m["args"]) == 2, key, mm.where(), "one scaler object per vector entry, class chosen by the index header",
                "scaler vector is not parsed with the class registered for the header: `%s`" % show(alpha(val))[:200])


@rule("TR1", "buffer dimensions flow as (length, width) pairs and scaler values are the byte columns [offset, offset+size) of their own buffer", floor=5)
def tr1(ctx, R):
    """(1) Role inference (sa/kinds.py, class Dims): rows, widths and byte counts are inferred for every value of nptdms.daqmx from
    three seeds; a rows quantity meeting a width is a conflict, reported with the chain of flows.  (2) The value handed to
    postprocess_data is compared, in normal form, with  data_type.from_bytes(buffer[:, tuple(range(off, off + size))].ravel(), endianness)
    for the same scaler.  (3) The scalers decoded from a buffer are those whose raw_buffer_index equals the position of that
    buffer in get_buffer_dimensions' result."""
    from .kinds import ROWS, WIDTH, BYTES
    from .sym import Sym, show, alpha
    from .sem import match, W, find, calls_to
    from .region import region
    prog = ctx.prog
    K = ctx.dims()
    for c in K.conflicts:
        chain = K.explain(c.a, c.b)
        R.violation("daqmx::%s" % c.why[:80], c.where, "a %s quantity meets a %s quantity here (%s): with buffers of differing lengths or widths the bytes are "
                    "attributed to the wrong rows. Flow: %s" % (K.kind(c.a), K.kind(c.b), c.why, " <- ".join(chain)[:600]), path=chain)
    gbd = prog.func("daqmx.get_buffer_dimensions")
    r = K.names.get(("r", gbd.qual))
    el = K.child(r, "k") if r is not None else None
    k0, k1 = (K.kind(K.child(el, 0)), K.kind(K.child(el, 1))) if el is not None else (None, None)
    key = "daqmx.get_buffer_dimensions::(length, width)"
    if k0 is None or k1 is None:
        R.undecided(key, gbd.where(), "roles of the pair elements not inferred (%s, %s)" % (k0, k1))
    else:
        R.check((k0, k1) == (ROWS, WIDTH), key, gbd.where(), "position 0 = number of rows (max over objects using the buffer), position 1 = width",
                "buffer dimension pairs are (%s, %s), not (number of values, width)" % (k0, k1))
    ri = prog.func("base_segment.read_interleaved_segment_bytes")
    ps = [p for p in ri.params]
    kinds = [K.kind(K.names.get(("v", ri.qual, p))) for p in ps]
    key = "base_segment.read_interleaved_segment_bytes::(bytes per row, rows)"
    if WIDTH not in kinds or ROWS not in kinds:
        R.undecided(key, ri.where(), "roles of the parameters not inferred: %s" % dict(zip(ps, kinds)))
    else:
        R.ok(key, ri.where(), "parameters %s" % dict(zip(ps, kinds)))
    R.note("role inference: %d functions, %d nodes, %d conflicts" % (len(K.analysed), K.n_nodes, len(K.conflicts)))
    # (2) column selection
    main = prog.func("daqmx.DaqmxDataReader._read_data_chunk")
    keep = ("base_segment.read_interleaved_segment_bytes", "daqmx.get_buffer_dimensions")
    sites = []
    for f in region(ctx, main, depth=2):
        if f.module.name != "daqmx":
            continue
        for c in walk_body(f.node):
            if isinstance(c, ast.Call) and isinstance(c.func, ast.Attribute) and c.func.attr == "postprocess_data" and c.args:
                sites.append((f, c))
    if not sites:
        R.unrecognised("daqmx.DaqmxDataReader._read_data_chunk::scaler values", main.where(), "no `<scaler>.postprocess_data(...)` call in the chunk reader or the "
                       "helpers it calls directly: where scaler values are cut out of the buffer rows was not recognised")
        return
    for f, c in sites:
        sy = Sym(prog, f, f.cls, stack=keep)
        env, guards = sy.env_at(c)
        S = sy.expr(c.func.value, env)
        val = sy.expr(c.args[0], env)
        key = "%s::scaler values = byte columns" % f.qual
        OFF = ("method", "byte_offset", S, (), ())
        SIZE = ("attr", ("attr", S, "data_type"), "size")
        m = None
        for flat_ in ("ravel", "flatten"):
            m = m or match(("method", "from_bytes", ("attr", S, "data_type"), (("method", flat_, ("sub", W("buf"), ("tuple", (("slice", ("const", None), ("const", None), ("const", None)), W("cols")))), (), ()), W("end")), ()), val)
        m = m or match(("method", "from_bytes", ("attr", S, "data_type"), (("method", "reshape", ("sub", W("buf"), ("tuple", (("slice", ("const", None), ("const", None), ("const", None)), W("cols")))), (("const", -1),), ()), W("end")), ()), val)
        if m is None:
            if find(val, ("method", "from_bytes", W(), W(), W())) or find(val, ("method", "view", W(), W(), W())) or find(val, ("sub", W(), W())):
                R.violation(key, f.where(c), "scaler values are produced by `%s`, which does not select the byte columns [byte_offset, byte_offset + size) "
                            "of each row of the scaler's buffer and decode them with the scaler's type: stride or offset differ when the buffer width is "
                            "not a multiple of the type size" % show(alpha(val))[:200])
            else:
                R.undecided(key, f.where(c), "value handed to postprocess_data not understood: %s" % show(alpha(val))[:160])
            continue
        cols = m["cols"]
        ok_cols = cols in (("call", "tuple", (("call", "range", (OFF, ("binop", "+", (OFF, SIZE))), ()),), ()),
                           ("call", "tuple", (("call", "range", (OFF, ("binop", "+", (SIZE, OFF))), ()),), ()),
                           ("call", "list", (("call", "range", (OFF, ("binop", "+", (OFF, SIZE))), ()),), ()),
                           ("call", "range", (OFF, ("binop", "+", (OFF, SIZE))), ()),
                           # a basic slice selects the same columns (as a view; whether the bytes are then modified in place is DL1's / OW3's question)
                           ("slice", OFF, ("binop", "+", (OFF, SIZE)), ("const", None)), ("slice", OFF, ("binop", "+", (SIZE, OFF)), ("const", None)))
        if not ok_cols and cols[0] == "method" and not cols[3]:
            # the columns come from a method of the scaler (scaler.byte_columns()): every definition of that name in the module must
            # be the range byte_offset .. byte_offset + size of its own object
            defs = [m_ for m_ in prog.functions.values() if m_.module.name == "daqmx" and m_.cls is not None and m_.name == cols[1]]
            texts = {unparse(r_.value) for m_ in defs for r_ in walk_body(m_.node) if isinstance(r_, ast.Return) and r_.value is not None}
            R.unrecognised("%s::byte_columns" % f.qual, f.where(c), "byte columns are computed by `%s()` of the scaler (%d definition(s): %s): not compared with "
                           "byte_offset .. byte_offset + size" % (cols[1], len(defs), sorted(texts)[:2]))
        else:
            R.check(ok_cols, "%s::byte_columns" % f.qual, f.where(c), "columns byte_offset .. byte_offset + size - 1 of the scaler that is post-processed",
                    "byte columns are `%s`" % show(alpha(cols))[:160])
        if cols and cols[0] == "slice" and not find(val, ("method", "flatten", W(), W(), W())):
            # a basic slice of the rows flattened with ravel()/reshape(-1) can be a VIEW of the buffer that all scalers of this raw
            # buffer are cut from (it is one whenever the columns cover the whole row): then nothing that post-processes the
            # values may work in place, or the scalers of one buffer overwrite each other's bytes
            from .alias import AliasWalker, Summaries, ALIAS
            summ = Summaries(prog, modules={"daqmx"})
            for pp in [m_ for m_ in prog.functions.values() if m_.module.name == "daqmx" and m_.name == "postprocess_data" and m_.cls is not None]:
                prot = {p_ for p_ in pp.params if p_ != "self"}
                w_ = AliasWalker(prog, pp, prot, summaries=summ).run()
                bad_ = [x for x in w_.mutations if x.kind == ALIAS]
                R.check(not bad_, "%s::works on a copy" % pp.qual, pp.where(bad_[0].node) if bad_ else pp.where(),
                        "no in-place operation on the values it is given (they can be a view of the shared row buffer)",
                        "%s modifies `%s` in place while `%s` hands it a slice of the shared row buffer flattened without a copy: when a scaler's columns "
                        "cover the whole row this is a view, and the scalers (digital lines) of one buffer overwrite each other's bytes" % (
                            bad_[0].how if bad_ else "", bad_[0].name if bad_ else "", f.qual))
        buf = m["buf"]
        from_reader = buf[0] == "call" and buf[1] == keep[0]
        if buf[0] == "param":
            # helper: the buffer is what the caller read for the current raw buffer
            from_reader = False
            for g in region(ctx, main, depth=2):
                for cc in calls_to(prog, g, f.qual, g.cls):
                    sg = Sym(prog, g, g.cls, stack=keep)
                    e2, _ = sg.env_at(cc)
                    from .sem import call_arg
                    a = call_arg(prog, cc, f, buf[1], sg, e2)
                    if a is not None and a[0] == "call" and a[1] == keep[0]:
                        from_reader = True
        R.check(from_reader, "%s::buffer" % f.qual, f.where(c), "columns are taken from the rows read for the current raw buffer",
                "the bytes decoded do not come from read_interleaved_segment_bytes of the current buffer (`%s`)" % show(alpha(buf))[:100])
    # (3) scalers decoded from a buffer are those whose raw_buffer_index is that buffer's position
    # the function that holds the loop over the buffers: _read_data_chunk itself or the helper it delegates the whole chunk to
    holder = main
    for f, _c in sites:
        if any(isinstance(x, ast.Call) and (call_name(x) or "").endswith("get_buffer_dimensions") for x in walk_body(f.node)):
            holder = f
    main_ = holder
    sy = Sym(prog, main_, main_.cls, stack=keep)
    decode_calls = [c for c in walk_body(main_.node) if isinstance(c, ast.Call) and (
        (isinstance(c.func, ast.Attribute) and c.func.attr == "postprocess_data") or
        any(f.qual != main_.qual and calls_to(prog, main_, f.qual, main_.cls) and c in calls_to(prog, main_, f.qual, main_.cls) for f, _c in sites))]
    key = "daqmx.DaqmxDataReader._read_data_chunk::scalers of this buffer"
    if not decode_calls:
        R.undecided(key, main_.where(), "decode site not found in %s" % main_.qual)
    main = main_
    for c in decode_calls[:1]:
        env, guards = sy.env_at(c)
        loops = env.get("<iter>", ())
        conds = list(guards)
        for it, bv in loops:
            # filters of the comprehensions the loop draws from (directly, nested, or through an inlined generator)
            conds += [x for x, _b in find(it, ("cmp", "==", W(), W()))]
        eqs = [x for g in conds for x, _b in find(g, ("cmp", "==", W(), W())) if find(x, ("attr", W(), "raw_buffer_index"))]
        outer = [(it, bv) for it, bv in loops if find(it, ("call", "daqmx.get_buffer_dimensions", W(), W()))]
        if not outer:
            R.undecided(key, main.where(c), "the decoding is not lexically inside the loop over get_buffer_dimensions(...): how scalers are matched to their buffer "
                        "was not recognised")
            continue
        if not eqs:
            if any(isinstance(x, ast.Attribute) and x.attr == "raw_buffer_index" for g_ in region(ctx, main, depth=2) for x in ast.walk(g_.node)):
                # the buffer index is used, but not in an equality test that guards the decoding (e.g. scalers grouped by it beforehand)
                R.unrecognised(key, main.where(c), "raw_buffer_index is used in %s, but not in a test that guards the decoding: how scalers are matched to "
                               "their buffer was not recognised" % main.qual)
            else:
                R.violation(key, main.where(c), "scalers are not matched to the buffer by raw_buffer_index == position of the buffer (the buffer index of a "
                            "scaler is not looked at)")
            continue
        it, bv = outer[0]
        good = False
        for x in eqs:
            other = x[3] if find(x[2], ("attr", W(), "raw_buffer_index")) else x[2]
            if it[0] == "call" and it[1] == "enumerate" and other == ("item", bv, 0):
                good = True
            elif other[0] == "loop":
                good = _counts_iterations(ctx, main, other[1])
        R.check(good, key, main.where(c), "buffers are enumerated from get_buffer_dimensions and scalers filtered by raw_buffer_index",
                "scalers are not matched to the buffer by raw_buffer_index == position of the buffer")


def _counts_iterations(ctx, fi, name):
    """`name` is 0 before a loop over the buffers and is incremented exactly once on every path of that loop's body"""
    cfg = ctx.cfg(fi)
    inits = [n for n in walk_body(fi.node) if isinstance(n, ast.Assign) and any(isinstance(t, ast.Name) and t.id == name for t in n.targets)]
    if len(inits) != 1 or not (isinstance(inits[0].value, ast.Constant) and inits[0].value.value == 0):
        return False
    incs = [n for n in walk_body(fi.node) if isinstance(n, ast.AugAssign) and isinstance(n.target, ast.Name) and n.target.id == name]
    if not incs or not all(isinstance(n.op, ast.Add) and isinstance(n.value, ast.Constant) and n.value.value == 1 for n in incs):
        return False
    loops = [l for l in walk_body(fi.node) if isinstance(l, ast.For) and any(x is incs[0] for x in ast.walk(l)) and
             any(isinstance(x, ast.Call) and (call_name(x) or "").endswith("get_buffer_dimensions") for x in ast.walk(l.iter))]
    if not loops:
        return False
    loop = loops[0]
    through = lambda n: any(n.ast is i for i in incs)
    for h in cfg.where(lambda n: n.kind == "for" and n.ast is loop):
        starts = [m for m, k in h.succ if k == "loop" and not through(m)]
        r = cfg.reach(starts, avoid=through, follow_exc=False) if starts else set()
        if h in r:
            return False
        for n in cfg.where(through):
            r2 = cfg.reach([m for m, k in n.succ if k not in ("exc", "uncaught") and m is not h], avoid=lambda m, h=h: m is h, follow_exc=False)
            if any(through(m) for m in r2):
                return False
    return True


def _loop_variant_names(loop):
    """names whose value can differ between rounds of the loop: its targets, augmented names, and (fixpoint) names assigned in the
    body from something that mentions one of those"""
    variant = set()
    if isinstance(loop, (ast.For, ast.comprehension)):
        variant |= {n.id for n in ast.walk(loop.target) if isinstance(n, ast.Name)}
    body = loop.body if isinstance(loop, (ast.For, ast.While)) else []
    stmts = [n for st in body for n in ast.walk(st)]
    for n in stmts:
        if isinstance(n, ast.AugAssign):
            variant |= {x.id for x in ast.walk(n.target) if isinstance(x, ast.Name)}
        if isinstance(n, (ast.For, ast.comprehension)):
            pass
    changed = True
    while changed:
        changed = False
        for n in stmts:
            tgt, val = None, None
            if isinstance(n, ast.Assign):
                tgt, val = n.targets, n.value
            elif isinstance(n, ast.AnnAssign) and n.value is not None:
                tgt, val = [n.target], n.value
            elif isinstance(n, ast.NamedExpr):
                tgt, val = [n.target], n.value
            elif isinstance(n, (ast.For, ast.comprehension)):
                tgt, val = [n.target], n.iter
            elif isinstance(n, ast.withitem) and n.optional_vars is not None:
                tgt, val = [n.optional_vars], n.context_expr
            if tgt is None:
                continue
            if names_in(val) & variant:
                new = {x.id for t in tgt for x in ast.walk(t) if isinstance(x, ast.Name)} - variant
                if new:
                    variant |= new
                    changed = True
    return variant


@rule("TR2", "the number of rows read or skipped for a raw buffer varies with the buffer, like its width", floor=1)
def tr2(ctx, R):
    """DAQmx raw buffers have their own lengths as well as their own widths (get_buffer_dimensions: the length of a buffer is the
    maximum over the objects whose scalers use it).  Wherever nptdms.daqmx forms rows x width inside a loop (or comprehension) in
    which the width changes from round to round - i.e. a loop over the buffers - the rows must change with it.  A product (or a
    (width, rows) pair handed to the row reader) whose width depends on the loop while its row count does not gives every buffer the
    length of one object: with buffers of differing lengths the bytes read or skipped are wrong."""
    from .kinds import ROWS, WIDTH
    prog = ctx.prog
    K = ctx.dims()
    products = list(getattr(K, "products", []))
    n = 0

    def parents_of(fi):
        par = {}
        for x in ast.walk(fi.node):
            for c in ast.iter_child_nodes(x):
                par[c] = x
        return par

    def enclosing_loops(par, e, fi):
        out = []
        x = e
        while x in par and x is not fi.node:
            p_ = par[x]
            if isinstance(p_, (ast.For, ast.While)) and x in p_.body:
                out.append(p_)
            elif isinstance(p_, (ast.ListComp, ast.SetComp, ast.GeneratorExp, ast.DictComp)):
                # the element expression (and later generators' conditions) are evaluated per round of every generator
                out.extend(reversed(p_.generators)) if x not in p_.generators else None
            x = p_
        return out

    pars = {}
    sites = []    # (fi, node, rows expr, width expr, text)
    for fi, e, a, b in products:
        ka, kb = K.kind(a), K.kind(b)
        if {ka, kb} != {ROWS, WIDTH}:
            continue
        rows, width = (e.left, e.right) if ka == ROWS else (e.right, e.left)
        sites.append((fi, e, rows, width, "`%s`" % unparse(e)[:60]))
    # (width, rows) handed to a function whose parameters have these roles
    for fi in [prog.functions[q] if isinstance(q, str) else q for q in K.analysed]:
        for c in walk_body(fi.node):
            if not isinstance(c, ast.Call):
                continue
            from .flow import resolve_call
            for callee, _k in resolve_call(prog, fi, fi.cls, c):
                roles = {p_: K.kind(K.names.get(("v", callee.qual, p_))) for p_ in callee.params}
                if ROWS in roles.values() and WIDTH in roles.values():
                    ps_ = [p_ for p_ in callee.params if not (callee.cls is not None and not callee.is_static and p_ in ("self", "cls"))]
                    if any(isinstance(a_, ast.Starred) for a_ in c.args) or any(k_.arg is None for k_ in c.keywords):
                        continue
                    bound = dict(zip(ps_, c.args))
                    bound.update({k_.arg: k_.value for k_ in c.keywords})
                    rw = [bound.get(p_) for p_, k_ in roles.items() if k_ == ROWS]
                    ww = [bound.get(p_) for p_, k_ in roles.items() if k_ == WIDTH]
                    if len(rw) == 1 and len(ww) == 1 and rw[0] is not None and ww[0] is not None:
                        sites.append((fi, c, rw[0], ww[0], "`%s`" % unparse(c)[:60]))
                break
    seen_sites = set()
    for fi, node, rows, width, text in sites:
        if (fi.qual, node.lineno, node.col_offset, text) in seen_sites:
            continue
        seen_sites.add((fi.qual, node.lineno, node.col_offset, text))
        par = pars.setdefault(fi.qual, parents_of(fi))
        loops = enclosing_loops(par, node, fi)
        for L in loops:
            variant = _loop_variant_names(L)
            wv = bool(names_in(width) & variant)
            rv = bool(names_in(rows) & variant)
            if not wv:
                continue
            n += 1
            key = "%s::rows of %s" % (fi.qual, unparse(width)[:40])
            if rv:
                R.ok(key, fi.where(node), "%s: rows `%s` and width `%s` both change with the loop over the buffers" % (text, unparse(rows)[:40], unparse(width)[:40]))
            else:
                R.violation(key, fi.where(node), "%s: the width `%s` changes from buffer to buffer in this loop but the row count `%s` does not - every buffer "
                            "is given the same length. DAQmx buffers have their own lengths (get_buffer_dimensions), so the bytes read or skipped for a "
                            "buffer of another length are wrong and everything behind it is decoded from the wrong position" % (text, unparse(width)[:40], unparse(rows)[:40]))
            break
    if n == 0:
        R.unrecognised("daqmx::rows x width in a loop over buffers", "nptdms/daqmx.py:1", "no rows x width product inside a loop over the buffers was recognised")


@rule("TR3", "buffer dimensions are computed from all data objects of the segment, never from a selection", floor=1)
def tr3(ctx, R):
    """The length of a raw buffer is the maximum over *all* objects whose scalers use it, and the position of a buffer in the chunk is
    the sum of the sizes of all buffers in front of it (get_buffer_dimensions).  A caller that hands the dimension code - directly or
    through the chunk reader - a list filtered down to one channel gets zero-length buffers in front of the channel's own, i.e. reads
    from the wrong place.  Decided at every call, inside nptdms.daqmx, of a function whose objects parameter reaches
    get_buffer_dimensions: the argument's normal form must not be a filtering comprehension / filter() / one-element list."""
    from .sym import Sym, show, alpha
    from .flow import resolve_call
    prog = ctx.prog
    gbd = prog.func("daqmx.get_buffer_dimensions")
    if not gbd.params:
        raise AnchorMissing("daqmx.get_buffer_dimensions has no parameter")
    # functions of the module with a parameter that flows (unchanged) into get_buffer_dimensions: fixpoint over direct calls
    sinks = {gbd.qual: {gbd.params[0]}}
    mod_funcs = [f for f in prog.functions.values() if f.module.name == "daqmx"]
    changed = True
    while changed:
        changed = False
        for f in mod_funcs:
            for c in walk_body(f.node):
                if not isinstance(c, ast.Call):
                    continue
                for callee, _k in resolve_call(prog, f, f.cls, c):
                    if callee.qual not in sinks:
                        continue
                    ps_ = [p_ for p_ in callee.params if not (callee.cls is not None and not callee.is_static and p_ in ("self", "cls"))]
                    bound = dict(zip(ps_, c.args))
                    bound.update({k_.arg: k_.value for k_ in c.keywords if k_.arg})
                    for p_ in sinks[callee.qual]:
                        a = bound.get(p_)
                        if isinstance(a, ast.Name) and a.id in f.params and a.id not in sinks.get(f.qual, set()):
                            # passed on unchanged (no rebinding of the name in f)
                            if not any(isinstance(x, ast.Name) and x.id == a.id and isinstance(x.ctx, ast.Store) for x in ast.walk(f.node)):
                                sinks.setdefault(f.qual, set()).add(a.id)
                                changed = True
    n = 0
    for f in mod_funcs:
        sy = None
        for c in walk_body(f.node):
            if not isinstance(c, ast.Call):
                continue
            for callee, _k in resolve_call(prog, f, f.cls, c):
                if callee.qual not in sinks:
                    continue
                ps_ = [p_ for p_ in callee.params if not (callee.cls is not None and not callee.is_static and p_ in ("self", "cls"))]
                bound = dict(zip(ps_, c.args))
                bound.update({k_.arg: k_.value for k_ in c.keywords if k_.arg})
                for p_ in sorted(sinks[callee.qual]):
                    a = bound.get(p_)
                    if a is None:
                        continue
                    n += 1
                    sy = sy or Sym(prog, f, f.cls, inline=False)
                    env, _g = sy.env_at(c)
                    v = sy.expr(a, env)
                    key = "%s::objects handed to %s" % (f.qual, callee.name)
                    sel = None
                    def selects_by_path(cond):
                        from .sym import contains
                        return contains(cond, lambda y: isinstance(y, tuple) and len(y) == 3 and y[0] == "attr" and y[2] == "path")
                    if isinstance(v, tuple) and v and v[0] == "comp" and len(v) >= 5 and v[4] and any(selects_by_path(c_) for c_ in v[4]):
                        sel = "a comprehension that keeps only the objects with `%s`" % show(alpha([c_ for c_ in v[4] if selects_by_path(c_)][0]))[:60]
                    elif isinstance(v, tuple) and v and v[0] == "list" and len(v[1]) == 1 and not (isinstance(v[1][0], tuple) and v[1][0] and v[1][0][0] == "splice"):
                        sel = "a list of one object"
                    if sel:
                        R.violation(key, f.where(c), "`%s` is given %s: buffers that only other channels use get length 0, so the requested channel's buffer is "
                                    "looked for at the wrong position in the chunk (and a buffer shared with a longer channel gets too few rows)" % (unparse(c)[:60], sel))
                    else:
                        R.ok(key, f.where(c), "objects: `%s`" % show(v)[:80])
                break
    # one scaler standing for all scalers of a channel: <obj>.daqmx_metadata.scalers[<constant>].raw_buffer_index in reader code
    for f in mod_funcs:
        if f.cls is None or "Reader" not in f.cls.name:
            continue
        for x in walk_body(f.node):
            if isinstance(x, ast.Attribute) and x.attr == "raw_buffer_index" and isinstance(x.value, ast.Subscript) and isinstance(x.value.slice, ast.Constant) \
                    and isinstance(x.value.slice.value, int) and (dotted(x.value.value) or "").endswith("scalers"):
                n += 1
                R.violation("%s::buffer of one scaler taken for all" % f.qual, f.where(x), "`%s` takes the raw buffer of one scaler as the buffer of the whole channel: "
                            "a channel's scalers can lie in different raw buffers (each scaler carries its own raw_buffer_index), and the others are then decoded from "
                            "the wrong buffer" % unparse(x)[:70])
    if n == 0:
        R.unrecognised("daqmx::objects handed to the dimension code", "nptdms/daqmx.py:1", "no call of get_buffer_dimensions (or of a function handing its objects on to it) inside nptdms.daqmx")


@rule("DL1", "a digital line scaler addresses byte raw_bit_offset // 8 and bit raw_bit_offset % 8", floor=3)
def dl1(ctx, R):
    from .sym import Sym, show, alpha
    from .sem import method_of, match, W
    prog = ctx.prog
    dl = prog.cls("daqmx.DigitalLineScaler")
    fc = prog.cls("daqmx.DaqMxScaler")
    OFF = ("self", "raw_bit_offset")
    bo = method_of(prog, dl, "byte_offset")
    pp = method_of(prog, dl, "postprocess_data")
    if bo is None or pp is None:
        raise AnchorMissing("daqmx.DigitalLineScaler: byte_offset / postprocess_data")
    # the extracted line keeps the scaler's declared type: channel.dtype and scaler_data_types declare the port's integer type, and
    # chunk streams hand the values out as they are
    for k_ in (dl, fc):
        m_ = method_of(prog, k_, "postprocess_data")
        if m_ is None:
            continue
        casts = [c_ for c_ in walk_body(m_.node) if isinstance(c_, ast.Call) and (
            (isinstance(c_.func, ast.Attribute) and c_.func.attr == "astype" and c_.args and not (isinstance(c_.args[0], ast.Attribute) and c_.args[0].attr == "dtype")) or
            (call_name(c_) or "") in ("np.uint8", "np.int8", "np.bool_", "np.uint16", "np.int16", "np.uint32", "np.int32", "np.uint64", "np.int64", "np.float64", "np.float32", "bool"))]
        key_ = "%s::keeps the scaler type" % m_.qual
        if casts:
            R.violation(key_, m_.where(casts[0]), "`%s` converts the scaler's values to a fixed type: the declared type of the channel (the scaler's data type) "
                        "is no longer the type of what chunk streams return" % unparse(casts[0])[:60])
        else:
            R.ok(key_, m_.where(), "no conversion to a fixed type")
    v = Sym(prog, bo, dl).function_value()
    R.check(v == ("binop", "//", (OFF, ("const", 8))), "daqmx.DigitalLineScaler.byte_offset", bo.where(), "raw_bit_offset // 8",
            "byte offset is `%s`" % show(alpha(v))[:100])
    D = ("param", pp.params[1])
    BIT = ("binop", "%", (OFF, ("const", 8)))
    MASK = ("binop", "<<", (("const", 1), BIT))
    v = Sym(prog, pp, dl).function_value()
    ONE = ("const", 1)
    forms = [("call", "numpy.right_shift", (("call", "numpy.bitwise_and", (D, MASK), ()), BIT), ()),
             ("binop", ">>", (("binop", "&", (D, MASK)), BIT)), ("binop", ">>", (("binop", "&", (MASK, D)), BIT)),
             ("call", "numpy.right_shift", (("binop", "&", (D, MASK)), BIT), ()),
             # shift first, then keep the lowest bit
             ("call", "numpy.bitwise_and", (("call", "numpy.right_shift", (D, BIT), ()), ONE), ()),
             ("binop", "&", (("binop", ">>", (D, BIT)), ONE)), ("binop", "&", (ONE, ("binop", ">>", (D, BIT)))),
             ("binop", "&", (("call", "numpy.right_shift", (D, BIT), ()), ONE)), ("call", "numpy.bitwise_and", (("binop", ">>", (D, BIT)), ONE), ())]
    if v in forms:
        R.ok("daqmx.DigitalLineScaler.postprocess_data", pp.where(), "the bit at offset % 8 of each value: (data & (1 << bit)) >> bit, or (data >> bit) & 1")
        # the integer constants combined with the data must be values of every integer type a scaler can declare: NumPy (2.x) refuses
        # a Python integer that does not fit the array's type instead of wrapping it
        import numpy as np
        from .sem import find
        from .sym import collect

        def ieval(t, bit):
            if t == BIT:
                return bit
            if t[0] == "const" and isinstance(t[1], int) and not isinstance(t[1], bool):
                return t[1]
            if t[0] == "binop" and len(t[2]) == 2:
                a, b = ieval(t[2][0], bit), ieval(t[2][1], bit)
                if a is None or b is None:
                    return None
                return {"<<": lambda: a << b, ">>": lambda: a >> b, "%": lambda: a % b, "//": lambda: a // b, "+": lambda: a + b, "-": lambda: a - b,
                        "*": lambda: a * b, "&": lambda: a & b, "|": lambda: a | b}.get(t[1], lambda: None)()
            return None
        masks = []
        for x in collect(v, lambda y: isinstance(y, tuple) and y and ((y[0] == "call" and y[1] == "numpy.bitwise_and" and len(y[2]) == 2) or
                                                                      (y[0] == "binop" and y[1] == "&" and len(y[2]) == 2))):
            ops = x[2]
            for o in ops:
                if not collect(o, lambda y: y == D):
                    masks.append(o)
        mod = prog.module("daqmx")
        codes = mod.assigns.get("DAQMX_TYPES")
        int_types = []
        if isinstance(codes, ast.Dict):
            npt = {d["cls"].name: d["nptype"] for d in prog.tds_types()}
            for val in codes.values:
                nm = (dotted(val) or "").split(".")[-1]
                try:
                    dt = np.dtype(eval(npt.get(nm) or "None", {"np": np, "numpy": np}))
                except Exception:
                    dt = None
                if dt is not None and dt.kind in "iu" and dt not in int_types:
                    int_types.append(dt)
        bad = None
        for dt in int_types:
            info = np.iinfo(dt)
            for m in masks:
                for bit in range(8):
                    val = ieval(m, bit)
                    if val is not None and not (info.min <= val <= info.max):
                        bad = bad or (dt, bit, val)
        key = "daqmx.DigitalLineScaler.postprocess_data::mask fits every declared type"
        if not int_types or not masks:
            R.undecided(key, pp.where(), "integer scaler types or mask constants not recognised (%d types, %d masks)" % (len(int_types), len(masks)))
        elif bad:
            R.violation(key, pp.where(), "for a digital line declared as %s at bit %d the data is combined with the Python integer %d, which is not a value of that "
                        "type: NumPy raises OverflowError instead of yielding the addressed bit" % bad)
        else:
            R.ok(key, pp.where(), "%d mask constant(s) x 8 bit positions fit each of the %d integer scaler types" % (len(masks), len(int_types)))
    elif match(("call", W(), W(), W()), v) is not None or v[0] == "binop":
        R.violation("daqmx.DigitalLineScaler.postprocess_data", pp.where(), "bit extraction is `%s`, not (data & (1 << (offset %% 8))) >> (offset %% 8)" % show(alpha(v))[:160])
    else:
        R.undecided("daqmx.DigitalLineScaler.postprocess_data", pp.where(), "bit extraction `%s` not understood" % show(alpha(v))[:120])
    fs = method_of(prog, fc, "byte_offset")
    v = Sym(prog, fs, fc).function_value()
    R.check(v == ("self", "raw_byte_offset"), "daqmx.DaqMxScaler.byte_offset", fs.where(), "raw_byte_offset", "byte offset is `%s`" % show(alpha(v))[:80])
    ps = method_of(prog, fc, "postprocess_data")
    v = Sym(prog, ps, fc).function_value()
    R.check(v == ("param", ps.params[1]), "daqmx.DaqMxScaler.postprocess_data", ps.where(), "identity", "format changing scaler data is post-processed: `%s`" % show(alpha(v))[:80])


@rule("SB1", "a truncated final chunk gives rows only up to the first incomplete buffer / channel", floor=2)
def sb1(ctx, R):
    """In each function that distributes the bytes of a truncated chunk (and the module helpers it calls): a loop carries a byte
    budget that complete buffers / channels decrement; the statement that gives the first incomplete one `budget // width` rows must
    not be followed by another iteration of that loop."""
    from .sem import module_region
    from .absval import assume_from
    prog = ctx.prog
    for q in ("daqmx.get_daqmx_final_chunk_lengths", "tdms_segment.TdmsSegment._compute_final_chunk_lengths"):
        top = prog.func(q)
        found = False
        for fi in module_region(prog, top, depth=2) if top.cls is None else [top] + [f for f in module_region(prog, top, depth=2) if f is not top]:
            cfg = ctx.cfg(fi)
            for loop in [n for n in walk_body(fi.node) if isinstance(n, (ast.For, ast.While))]:
                budgets = {n.target.id for n in ast.walk(loop) if isinstance(n, ast.AugAssign) and isinstance(n.op, ast.Sub) and isinstance(n.target, ast.Name)}
                def emitted(n):
                    """the value a statement hands out as a length: X[i] = v / yield v / L.append(v)"""
                    if isinstance(n, ast.Assign) and isinstance(n.targets[0], ast.Subscript):
                        return n.value
                    if isinstance(n, ast.Expr) and isinstance(n.value, ast.Yield) and n.value.value is not None:
                        return n.value.value
                    if isinstance(n, ast.Expr) and isinstance(n.value, ast.Call) and isinstance(n.value.func, ast.Attribute) and n.value.func.attr == "append" \
                            and len(n.value.args) == 1:
                        return n.value.args[0]
                    return None
                is_partial = lambda v: isinstance(v, ast.BinOp) and isinstance(v.op, ast.FloorDiv) and isinstance(v.left, ast.Name) and v.left.id in budgets
                emits = [n for n in ast.walk(loop) if isinstance(n, ast.stmt) and emitted(n) is not None]
                partial = [n for n in emits if is_partial(emitted(n))]
                if not partial:
                    continue
                found = True
                heads = cfg.where(lambda n: n.ast is loop and n.kind in ("for", "test"))
                for p in partial:
                    pn = cfg.where(lambda n: n.ast is p)
                    r = cfg.reach([m for x in pn for m, k in x.succ if k not in ("exc", "uncaught")], follow_exc=False)
                    back = [h for h in heads if h in r]
                    zero_after = False
                    if back:
                        # the loop goes on, which is fine when a flag set with the partial length makes every later round hand out 0
                        before_head = cfg.reach([m for x in pn for m, k in x.succ if k not in ("exc", "uncaught")], avoid=lambda n: n in heads, follow_exc=False)
                        facts = {}
                        for n in before_head:
                            a = getattr(n, "ast", None)
                            if n.kind == "stmt" and isinstance(a, ast.Assign) and len(a.targets) == 1 and isinstance(a.targets[0], ast.Name) \
                                    and isinstance(a.value, ast.Constant) and isinstance(a.value.value, bool):
                                facts[a.targets[0].id] = a.value.value
                        if facts:
                            starts = [m for h in heads for m, k in h.succ if k == "loop"]
                            r2 = cfg.reach(starts, avoid=lambda n: n in heads, assume=assume_from(facts), follow_exc=False) | set(starts)
                            nonzero = [n for n in r2 if n.kind == "stmt" and emitted(n.ast) is not None
                                       and not (isinstance(emitted(n.ast), ast.Constant) and emitted(n.ast).value == 0)]
                            reset = [n for n in r2 if n.kind == "stmt" and isinstance(n.ast, ast.Assign) and any(
                                isinstance(t, ast.Name) and t.id in facts for t in n.ast.targets) and not (
                                isinstance(n.ast.value, ast.Constant) and n.ast.value.value == facts.get(n.ast.targets[0].id))]
                            zero_after = not nonzero and not reset
                    R.check(not back or zero_after, "%s::stop after the first incomplete one" % q, fi.where(p),
                            "the loop ends at the first incomplete buffer/channel (`%s`)" % unparse(p)[:50] if not back else
                            "after the first incomplete buffer/channel every later one is given 0 rows",
                            "after the first incomplete buffer/channel the loop goes on: leftover bytes of a half-written row are counted as complete rows of later, "
                            "narrower buffers, which then gain values that were never written")
                R.ok(q + "::complete buffers consume their bytes", fi.where(loop), "the byte budget `%s` decreases by each complete buffer" % ", ".join(sorted(budgets)))
        if not found:
            R.violation(q + "::partial length", top.where(), "no loop gives the first incomplete buffer/channel `remaining bytes // width` rows out of a byte budget that "
                        "complete ones decrement: the truncated chunk logic changed shape (e.g. every buffer gets min(length, remaining // width) rows)")


@rule("SZ1", "the byte size of a segment's chunk is summed from data_size only where DAQmx segments are excluded", floor=1)
def sz1(ctx, R):
    """DAQmx segment objects do not carry a data_size: the size of a DAQmx chunk comes from the buffer widths (get_daqmx_chunk_size).
    Wherever the segment class sums its objects' data_size into a chunk size, the conditions that lead there (in the function, or at
    every call of it inside the class) must include a test that excludes DAQmx objects; otherwise the size is 0 for DAQmx segments."""
    from .sym import Sym, contains
    from .sem import calls_to
    prog = ctx.prog
    seg = prog.cls("tdms_segment.TdmsSegment")
    DQ = ("class", "daqmx.DaqmxSegmentObject")
    from .region import region as _region

    def mentions_daqmx_class(q):
        f = prog.functions.get(q)
        return f is not None and any(isinstance(x, (ast.Name, ast.Attribute)) and (dotted(x) or "").split(".")[-1] == "DaqmxSegmentObject"
                                     for g in _region(ctx, f, depth=1) for x in ast.walk(g.node))

    def is_daqmx_test(g):
        # a test of the objects' class, written out or behind a predicate method of the segment
        return contains(g, lambda y: y == DQ or (isinstance(y, tuple) and len(y) == 4 and y[0] == "call" and isinstance(y[1], str) and mentions_daqmx_class(y[1])))
    n = 0
    for m in sorted(seg.methods.values(), key=lambda f: f.qual):
        sy = None
        for c in walk_body(m.node):
            if isinstance(c, ast.Call) and call_name(c) == "sum" and c.args and any(
                    isinstance(x, ast.Attribute) and x.attr == "data_size" for x in ast.walk(c.args[0])):
                n += 1
                sy = sy or Sym(prog, m, seg, inline=False)
                _env, guards = sy.env_at(c)
                key = "%s::sum of data_size" % m.qual
                ok = any(is_daqmx_test(g) for g in guards)
                if not ok:
                    sites = [(h, cc) for h in seg.methods.values() if h is not m for cc in calls_to(prog, h, m.qual, seg)]
                    ok = bool(sites) and all(any(is_daqmx_test(g) for g in Sym(prog, h, seg, inline=False).env_at(cc)[1]) for h, cc in sites)
                if ok:
                    R.ok(key, m.where(c), "reached only when the segment has no DAQmx objects")
                else:
                    R.violation(key, m.where(c), "`%s` computes a chunk size from the objects' data_size on a path that is open to DAQmx segments: DAQmx "
                                "segment objects have data_size 0 (their chunk size comes from the buffer widths), so for them this size is 0" % unparse(c)[:70])
    if n == 0:
        R.unrecognised("tdms_segment.TdmsSegment::chunk size", "%s:%d" % (seg.module.relpath, seg.node.lineno),
                       "no sum over the objects' data_size in the segment class: how the chunk size of plain segments is computed was not recognised")
