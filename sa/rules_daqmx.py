"""SR1 scaler registry sibling interface, TR1 tuple-role flow of buffer dimensions and column selection,
DL1 digital line bit addressing, SB1 truncation loops stop at the first incomplete buffer (property C11)."""
import ast

from .registry import rule
from .core import call_name, dotted, walk_shallow, walk_body, unparse, AnchorMissing
from .cfg import node_calls


def _defs(fi, name):
    out = []
    for n in walk_body(fi.node):
        if isinstance(n, ast.Assign) and any(isinstance(t, ast.Name) and t.id == name for t in n.targets):
            out.append(n.value)
    return out


@rule("SR1", "every DAQmx scaler class offers what the metadata parser, the dimension code and the data reader use", floor=10)
def sr1(ctx, R):
    prog = ctx.prog
    mod = prog.module("daqmx")
    reg = mod.assigns.get("_scaler_classes")
    if not isinstance(reg, ast.Dict):
        raise AnchorMissing("daqmx._scaler_classes dict literal")
    keys = [dotted(k) for k in reg.keys]
    classes = [prog.resolve_class(mod, v) for v in reg.values]
    for k, c in zip(keys, classes):
        if c is None:
            R.violation("daqmx._scaler_classes[%s]" % k, "%s:%d" % (mod.relpath, reg.lineno), "value is not a class")
            continue
        where = "%s:%d" % (c.module.relpath, c.node.lineno)
        slots = prog.class_const(c, "__slots__") or []
        init = c.methods.get("__init__")
        assigned = set()
        if init is not None:
            for n in ast.walk(init.node):
                if isinstance(n, ast.Attribute) and dotted(n.value) == "self" and isinstance(n.ctx, ast.Store):
                    assigned.add(n.attr)
        for attr in ("scale_id", "data_type", "raw_buffer_index"):
            R.check(attr in slots and attr in assigned, "%s::%s" % (c.qual, attr), where, "attribute set by the constructor",
                    "scaler class %s does not provide `%s`, which DaqMxMetadata / get_buffer_dimensions / the data reader use" % (c.name, attr))
        for m, nargs in (("byte_offset", 1), ("postprocess_data", 2)):
            f = c.methods.get(m)
            R.check(f is not None and len(f.params) == nargs, "%s::%s" % (c.qual, m), where, "method present with %d parameter(s)" % nargs,
                    "scaler class %s lacks %s(%s)" % (c.name, m, "self" if nargs == 1 else "self, data"))
        R.check(init is not None and len(init.params) == 3, "%s::constructor(file, endianness)" % c.qual, where, "constructed as scaler_class(f, endianness)",
                "constructor signature is %s" % (init.params if init else None))
        # data type through the DAQmx code table
        R.check(init is not None and "DAQMX_TYPES[" in unparse(init.node), "%s::type code table" % c.qual, where, "data_type = DAQMX_TYPES[code]",
                "scaler data type is not taken from DAQMX_TYPES")
    # the three places that know the set of DAQmx index headers agree
    nso = prog.func("tdms_segment.TdmsSegment._new_segment_object")
    rri = prog.func("daqmx.DaqmxSegmentObject.read_raw_data_index")

    def header_set(fi):
        for n in walk_body(fi.node):
            if isinstance(n, ast.Compare) and isinstance(n.ops[0], (ast.In, ast.NotIn)) and isinstance(n.comparators[0], ast.Tuple):
                return sorted(dotted(e) for e in n.comparators[0].elts)
        return None
    a, b = header_set(nso), header_set(rri)
    R.check(a == b == sorted(keys), "daqmx::index header sets", nso.where(), "segment object factory, DAQmx index parser and scaler registry accept %s" % sorted(keys),
            "the sets of DAQmx raw-data-index headers disagree: factory %s, parser %s, registry %s" % (a, b, sorted(keys)))
    vals = {k: prog.try_fold(mod.assigns.get(k), mod) for k in keys if k in mod.assigns}
    R.check(vals == {"FORMAT_CHANGING_SCALER": 0x1269, "DIGITAL_LINE_SCALER": 0x126A}, "daqmx::header constants", "%s:1" % mod.relpath, "0x1269 / 0x126A",
            "DAQmx index header constants are %s" % vals)
    mm = prog.func("daqmx.DaqMxMetadata.__init__")
    t = unparse(mm.node)
    R.check("_scaler_classes[scaler_type]" in t and "scaler_class(f, endianness)" in t and "range(scaler_vector_length)" in t, "daqmx.DaqMxMetadata.__init__::scalers", mm.where(),
            "one scaler object per vector entry, class chosen by the index header", "scaler vector is not parsed with the class registered for the header")


@rule("TR1", "buffer dimensions flow as (length, width) pairs and scaler values are the byte columns [offset, offset+size) of their own buffer", floor=6)
def tr1(ctx, R):
    prog = ctx.prog
    gbd = prog.func("daqmx.get_buffer_dimensions")
    t = unparse(gbd.node)
    R.check("[(0, w) for w in raw_data_widths]" in t and "max(current_buffer_shape[0], o.number_values)" in t and "(updated_num_values, current_buffer_shape[1])" in t,
            "daqmx.get_buffer_dimensions::(length, width)", gbd.where(), "position 0 = number of rows (max over objects using the buffer), position 1 = width",
            "buffer dimension pairs are no longer (number of values, width)")
    # consumers
    mod = prog.module("daqmx")
    for fi in sorted((f for f in prog.functions.values() if f.module is mod), key=lambda f: f.qual):
        # names bound by destructuring an element of get_buffer_dimensions(...)
        pairs = []     # (length name, width name)
        dims_names = {d for d in ("buffer_dims",) if _defs(fi, d) and any(isinstance(v, ast.Call) and call_name(v) == "get_buffer_dimensions" for v in _defs(fi, d))}
        for n in ast.walk(fi.node):
            it = tgt = None
            if isinstance(n, (ast.For, ast.comprehension)):
                it, tgt = n.iter, n.target
            if it is None:
                continue
            src = it
            inner = tgt
            if isinstance(it, ast.Call) and call_name(it) == "enumerate" and it.args:
                src = it.args[0]
                inner = tgt.elts[1] if isinstance(tgt, ast.Tuple) and len(tgt.elts) == 2 else None
            is_dims = (isinstance(src, ast.Call) and call_name(src) == "get_buffer_dimensions") or (isinstance(src, ast.Name) and src.id in dims_names)
            if not is_dims or inner is None:
                continue
            if isinstance(inner, ast.Tuple) and len(inner.elts) == 2 and all(isinstance(e, ast.Name) for e in inner.elts):
                pairs.append((inner.elts[0].id, inner.elts[1].id))
            elif isinstance(inner, ast.Name):
                # shape = element; later (a, b) = shape
                for d in walk_body(fi.node):
                    if isinstance(d, ast.Assign) and isinstance(d.targets[0], ast.Tuple) and isinstance(d.value, ast.Name) and d.value.id == inner.id \
                            and len(d.targets[0].elts) == 2:
                        pairs.append((d.targets[0].elts[0].id, d.targets[0].elts[1].id))
        for c in walk_body(fi.node):
            if isinstance(c, ast.Call) and call_name(c) == "read_interleaved_segment_bytes" and len(c.args) >= 3:
                w, n_ = dotted(c.args[1]), dotted(c.args[2])
                ok = any(n_ == ln and w == wd for ln, wd in pairs)
                R.check(ok, "%s::read_interleaved_segment_bytes(%s, %s)" % (fi.qual, w, n_), fi.where(c),
                        "rows x bytes-per-row are the length and width of one buffer",
                        "a raw buffer is read with bytes_per_row=`%s` and num_values=`%s`, which are not the (length, width) pair of one acquisition buffer from "
                        "get_buffer_dimensions (swapped, or the row count of another buffer / of the channel): with buffers of differing lengths or "
                        "widths the bytes are attributed to the wrong rows" % (unparse(c.args[1]), unparse(c.args[2])))
            if isinstance(c, ast.Call) and isinstance(c.func, ast.Attribute) and c.func.attr == "seek" and len(c.args) == 2 and dotted(c.args[1]) == "os.SEEK_CUR":
                dist = c.args[0]
                names = {x.id for x in ast.walk(dist) if isinstance(x, ast.Name)}
                ok = any({ln, wd} <= names for ln, wd in pairs)
                R.check(ok, "%s::seek(%s)" % (fi.qual, unparse(dist)[:40]), fi.where(c), "skips length x width of one buffer",
                        "a raw buffer is skipped by `%s` bytes, which is not the length x width of that buffer from get_buffer_dimensions" % unparse(dist))
        for n in ast.walk(fi.node):
            if isinstance(n, ast.BinOp) and isinstance(n.op, ast.Mult) and pairs:
                names = {x.id for x in ast.walk(n) if isinstance(x, ast.Name)}
                for ln, wd in pairs:
                    if wd in names and ln not in names and not (names - {wd}) <= set():
                        other = names - {wd}
                        if other and fi.name != "get_buffer_dimensions" and all(o not in (p[0] for p in pairs) for o in other) \
                                and isinstance(n.left, ast.Name) and isinstance(n.right, ast.Name):
                            R.violation("%s::%s" % (fi.qual, unparse(n)), fi.where(n), "a buffer width is multiplied by `%s`, not by the length of the same buffer" % ", ".join(sorted(other)))
    # column selection in the data reader
    rd = None
    for q in ("daqmx.DaqmxDataReader._read_data_chunk", "daqmx.DaqmxDataReader._read_object_scalers"):
        if q in prog.functions and any(isinstance(c, ast.Call) and isinstance(c.func, ast.Attribute) and c.func.attr == "postprocess_data" for c in walk_body(prog.functions[q].node)):
            rd = prog.functions[q]
    if rd is None:
        raise AnchorMissing("daqmx.DaqmxDataReader: postprocess_data call")
    pp = [c for c in walk_body(rd.node) if isinstance(c, ast.Call) and isinstance(c.func, ast.Attribute) and c.func.attr == "postprocess_data"][0]
    x = pp.args[0].id if pp.args and isinstance(pp.args[0], ast.Name) else None
    defs = _defs(rd, x) if x else []
    bad = []
    saw_cols = saw_fb = False
    for d in defs:
        txt = unparse(d).replace(" ", "")
        if txt == "combined_data[:,byte_columns].ravel()":
            saw_cols = True
        elif isinstance(d, ast.Call) and isinstance(d.func, ast.Attribute) and d.func.attr == "from_bytes" and d.args and dotted(d.args[0]) == x:
            saw_fb = True
        else:
            bad.append(d)
    key = "%s::scaler values = byte columns" % rd.qual
    if bad:
        R.violation(key, rd.where(bad[0]), "scaler values can also be produced by `%s`, which does not select the byte columns [byte_offset, byte_offset + size) "
                    "of each row of the scaler's buffer: stride or offset differ when the buffer width is not a multiple of the type size" % unparse(bad[0])[:90])
    else:
        R.check(saw_cols and saw_fb, key, rd.where(pp), "from_bytes(combined_data[:, byte_columns].ravel(), endianness)", "column selection changed")
    bc = [unparse(d).replace(" ", "") for d in _defs(rd, "byte_columns")]
    R.check(bc == ["tuple(range(byte_offset,byte_offset+scaler_size))"], "%s::byte_columns" % rd.qual, rd.where(), "columns byte_offset .. byte_offset + size - 1",
            "byte columns are %s" % bc)
    R.check([unparse(d) for d in _defs(rd, "byte_offset")] == ["scaler.byte_offset()"] and [unparse(d) for d in _defs(rd, "scaler_size")] == ["scaler.data_type.size"],
            "%s::offset and size from the scaler" % rd.qual, rd.where(), "scaler.byte_offset(), scaler.data_type.size", "offset/size are not taken from the scaler")
    # scalers decoded from a buffer are those whose raw_buffer_index is that buffer's position in the enumeration
    main = prog.func("daqmx.DaqmxDataReader._read_data_chunk")
    enum = [n for n in walk_body(main.node) if isinstance(n, ast.For) and isinstance(n.iter, ast.Call) and call_name(n.iter) == "enumerate"
            and n.iter.args and isinstance(n.iter.args[0], ast.Call) and call_name(n.iter.args[0]) == "get_buffer_dimensions"]
    idx = enum[0].target.elts[0].id if enum and isinstance(enum[0].target, ast.Tuple) and isinstance(enum[0].target.elts[0], ast.Name) else None
    filt = "scaler.raw_buffer_index == %s" % idx if idx else None
    src_all = unparse(main.node) + unparse(rd.node)
    R.check(bool(enum) and filt is not None and (filt in src_all or "scaler.raw_buffer_index == raw_buffer_index" in src_all),
            "daqmx.DaqmxDataReader._read_data_chunk::scalers of this buffer", main.where(), "buffers are enumerated from get_buffer_dimensions and scalers filtered by raw_buffer_index",
            "scalers are not matched to the buffer by raw_buffer_index == position of the buffer")


@rule("DL1", "a digital line scaler addresses byte raw_bit_offset // 8 and bit raw_bit_offset % 8", floor=3)
def dl1(ctx, R):
    prog = ctx.prog
    bo = prog.func("daqmx.DigitalLineScaler.byte_offset")
    pp = prog.func("daqmx.DigitalLineScaler.postprocess_data")
    r = [unparse(n.value).replace(" ", "") for n in walk_body(bo.node) if isinstance(n, ast.Return)]
    R.check(r == ["self.raw_bit_offset//8"], "daqmx.DigitalLineScaler.byte_offset", bo.where(), "raw_bit_offset // 8", "byte offset is %s" % r)
    d = {}
    for n in walk_body(pp.node):
        if isinstance(n, ast.Assign) and isinstance(n.targets[0], ast.Name):
            d[n.targets[0].id] = unparse(n.value).replace(" ", "")
    r = [unparse(n.value).replace(" ", "") for n in walk_body(pp.node) if isinstance(n, ast.Return)]
    ok = d.get("bit_offset") == "self.raw_bit_offset%8" and d.get("bitmask") == "1<<bit_offset" and r == ["np.right_shift(np.bitwise_and(data,bitmask),bit_offset)"]
    R.check(ok, "daqmx.DigitalLineScaler.postprocess_data", pp.where(), "(data & (1 << (offset % 8))) >> (offset % 8)",
            "bit extraction is %s / %s" % (d, r))
    fs = prog.func("daqmx.DaqMxScaler.byte_offset")
    r = [unparse(n.value) for n in walk_body(fs.node) if isinstance(n, ast.Return)]
    R.check(r == ["self.raw_byte_offset"], "daqmx.DaqMxScaler.byte_offset", fs.where(), "raw_byte_offset", "byte offset is %s" % r)
    ps = prog.func("daqmx.DaqMxScaler.postprocess_data")
    r = [unparse(n.value) for n in walk_body(ps.node) if isinstance(n, ast.Return)]
    R.check(r == [ps.params[1]], "daqmx.DaqMxScaler.postprocess_data", ps.where(), "identity", "format changing scaler data is post-processed: %s" % r)


@rule("SB1", "a truncated final chunk gives rows only up to the first incomplete buffer / channel", floor=2)
def sb1(ctx, R):
    prog = ctx.prog
    for q in ("daqmx.get_daqmx_final_chunk_lengths", "tdms_segment.TdmsSegment._compute_final_chunk_lengths"):
        fi = prog.func(q)
        cfg = ctx.cfg(fi)
        partial = cfg.where(lambda n: n.kind == "stmt" and isinstance(n.ast, ast.Assign) and isinstance(n.ast.targets[0], ast.Subscript)
                            and isinstance(n.ast.value, ast.BinOp) and isinstance(n.ast.value.op, ast.FloorDiv)
                            and isinstance(n.ast.value.left, ast.Name) and "remain" in n.ast.value.left.id)
        if not partial:
            R.violation(q + "::partial length", fi.where(), "no statement assigns `remaining bytes // width` to the first incomplete buffer/channel: the truncated "
                        "chunk logic changed shape (e.g. every buffer gets min(length, remaining // width) rows)")
            continue
        for p in partial:
            heads = cfg.where(lambda n: n.kind == "for")
            # from the partial assignment no path may return to the loop header of its own loop
            r = cfg.reach([p], follow_exc=False)
            own = [h for h in heads if any(x is p.ast for x in ast.walk(h.ast))]
            back = [h for h in own if h in r]
            R.check(not back, "%s::stop after `%s`" % (q, unparse(p.ast)[:40]), fi.where(p.ast), "the loop ends at the first incomplete buffer/channel",
                    "after the first incomplete buffer/channel the loop goes on: leftover bytes of a half-written row are counted as complete rows of later, "
                    "narrower buffers, which then gain values that were never written")
        # the full branch consumes the bytes of the complete buffer
        subs = [n for n in walk_body(fi.node) if isinstance(n, ast.AugAssign) and isinstance(n.op, ast.Sub) and "remain" in unparse(n.target)]
        R.check(bool(subs), q + "::complete buffers consume their bytes", fi.where(), "remaining bytes decrease by each complete buffer",
                "remaining bytes are not reduced by complete buffers")
