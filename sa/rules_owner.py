"""OW1/OW2/HD1/RJ1 (C02: shared segment objects and object lists are never changed
retroactively; forbidden encodings are rejected) and OW3 (C13: scaling never
modifies the data it reads)."""
import ast

from .registry import rule
from .core import call_name, dotted, walk_shallow, walk_body, unparse, AnchorMissing
from .alias import AliasWalker, Summaries, ALIAS, UNKNOWN, FRESH
from .flow import FlowInterp, resolve_call
from .cfg import node_calls

SEGOBJ_CLASSES = ("base_segment.BaseSegmentObject", "tdms_segment.TdmsSegmentObject", "daqmx.DaqmxSegmentObject")
SEGOBJ_SLOTS = {"has_data", "number_values", "data_size", "data_type", "daqmx_metadata", "path"}
SEGOBJ_FRESH = {"copy", "self._new_segment_object", "_new_segment_object", "TdmsSegmentObject", "DaqmxSegmentObject"}


@rule("OW1", "segment objects shared with earlier segments are copied before they are changed", floor=10)
def ow1(ctx, R):
    prog = ctx.prog
    for q in SEGOBJ_CLASSES:
        prog.cls(q)
    seg = prog.cls("tdms_segment.TdmsSegment")
    n_sites = 0
    for fi in sorted(prog.functions.values(), key=lambda f: f.qual):
        if fi.module.name not in ("tdms_segment", "daqmx", "reader", "base_segment", "tdms"):
            continue
        in_segobj = fi.cls is not None and fi.cls.qual in SEGOBJ_CLASSES
        # who-may-write: self.<slot> stores only inside the segment object classes' __init__/read_raw_data_index
        protected = {p for p in fi.params if p not in ("self", "cls")}
        # outside the segment modules `data_type`/`path` are also attributes of other classes
        # (ObjectMetadata, TdmsChannel): only the slots unique to segment objects identify them there
        slots = SEGOBJ_SLOTS if fi.module.name in ("tdms_segment", "daqmx", "base_segment") else SEGOBJ_SLOTS - {"data_type", "path"}
        w = AliasWalker(prog, fi, protected, fresh_calls=SEGOBJ_FRESH, elem_alias=True,
                        extra_mutating_methods={"read_raw_data_index"}, attr_store_slots=slots).run()
        for m in w.mutations:
            txt = m.how
            is_slot_store = txt.startswith("attribute store") or "read_raw_data_index" in txt
            if not is_slot_store:
                continue
            n_sites += 1
            key = "%s::%s" % (fi.qual, unparse(m.node).split("\n")[0][:70])
            where = fi.where(m.node)
            if m.kind == FRESH:
                R.ok(key, where, "target `%s` was created in this activation (copy / new segment object)" % m.name)
            elif m.kind == ALIAS:
                R.violation(key, where, "%s through `%s`, which may be an object shared with an earlier segment (passed in or taken "
                            "from the previous segment's list / the per-path memory): the earlier segment's metadata changes retroactively" % (txt, m.name))
            else:
                R.undecided(key, where, "%s through `%s` of unknown provenance" % (txt, m.name))
        if fi.cls is not None and not in_segobj:
            for n in walk_body(fi.node):
                pass
    # self.<slot> stores inside segment object classes only in __init__ / read_raw_data_index
    for q in SEGOBJ_CLASSES:
        ci = prog.cls(q)
        for name, fi in ci.methods.items():
            for n in walk_body(fi.node):
                if isinstance(n, ast.Assign):
                    for t in n.targets:
                        if isinstance(t, ast.Attribute) and dotted(t.value) == "self" and t.attr in SEGOBJ_SLOTS:
                            n_sites += 1
                            R.check(name in ("__init__", "read_raw_data_index"), "%s::self.%s" % (fi.qual, t.attr), fi.where(n),
                                    "slot initialised/filled by the object's own parser",
                                    "segment object slot self.%s is rewritten in %s: objects are shared between segments and must be immutable "
                                    "after their index was read" % (t.attr, fi.qual))
    if n_sites < 10:
        raise AnchorMissing("stores to segment object slots (found %d)" % n_sites)


# ---------------------------------------------------------------------------

LIST_FRESH, LIST_SHARED, LIST_UNSET = "fresh", "shared", "unset"


class ObjListInterp(FlowInterp):
    """Typestate of self.ordered_objects inside TdmsSegment while a segment's metadata is parsed."""

    def __init__(self, prog, R, cls):
        super().__init__(prog)
        self.R = R
        self.cls = cls
        self.n_mut = 0
        self.reported = set()

    def resolve(self, c, env):
        t = resolve_call(self.prog, env["fi"], env["self_cls"], c)
        return [(f, k) for (f, k) in t if f.cls is self.cls]

    def _is_list_expr(self, e):
        return dotted(e) == "self.ordered_objects"

    def _classify(self, v):
        """freshness of a canonical value assigned to the object list"""
        if not isinstance(v, tuple) or not v:
            return LIST_SHARED
        if v[0] in ("list", "comp"):
            return LIST_FRESH
        if v[0] == "sub" and isinstance(v[2], tuple) and v[2] and v[2][0] == "slice" and v[2][1] == ("const", None) and v[2][2] == ("const", None):
            return LIST_FRESH
        if v[0] == "call" and str(v[1]).split(".")[-1] in ("list", "copy", "deepcopy", "sorted"):
            return LIST_FRESH
        if v[0] == "binop" and v[1] == "+":
            return LIST_FRESH
        if v == ("const", None):
            return LIST_UNSET
        if v[0] == "phi":
            a, b = self._classify(v[2]), self._classify(v[3])
            return a if a == b else (LIST_SHARED if LIST_SHARED in (a, b) else LIST_UNSET)
        return LIST_SHARED

    def on_assign(self, s, states, env):
        from .sym import Sym, item_of
        for t in s.targets:
            targets = [(t, None)] if not isinstance(t, (ast.Tuple, ast.List)) else [(e, i) for i, e in enumerate(t.elts)]
            for tt, idx in targets:
                if self._is_list_expr(tt):
                    fi = env["fi"]
                    sy = Sym(self.prog, fi, env["self_cls"] or fi.cls)
                    e2, _g = sy.env_at(s)
                    v = sy.expr(s.value, e2)
                    if idx is not None:
                        v = item_of(v, idx)
                    return frozenset([self._classify(v)])
            if isinstance(t, ast.Subscript) and self._is_list_expr(t.value):
                return self._mutation(s, states, env, "item store")
        return states

    def on_augassign(self, s, states, env):
        if self._is_list_expr(s.target):
            return self._mutation(s, states, env, "augmented assignment")
        return states

    def on_call(self, c, states, env):
        if isinstance(c.func, ast.Attribute) and self._is_list_expr(c.func.value) and c.func.attr in (
                "append", "extend", "insert", "pop", "remove", "sort", "reverse", "clear"):
            return self._mutation(c, states, env, ".%s()" % c.func.attr)
        return None

    def _mutation(self, node, states, env, how):
        self.n_mut += 1
        fi = env["fi"]
        key = "%s::%s %s" % (fi.qual, "self.ordered_objects", how)
        bad = [s for s in states if s != LIST_FRESH]
        if bad:
            if key not in self.reported:
                self.reported.add(key)
                self.R.violation(key, fi.where(node), "%s of self.ordered_objects while the list may still be the previous segment's list "
                                 "(state %s on the path %s): the earlier segment's object list changes retroactively" % (
                                     how, "/".join(sorted(bad)), " -> ".join(self.chain)))
        else:
            if key not in self.reported:
                self.reported.add(key)
                self.R.ok(key, fi.where(node), "list is a fresh copy on every path reaching this mutation")
        return frozenset([LIST_FRESH]) if not bad else states


@rule("OW2", "a segment's object list is mutated only after it was copied; index dictionaries are immutable and ordered", floor=5)
def ow2(ctx, R):
    prog = ctx.prog
    seg = prog.cls("tdms_segment.TdmsSegment")
    rso = prog.func("tdms_segment.TdmsSegment.read_segment_objects")
    interp = ObjListInterp(prog, R, seg)
    interp.run_func(rso, seg, frozenset([LIST_UNSET]))
    if interp.n_mut < 3:
        raise AnchorMissing("mutations of self.ordered_objects reached from read_segment_objects (found %d)" % interp.n_mut)
    # no other function mutates an ordered_objects list
    reached = set()
    mutators = []
    for fi in prog.functions.values():
        for n in walk_body(fi.node):
            tgt = None
            if isinstance(n, ast.Call) and isinstance(n.func, ast.Attribute) and n.func.attr in (
                    "append", "extend", "insert", "pop", "remove", "sort", "reverse", "clear") \
                    and isinstance(n.func.value, ast.Attribute) and n.func.value.attr == "ordered_objects":
                tgt = n
            if isinstance(n, ast.Assign):
                for t in n.targets:
                    if isinstance(t, ast.Subscript) and isinstance(t.value, ast.Attribute) and t.value.attr == "ordered_objects":
                        tgt = n
            if tgt is not None:
                if fi.cls is seg and fi not in mutators:
                    mutators.append(fi)
                if fi.cls is not seg:
                    R.violation("%s::mutates .ordered_objects" % fi.qual, fi.where(tgt), "a segment's object list is modified outside the "
                                "metadata parser (lists are shared between segments by reference)")
    # helpers that mutate are called only from the metadata parser
    cg = ctx.callgraph()

    def strangers(q, seen):
        """callers (transitively) through which q is reached without passing read_segment_objects"""
        out = set()
        callers = {e.caller for e in cg.callers(q)}
        if not callers:
            out.add(q + " (not called from the metadata parser)")
        for c in callers:
            if c == rso.qual or c in seen:
                continue
            seen.add(c)
            f2 = prog.functions.get(c)
            if f2 is None or f2.cls is not seg:
                out.add(c)
            else:
                out |= strangers(c, seen)
        return out
    for m in sorted(mutators, key=lambda f: f.qual):
        if m is rso:
            continue
        bad = strangers(m.qual, {m.qual})
        R.check(not bad, m.qual + "::callers", m.where(), "reached only through read_segment_objects (after the list was copied)",
                "also reached from %s" % sorted(bad))
    # object_index dictionaries handed out by the cache are never mutated
    muts = []
    for fi in prog.functions.values():
        for n in walk_body(fi.node):
            if isinstance(n, ast.Assign):
                for t in n.targets:
                    if isinstance(t, ast.Subscript) and isinstance(t.value, ast.Attribute) and t.value.attr == "object_index":
                        muts.append((fi, n))
            if isinstance(n, ast.Call) and isinstance(n.func, ast.Attribute) and n.func.attr in ("update", "pop", "setdefault", "clear", "popitem") \
                    and isinstance(n.func.value, ast.Attribute) and n.func.value.attr == "object_index":
                muts.append((fi, n))
    R.check(not muts, "object_index::never mutated", rso.where(), "path->position dictionaries shared through SegmentIndexCache are read-only",
            "an object_index dictionary (shared between all segments with the same object list) is modified in %s" % (muts[0][0].qual if muts else ""))
    # ObjectListKey.__eq__: same length and pairwise path equality in order
    try:
        eq = prog.func("tdms_segment.ObjectListKey.__eq__")
    except AnchorMissing:
        # no key class any more: how the cache builds its key decides
        key_ = "tdms_segment.SegmentIndexCache::key of the shared index"
        try:
            gi = prog.func("tdms_segment.SegmentIndexCache.get_index")
        except AnchorMissing:
            R.unrecognised(key_, prog.module("tdms_segment").relpath, "neither ObjectListKey nor SegmentIndexCache.get_index found")
            return
        unordered_ = [n for n in ast.walk(gi.node) if (isinstance(n, ast.Call) and call_name(n) in ("set", "frozenset", "sorted")) or isinstance(n, (ast.Set, ast.SetComp))]
        ordered_ = [n for n in ast.walk(gi.node) if isinstance(n, ast.Call) and call_name(n) == "tuple"]
        if unordered_:
            R.violation(key_, gi.where(unordered_[0]), "the key of the shared path->position index goes through an order-insensitive container (`%s`): segments "
                        "with the same objects in a different order would share one index" % unparse(unordered_[0])[:60])
        elif ordered_:
            R.ok(key_, gi.where(ordered_[0]), "the key is the tuple of paths in list order")
        else:
            R.unrecognised(key_, gi.where(), "how the cache key is built from the object list was not recognised")
        eq = None
    if eq is not None:
        src = unparse(eq.node)
        def is_len(e):
            return isinstance(e, ast.Call) and call_name(e) == "len"
        has_len = any(isinstance(n, ast.Compare) and len(n.ops) == 1 and isinstance(n.ops[0], (ast.Eq, ast.NotEq)) and is_len(n.left) and is_len(n.comparators[0])
                      for n in ast.walk(eq.node))
        zips = [n for n in ast.walk(eq.node) if isinstance(n, ast.Call) and call_name(n) == "zip"]
        # whole-sequence equality of two stored ordered sequences (tuple == tuple) is a length check and a pairwise comparison at once
        whole = [n for n in ast.walk(eq.node) if isinstance(n, ast.Compare) and len(n.ops) == 1 and isinstance(n.ops[0], (ast.Eq, ast.NotEq))
                 and isinstance(n.left, ast.Attribute) and isinstance(n.comparators[0], ast.Attribute) and n.left.attr == n.comparators[0].attr
                 and dotted(n.left.value) == "self" and isinstance(n.comparators[0].value, ast.Name) and n.comparators[0].value.id in eq.params and not zips
                 and "hash" not in n.left.attr.lower()]      # a stored hash value is not the sequence
        pairwise = False
        zip_names = set()
        for n in ast.walk(eq.node):
            if isinstance(n, (ast.comprehension, ast.For)) and isinstance(n.iter, ast.Call) and call_name(n.iter) == "zip":
                zip_names |= {x.id for x in ast.walk(n.target) if isinstance(x, ast.Name)}
        for n in ast.walk(eq.node):
            if isinstance(n, ast.Compare) and len(n.ops) == 1 and isinstance(n.ops[0], (ast.Eq, ast.NotEq)):
                l, r_ = n.left, n.comparators[0]
                lb = l.value if isinstance(l, ast.Attribute) else l
                rb = r_.value if isinstance(r_, ast.Attribute) else r_
                if isinstance(lb, ast.Name) and isinstance(rb, ast.Name) and lb.id in zip_names and rb.id in zip_names and lb.id != rb.id \
                        and (not isinstance(l, ast.Attribute) or (isinstance(r_, ast.Attribute) and l.attr == r_.attr)):
                    pairwise = True
        if whole:
            has_len, zips, pairwise = True, whole, True
        unordered = any(isinstance(n, ast.Call) and call_name(n) in ("set", "frozenset", "sorted") for n in ast.walk(eq.node)) or \
            any(isinstance(n, (ast.Set, ast.SetComp)) for n in ast.walk(eq.node))
        # attributes compared: if __eq__ compares stored attributes, look at how __init__ builds them
        init = prog.func("tdms_segment.ObjectListKey.__init__")
        for n in walk_body(init.node):
            if isinstance(n, ast.Assign) and isinstance(n.targets[0], ast.Attribute) and n.targets[0].attr != "_hash":
                if any(isinstance(x, ast.Call) and call_name(x) in ("set", "frozenset", "sorted") for x in ast.walk(n.value)) or \
                        any(isinstance(x, (ast.Set, ast.SetComp)) for x in ast.walk(n.value)):
                    unordered = True
        # all(map(operator.eq, xs, ys)) is the pairwise comparison too
        mapped = any(isinstance(n, ast.Call) and call_name(n) == "map" and len(n.args) == 3 and (dotted(n.args[0]) or "").split(".")[-1] == "eq" for n in ast.walk(eq.node))
        unordered = unordered or any(isinstance(x, ast.Call) and call_name(x) in ("set", "frozenset", "sorted") for x in ast.walk(eq.node)) or \
            any(isinstance(x, (ast.Set, ast.SetComp)) for x in ast.walk(eq.node))
        good = has_len and ((zips and pairwise) or mapped) and not unordered
        key_ = "tdms_segment.ObjectListKey.__eq__::ordered comparison"
        if good:
            R.ok(key_, eq.where(), "keys are equal only for lists of equal length with pairwise equal paths in the same order")
        elif unordered:
            R.violation(key_, eq.where(), "cache key equality goes through an order-insensitive container (set / frozenset / sorted): segments with the same objects in a "
                        "different order would share one path->position index")
        elif (zips and not pairwise) or (zips and not has_len):
            R.violation(key_, eq.where(), "cache key equality does not compare the object paths pairwise in list order (length check=%s, zip=%s, path==path=%s): "
                        "segments with different object lists would share one path->position index" % (bool(has_len), bool(zips), pairwise))
        elif any(isinstance(n, ast.Compare) and len(n.ops) == 1 and isinstance(n.ops[0], (ast.Eq, ast.NotEq)) and all(
                (isinstance(x, ast.Attribute) and "hash" in x.attr.lower()) or (isinstance(x, ast.Call) and call_name(x) == "hash") for x in (n.left, n.comparators[0]))
                for n in ast.walk(eq.node)) and not zips and not mapped:
            R.violation(key_, eq.where(), "cache key equality is decided by comparing hash values (and at most the lengths), not the object paths themselves: "
                        "two different object lists with the same hash - the stored hash combines the path hashes symmetrically, so any reordering of the same "
                        "paths - would share one path->position index")
        else:
            R.undecided(key_, eq.where(), "how the two object lists are compared was not recognised")
    # get_index builds the index by enumerate over the list it was given
    gi = prog.func("tdms_segment.SegmentIndexCache.get_index")
    enums = [n for n in ast.walk(gi.node) if isinstance(n, ast.Call) and call_name(n) == "enumerate" and n.args]
    direct = any(dotted(n.args[0]) == gi.params[1] for n in enums)
    wrapped = any(isinstance(n.args[0], ast.Call) and call_name(n.args[0]) in ("map", "iter", "list", "tuple") and
                  any(dotted(a) == gi.params[1] for a in n.args[0].args) for n in enums)
    reorder = any(isinstance(n, ast.Call) and call_name(n) in ("sorted", "set", "frozenset", "reversed") for n in ast.walk(gi.node))
    key_ = "tdms_segment.SegmentIndexCache.get_index::positions"
    if reorder:
        R.violation(key_, gi.where(), "the index is built from a reordered / de-duplicated view of the object list: positions no longer match the list")
    elif direct or wrapped:
        R.ok(key_, gi.where(), "index = position in the given list")
    else:
        R.undecided(key_, gi.where(), "how positions are assigned was not recognised (no enumerate over the given list)")


# ---------------------------------------------------------------------------
# HD1: has_data typestate per raw-data-index header kind

class HasDataInterp(FlowInterp):
    """Path-sensitive facts  name -> has_data in {True, False, None(unknown)}  and the
    'placed' object; states are frozensets of (name, value) pairs plus ('@hdr', kind) and
    ('@placed', name)."""

    def __init__(self, prog, fi, hdr_param, consts):
        super().__init__(prog)
        self.fi = fi
        self.hdr = hdr_param
        self.consts = consts     # constant name -> 'NO_DATA' | 'MATCHES'

    @staticmethod
    def get(st, k, default=None):
        for (a, b) in st:
            if a == k:
                return b
        return default

    @staticmethod
    def put(st, k, v):
        return frozenset([(a, b) for (a, b) in st if a != k] + [(k, v)])

    def resolve(self, c, env):
        return []

    def on_test(self, test, states, env):
        t_out, f_out = set(), set()
        for st in states:
            tv = self._eval(test, st)
            if tv is not False:
                t_out.add(self._refine(test, st, True))
            if tv is not True:
                f_out.add(self._refine(test, st, False))
        return frozenset(t_out), frozenset(f_out)

    def _eval(self, test, st):
        if isinstance(test, ast.UnaryOp) and isinstance(test.op, ast.Not):
            v = self._eval(test.operand, st)
            return None if v is None else (not v)
        if isinstance(test, ast.Attribute) and test.attr == "has_data" and isinstance(test.value, ast.Name):
            return self.get(st, test.value.id)
        if isinstance(test, ast.Compare) and len(test.ops) == 1 and isinstance(test.left, ast.Name) and test.left.id == self.hdr:
            c = dotted(test.comparators[0])
            kind = self.consts.get(c)
            cur = self.get(st, "@hdr")
            if kind is not None and cur is not None and isinstance(test.ops[0], (ast.Eq, ast.NotEq)):
                res = (cur == kind)
                return res if isinstance(test.ops[0], ast.Eq) else (not res)
        return None

    def _refine(self, test, st, outcome):
        if isinstance(test, ast.UnaryOp) and isinstance(test.op, ast.Not):
            return self._refine(test.operand, st, not outcome)
        if isinstance(test, ast.Attribute) and test.attr == "has_data" and isinstance(test.value, ast.Name):
            return self.put(st, test.value.id, outcome)
        return st

    def on_assign(self, s, states, env):
        out = set()
        for st in states:
            for t in s.targets:
                if isinstance(t, ast.Attribute) and t.attr == "has_data" and isinstance(t.value, ast.Name):
                    v = s.value.value if isinstance(s.value, ast.Constant) and isinstance(s.value.value, bool) else None
                    st = self.put(st, t.value.id, v)
                elif isinstance(t, ast.Name):
                    v = s.value
                    if isinstance(v, ast.Call) and call_name(v) in ("copy", "copy.copy") and v.args and isinstance(v.args[0], ast.Name):
                        st = self.put(st, t.id, self.get(st, v.args[0].id))
                    elif isinstance(v, ast.Name):
                        st = self.put(st, t.id, self.get(st, v.id))
                    elif isinstance(v, ast.Call) and (call_name(v) or "").endswith("_new_segment_object"):
                        st = self.put(st, t.id, False)      # BaseSegmentObject.__init__: has_data = False
                    elif isinstance(v, ast.Call):
                        st = self.put(st, t.id, None)
                elif isinstance(t, ast.Subscript) and dotted(t.value) == "self.ordered_objects" and isinstance(s.value, ast.Name):
                    st = self.put(st, "@placed", s.value.id)
            out.add(st)
        return frozenset(out)

    def on_call(self, c, states, env):
        if isinstance(c.func, ast.Attribute) and dotted(c.func.value) == "self.ordered_objects" and c.func.attr == "append" \
                and c.args and isinstance(c.args[0], ast.Name):
            return frozenset(self.put(st, "@placed", c.args[0].id) for st in states)
        return None


@rule("HD1", "whichever way an object's index is restated, the object left in the segment's list has the has_data the header demands", floor=6)
def hd1(ctx, R):
    """Abstract interpretation (sa/objinterp.py) of the two functions that restate an object's raw data index, for every header kind and
    both initial flags: paths are enumerated through helpers; objects are the incoming one, its copies and newly constructed ones; the
    object finally in the list must carry the flag the header demands, and the incoming (shared) object must not be modified."""
    from .objinterp import ObjInterp, Path, UNKNOWN
    prog = ctx.prog
    mod = prog.module("tdms_segment")
    consts = {}
    for name, kind in (("RAW_DATA_INDEX_NO_DATA", "NO_DATA"), ("RAW_DATA_INDEX_MATCHES_PREVIOUS", "MATCHES")):
        v = prog.try_fold(ast.Name(id=name, ctx=ast.Load()), mod, default=None)
        if v is None:
            raise AnchorMissing("tdms_segment.%s" % name)
        consts[v] = kind
    want = {"NO_DATA": False, "MATCHES": True, "NEW_INDEX": True}
    # the functions that restate the index of an object seen before, found by their shape: a parameter compared with the
    # RAW_DATA_INDEX_* constants and exactly one other parameter used as an object
    restaters = []
    for fi in sorted(prog.functions.values(), key=lambda f: f.qual):
        if fi.module is not mod:
            continue
        params = [p_ for p_ in fi.params if p_ != "self"]
        hdr = None
        for n in ast.walk(fi.node):
            if isinstance(n, ast.Compare) and len(n.ops) == 1:
                for a, b in ((n.left, n.comparators[0]), (n.comparators[0], n.left)):
                    if isinstance(a, ast.Name) and a.id in params and prog.try_fold(b, mod, default="?") in consts:
                        hdr = a.id
        if hdr is None:
            continue
        objs = [p_ for p_ in params if p_ != hdr and any(isinstance(n, ast.Attribute) and isinstance(n.ctx, ast.Load) and isinstance(n.value, ast.Name) and n.value.id == p_
                                                      and n.attr not in ("read", "seek", "tell") for n in ast.walk(fi.node))]
        # the object whose index is restated is the one whose has_data flag is consulted or that is copied
        flagged = [p_ for p_ in objs if any((isinstance(n, ast.Attribute) and n.attr == "has_data" and isinstance(n.value, ast.Name) and n.value.id == p_) or
                                            (isinstance(n, ast.Call) and call_name(n) in ("copy", "copy.copy") and n.args and isinstance(n.args[0], ast.Name)
                                             and n.args[0].id == p_) for n in ast.walk(fi.node))]
        if len(flagged) == 1:
            restaters.append((fi, params, hdr, flagged[0]))
    if not restaters:
        R.unrecognised("tdms_segment::restating an object's index", mod.relpath, "no function with a header parameter compared with RAW_DATA_INDEX_* and one "
                    "object parameter: how the index of an object seen before is restated was not recognised")
    for fi, params, hdr, obj_param in restaters:
        q = fi.qual
        returns_obj = any(isinstance(n, ast.Return) and n.value is not None for n in walk_body(fi.node))
        replaces = any(isinstance(n, ast.Subscript) and isinstance(n.ctx, ast.Store) and isinstance(n.value, ast.Attribute) and n.value.attr == "ordered_objects"
                       for n in ast.walk(fi.node))
        for kind in ("NO_DATA", "MATCHES", "NEW_INDEX"):
            for initial in (True, False):
                interp = ObjInterp(prog, mod, kind, consts)
                p0 = Path()
                p0.flags["IN"] = initial
                args = {p_: UNKNOWN for p_ in params}
                args[obj_param] = ("obj", "IN")
                args[hdr] = ("hdr",)
                key = "%s::header=%s, previous has_data=%s" % (q, kind, initial)
                try:
                    outs = interp.run(fi, fi.cls, args, p0)
                except RuntimeError as e:
                    R.undecided(key, fi.where(), "not analysed: %s" % e)
                    continue
                bad = None
                unknown = None
                for st in outs:
                    placed = st.placed
                    if placed is None and returns_obj and isinstance(st.ret, tuple) and st.ret and st.ret[0] == "obj":
                        placed = st.ret          # the function hands the object back; its caller puts it in the list
                    if placed is None:
                        if not replaces:
                            bad = "no object is appended to the segment's list on some path"
                            break
                        placed = ("obj", "IN")      # the object already in the list stays
                    if st.flags.get("IN") is not initial:
                        bad = "the incoming object, which earlier segments share, has its has_data changed in place (to %s)" % st.flags.get("IN")
                        break
                    if placed[0] != "obj":
                        unknown = "the value placed in the list is not understood%s" % ("; " + "; ".join(st.notes) if st.notes else "")
                        continue
                    val = st.flags.get(placed[1])
                    if val is None:
                        unknown = "has_data of the object left in the list is not determined%s" % ("; " + "; ".join(st.notes) if st.notes else "")
                    elif val is not want[kind]:
                        bad = "the object left in the list (%s) has has_data=%s but the header kind %s requires %s" % (
                            {"IN": "the incoming object itself"}.get(placed[1], "a %s" % placed[1].rstrip("0123456789")), val, kind, want[kind])
                        break
                if not outs:
                    bad = "no normal exit"
                if bad:
                    R.violation(key, fi.where(), bad + ": the segment would %s data for this channel" % ("miss" if want[kind] else "invent"))
                elif unknown:
                    R.undecided(key, fi.where(), unknown)
                else:
                    R.ok(key, fi.where(), "every path (%d) leaves an object with has_data=%s in the list" % (len(outs), want[kind]))


# ---------------------------------------------------------------------------

@rule("RJ1", "encodings the format forbids are rejected with an error", floor=4)
def rj1(ctx, R):
    from .sym import Sym, eval_cond, show, alpha
    from .sem import calls_to, find, W
    from .region import region, must_call_nodes, nodes_reaching
    prog = ctx.prog
    # (a) unseen object with 'matches previous' header: a raise guarded by header == RAW_DATA_INDEX_MATCHES_PREVIOUS that is
    #     reachable for an object that is not among the previous segment objects (helpers of read_segment_objects included)
    fi = prog.func("tdms_segment.TdmsSegment.read_segment_objects")
    mod = fi.module
    MP = prog.try_fold(ast.Name(id="RAW_DATA_INDEX_MATCHES_PREVIOUS", ctx=ast.Load()), mod, default=None)
    if MP is None:
        raise AnchorMissing("tdms_segment: RAW_DATA_INDEX_MATCHES_PREVIOUS")
    prev_param = ("param", [p for p in fi.params if p != "self"][1])

    def unseen_oracle(c):
        if isinstance(c, tuple) and len(c) == 4 and c[0] == "cmp" and c[1] == "in" and c[3] == prev_param:
            return False
        return None
    ok = False
    seen_any = False
    base = prog.cls("base_segment.BaseSegmentObject")
    ctor_quals = set()
    for k in prog.subclasses(base) + [base]:
        found = prog.lookup(k, "__init__")
        if found and found[0] == "method":
            ctor_quals.add(found[2].qual)
    from .region import call_reaches
    for g in region(ctx, fi, depth=3):
        sy = Sym(prog, g, g.cls, inline=False)
        # the branch that handles an object never seen before is the one that creates a new segment object
        creations = [c for c in walk_body(g.node) if isinstance(c, ast.Call) and call_reaches(ctx, g, c, ctor_quals)]
        # ... compared without the tests of the header itself (a raise moved in front of the creation leaves its negation there)
        cguards = [set(alpha(x) for x in sy.env_at(c)[1] if not find(x, ("const", MP))) for c in creations]
        for st in walk_body(g.node):
            if not isinstance(st, ast.Raise):
                continue
            _env, guards = sy.env_at(st)
            if not any(find(x, ("cmp", "==", W(), ("const", MP))) for x in guards):
                continue
            seen_any = True
            if not any(cg <= set(alpha(x) for x in guards) for cg in cguards):
                continue
            from .sem import call_chains
            for og, _b in call_chains(prog, fi, g):
                if not any(eval_cond(x, unseen_oracle) is False for x in og):
                    ok = True
    R.check(ok, "tdms_segment.TdmsSegment.read_segment_objects::unseen object with matches-previous header", fi.where(),
            "raises for an object that reuses an index that was never defined",
            ("a raise on `header == RAW_DATA_INDEX_MATCHES_PREVIOUS` exists but only for objects that were seen before" if seen_any else
             "no raise is guarded by `raw_data_index_header == RAW_DATA_INDEX_MATCHES_PREVIOUS`") + ": an index that was never defined would be read as data")
    # (b) metadata-less first segment
    # the function that lets a segment inherit its predecessor's object list, found by what it does:
    #     <self or parameter>.ordered_objects = <parameter>.ordered_objects
    rp = pp = None
    for f in sorted(prog.functions.values(), key=lambda f: f.qual):
        if f.module is not mod:
            continue
        sy_ = None
        for n in walk_body(f.node):
            if isinstance(n, ast.Assign) and any(isinstance(t, ast.Attribute) and t.attr == "ordered_objects" for t in n.targets) and rp is None:
                sy_ = sy_ or Sym(prog, f, f.cls, inline=False)
                env_, _g = sy_.env_at(n)
                v_ = sy_.expr(n.value, env_)
                if v_[0] == "attr" and v_[2] == "ordered_objects" and v_[1][0] == "param" and v_[1][1] != "self":
                    rp, pp = f, v_[1]
    if rp is None:
        raise AnchorMissing("tdms_segment: function that takes over the previous segment's ordered_objects")
    has = False
    for n in walk_body(rp.node):
        if isinstance(n, ast.Try):
            for h in n.handlers:
                if any(isinstance(x, ast.Raise) for s_ in h.body for x in ast.walk(s_)):
                    has = True

    def none_oracle(c):
        if c == ("cmp", "is", pp, ("const", None)):
            return True
        if c == pp:
            return False
        return None
    for guards, val, _e in Sym(prog, rp, rp.cls, inline=False).function_paths():
        if val is not None and val[0] == "raise" and not any(eval_cond(x, none_oracle) is False for x in guards) \
                and any(eval_cond(x, none_oracle) is True for x in guards):
            has = True
    R.check(has, "%s::no previous segment" % rp.qual, rp.where(),
            "raises when a segment without metadata has no predecessor", "a first segment without metadata is not rejected")
    cfg = ctx.cfg(fi)
    R.check(bool(nodes_reaching(ctx, fi, cfg, {rp.qual})), "tdms_segment.TdmsSegment.read_segment_objects::metadata-less segments reuse previous metadata", fi.where(),
            "delegates to %s" % rp.name, "metadata-less segments are not routed through %s" % rp.name)
    # (c) data type change: truth table over (a type was stored before?, same type?)
    # the function that updates a channel's recorded data type from a segment's object, found by what it does:
    #     <parameter>.data_type = <other parameter>.data_type
    cands = []
    for f in sorted(prog.functions.values(), key=lambda f: f.qual):
        if f.module.name != "reader":
            continue
        for n in walk_body(f.node):
            if isinstance(n, ast.Assign) and any(isinstance(t, ast.Attribute) and t.attr == "data_type" and isinstance(t.value, ast.Name)
                                                  and t.value.id in f.params and t.value.id not in ("self", "cls") for t in n.targets):
                cands.append(f)
                break
    if not cands:
        R.unrecognised("reader::type change rejected", prog.module("reader").relpath, "no function of nptdms.reader stores <parameter>.data_type: how a change of a "
                    "channel's data type between segments is handled was not recognised")
        return
    ut = cands[0]
    ps = ut.params
    refs = set()
    for n in ast.walk(ut.node):
        if isinstance(n, ast.Attribute) and n.attr == "data_type" and isinstance(n.value, ast.Name) and n.value.id in ps:
            refs.add(n.value.id)
    stored_p = None
    for n in walk_body(ut.node):
        if isinstance(n, ast.Assign):
            for t in n.targets:
                if isinstance(t, ast.Attribute) and t.attr == "data_type" and isinstance(t.value, ast.Name):
                    stored_p = t.value.id
    if stored_p is None or len(refs) < 2:
        raise AnchorMissing("%s: stored and new data type" % ut.qual)
    stored = ("attr", ("param", stored_p), "data_type")
    new = ("attr", ("param", [r for r in sorted(refs) if r != stored_p][0]), "data_type")
    paths = Sym(prog, ut, None, inline=False).function_paths()
    table = {}
    for was_none, same in ((True, False), (False, False), (False, True)):
        def orc(c, was_none=was_none, same=same):
            if c == ("cmp", "is", stored, ("const", None)):
                return was_none
            if c in (("cmp", "==", stored, new), ("cmp", "==", new, stored)):
                return same
            if c in (("cmp", "is", stored, new), ("cmp", "is", new, stored)):
                return same
            return None
        outs = set()
        for guards, val, _e in paths:
            if any(eval_cond(x, orc) is False for x in guards):
                continue
            outs.add("raise" if val is not None and val[0] == "raise" else "accept")
        table[(was_none, same)] = outs
    ok = table[(True, False)] == {"accept"} and table[(False, False)] == {"raise"} and table[(False, True)] == {"accept"}
    R.check(ok, "%s::type change rejected" % ut.qual, ut.where(),
            "raises when a channel's data type differs from the type seen before", "a channel changing data type is not rejected: first type %s, changed type %s, "
            "same type %s" % (sorted(table[(True, False)]), sorted(table[(False, False)]), sorted(table[(False, True)])))
    um = prog.func("reader.TdmsReader._update_object_metadata")
    cfg = ctx.cfg(um)
    loops = cfg.where(lambda n: n.kind == "for")
    if not loops:
        raise AnchorMissing("reader.TdmsReader._update_object_metadata: loop over the segment's objects")
    loop = loops[0]
    body_start = [m for m, k in loop.succ if k == "loop"]
    must = set(must_call_nodes(ctx, um, cfg, {ut.qual}))
    through = lambda n: n in must
    ok = all(cfg.always_passes(b, through, targets={loop, cfg.exit}, follow_exc=False)[0] or through(b) for b in body_start)
    R.check(ok, "reader.TdmsReader._update_object_metadata::type check for every object of every segment", um.where(),
            "every iteration over the segment's objects passes _update_object_data_type",
            "some object of a segment escapes the data type consistency check")


@rule("IN1", "a segment that declares a new object list inherits nothing from the previous segment's list or index", floor=2)
def in1(ctx, R):
    """Every place reached from read_segment_objects that reads the previous segment's ordered_objects or object_index (the copy
    that extends the list, the wholesale share of a segment without metadata, any short cut) is put under the conditions that lead
    to it (through the call chain, parameters replaced by the caller's arguments).  With kTocMetaData and kTocNewObjList taken as set
    and a previous segment present, one of those conditions must be false."""
    from .sym import Sym, eval_cond, show, alpha, collect
    from .sem import call_chains
    from .region import region
    prog = ctx.prog
    fi = prog.func("tdms_segment.TdmsSegment.read_segment_objects")
    prev = [p for p in fi.params if "previous_segment" == p or p.startswith("previous_segment") and "object" not in p]
    if not prev:
        raise AnchorMissing("tdms_segment.TdmsSegment.read_segment_objects: parameter holding the previous segment")
    PREV = ("param", prev[0])

    table = prog.try_fold(prog.module("common").assigns.get("toc_properties"), prog.module("common"), default=None) or {}

    def flag_test(c, name):
        # MASK & toc_properties[name], the flag looked up or through a named constant that folds to its value
        return isinstance(c, tuple) and len(c) == 3 and c[0] == "binop" and c[1] == "&" and any(
            isinstance(t, tuple) and ((len(t) == 3 and t[0] == "sub" and t[2] == ("const", name)) or
                                      (name in table and t == ("const", table[name]) and type(t[1]) is int)) for t in c[2])

    def orc(c):
        if flag_test(c, "kTocNewObjList") or flag_test(c, "kTocMetaData"):
            return True
        if c == PREV:
            return True
        if c in (("cmp", "is", PREV, ("const", None)), ("cmp", "==", PREV, ("const", None))):
            return False
        if isinstance(c, tuple) and len(c) == 4 and c[0] == "cmp" and c[1] in ("!=", "==") and c[3] == ("const", 0) and (
                flag_test(c[2], "kTocNewObjList") or flag_test(c[2], "kTocMetaData")):
            return c[1] == "!="
        return None
    n = 0
    for g in region(ctx, fi, depth=3):
        if g.module is not fi.module:
            continue
        chains = [((), {})] if g is fi else call_chains(prog, fi, g, inline=True)
        if not chains:
            continue
        sy = Sym(prog, g, g.cls)
        for outer, bound in chains:
            for node in walk_body(g.node):
                if not (isinstance(node, ast.Attribute) and node.attr in ("ordered_objects", "object_index") and isinstance(node.ctx, ast.Load)):
                    continue
                env, guards = sy.env_at(node, bound=bound)
                if sy.expr(node.value, env) != PREV:
                    continue
                n += 1
                gs = list(outer) + list(guards)
                key = "%s::previous_segment.%s" % (g.qual, node.attr)
                vals = [eval_cond(x, orc) for x in gs]
                if any(v is False for v in vals):
                    R.ok(key, g.where(node), "not reached when the segment has metadata and declares a new object list")
                else:
                    R.violation(key, g.where(node), "the previous segment's %s is taken over on a path that is open to a segment with metadata and kTocNewObjList "
                                "set (conditions: %s): such a segment must start from an empty object list, otherwise objects of the previous segment "
                                "(or their positions) leak into it" % (node.attr, "; ".join(show(alpha(x))[:60] for x in gs) or "none"))
    if n < 2:
        raise AnchorMissing("reads of the previous segment's ordered_objects / object_index reached from read_segment_objects (found %d)" % n)


@rule("IN2", "a flag that allows taking over the previous segment's path->position index is cleared by everything that appends to the object list", floor=0)
def in2(ctx, R):
    """Sharing `previous_segment.object_index` is right only if the object list was carried over and nothing was appended.  Where that is
    decided by a local flag ("no new objects"), every statement of the parser that appends to the list - directly, or through a method of
    the segment that appends - must set the flag in the same block; a branch that appends and forgets it leaves the new object without a
    position (it is then read as absent, or another object's data is read for it)."""
    from .sym import Sym, contains
    prog = ctx.prog
    fi = prog.func("tdms_segment.TdmsSegment.read_segment_objects")
    seg = fi.cls
    takeovers = [n for n in walk_body(fi.node) if isinstance(n, ast.Assign) and any(dotted(t) == "self.object_index" for t in n.targets)
                 and isinstance(n.value, ast.Attribute) and n.value.attr == "object_index" and dotted(n.value.value) not in (None, "self")]
    if not takeovers:
        R.ok("tdms_segment.TdmsSegment.read_segment_objects::no index taken over", fi.where(), "the path->position index is never taken over from another segment")
        return
    # methods of the segment that append to the list
    appenders = {m.name for m in seg.methods.values() if any(
        isinstance(c, ast.Call) and isinstance(c.func, ast.Attribute) and c.func.attr in ("append", "extend", "insert") and (dotted(c.func.value) or "").endswith("ordered_objects")
        for c in walk_body(m.node))}
    list_names = {"self.ordered_objects"} | {t.id for n in walk_body(fi.node) if isinstance(n, ast.Assign) and dotted(n.value) == "self.ordered_objects"
                                               for t in n.targets if isinstance(t, ast.Name)}

    def appends(st):
        for c in ast.walk(st):
            if isinstance(c, ast.Call) and isinstance(c.func, ast.Attribute):
                if c.func.attr in ("append", "extend", "insert") and dotted(c.func.value) in list_names:
                    return True
                if dotted(c.func.value) == "self" and c.func.attr in appenders:
                    return True
        return False
    sy = Sym(prog, fi, seg, inline=False)
    for tk in takeovers:
        _env, guards = sy.env_at(tk)
        # local flags in the guards: names assigned only boolean constants in this function
        flags = {}
        for n in walk_body(fi.node):
            if isinstance(n, ast.Assign) and len(n.targets) == 1 and isinstance(n.targets[0], ast.Name):
                nm = n.targets[0].id
                isb = isinstance(n.value, ast.Constant) and isinstance(n.value.value, bool)
                flags.setdefault(nm, []).append(n if isb else None)
        flags = {k: v for k, v in flags.items() if all(x is not None for x in v)}
        used = [k for k in flags if any(contains(g, lambda y, k=k: y == ("name", k) or y == ("local", k) or y == ("param", k)) for g in guards)] or \
               [k for k in flags if any(isinstance(x, ast.Name) and x.id == k for st in walk_body(fi.node) if isinstance(st, ast.If) and any(y is tk for y in ast.walk(st)) for x in ast.walk(st.test))]
        if not used:
            R.unrecognised("tdms_segment.TdmsSegment.read_segment_objects::index taken over", fi.where(tk), "the condition under which the previous segment's index is taken over is not a local flag: not decided here (see IN1)")
            continue
        for F in used:
            # the value the flag must have for the take-over: the one it is initialised with
            init_val = flags[F][0].value.value
            sets = [n for n in flags[F] if n.value.value != init_val]
            # every block (statement list) that holds an appending statement must also set the flag
            bad = []
            def visit(stmts):
                has_set = any(n in sets for n in stmts)
                for st in stmts:
                    simple = not isinstance(st, (ast.If, ast.For, ast.While, ast.Try, ast.With))
                    if simple and appends(st) and not has_set:
                        bad.append(st)
                    for fld in ("body", "orelse", "finalbody"):
                        sub = getattr(st, fld, None)
                        if isinstance(sub, list) and sub and isinstance(sub[0], ast.stmt):
                            visit(sub)
                    for h in getattr(st, "handlers", []) or []:
                        visit(h.body)
            visit(fi.node.body)
            key = "tdms_segment.TdmsSegment.read_segment_objects::flag %s" % F
            R.check(not bad, key, fi.where(bad[0]) if bad else fi.where(tk), "every statement that appends to the object list sets `%s`" % F,
                    "`%s` appends to the segment's object list without setting `%s`, the flag under which the previous segment's path->position index is taken over: "
                    "the appended object has no position in that index" % (unparse(bad[0])[:70] if bad else "", F))


@rule("PV1", "the map from a path to its most recent segment object is refreshed for every object of every segment", floor=1)
def pv1(ctx, R):
    """`raw data index same as previous` and `no data` headers after a new object list are resolved through a map path -> most
    recent segment object that the reader hands to the metadata parser.  Decided: either a loop over all objects of the parsed
    segment stores each of them on every path of its body, or, if the map is maintained inside the parser, every path through one
    round of the parser's object loop passes a store (an object that is put in the segment's list without being recorded leaves a
    stale index in the map)."""
    from .flow import resolve_call
    prog = ctx.prog
    rso = prog.func("tdms_segment.TdmsSegment.read_segment_objects")
    ps = [p for p in rso.params if p != "self"]
    if len(ps) < 2:
        raise AnchorMissing("tdms_segment.TdmsSegment.read_segment_objects(file, previous_segment_objects, ...)")
    pname = ps[1]
    # the reader's field that is handed in
    fields = set()
    ncalls = 0
    for f in prog.functions.values():
        if f.module.name != "reader":
            continue
        for c in walk_body(f.node):
            if isinstance(c, ast.Call) and any(t.qual == rso.qual for t, _k in resolve_call(prog, f, f.cls, c)):
                a = c.args[1] if len(c.args) > 1 else next((k.value for k in c.keywords if k.arg == pname), None)
                ncalls += 1
                if isinstance(a, ast.Name):
                    # a local that is bound once, to the field
                    binds = [n.value for n in walk_body(f.node) if isinstance(n, ast.Assign) and any(isinstance(t, ast.Name) and t.id == a.id for t in n.targets)]
                    a = binds[0] if len(binds) == 1 else a
                if a is not None and dotted(a) and dotted(a).startswith("self."):
                    fields.add(dotted(a))
    if not ncalls:
        raise AnchorMissing("reader: call of read_segment_objects")
    if not fields:
        R.unrecognised("reader::previous-objects map", rso.where(), "the map handed to the metadata parser is not a field of the reader")
        return
    F = sorted(fields)[0]

    def stores_into(f, name):
        return [n for n in walk_body(f.node) if isinstance(n, ast.Assign) and any(isinstance(t, ast.Subscript) and dotted(t.value) == name for t in n.targets)]
    # helpers of the reader that store on every path from entry to a normal return
    always = set()
    for f in prog.functions.values():
        if f.module.name == "reader" and stores_into(f, F):
            g = ctx.cfg(f)
            sn = set(g.where(lambda n: n.kind == "stmt" and n.ast in stores_into(f, F)))
            if g.exit not in g.reach([g.entry], avoid=lambda n: n in sn, follow_exc=False):
                always.add(f.qual)
    def storing_stmts(f, loop):
        out = [n for n in stores_into(f, F) if any(x is n for x in ast.walk(loop))]
        for stmt in ast.walk(loop):
            if isinstance(stmt, ast.Expr) and isinstance(stmt.value, ast.Call) and any(
                    t.qual in always and t.qual != f.qual for t, _k in resolve_call(prog, f, f.cls, stmt.value)):
                out.append(stmt)
        return out
    # (a) a complete refresh: loop over <segment>.ordered_objects whose every round stores the object
    complete = None
    for f in sorted(prog.functions.values(), key=lambda f: f.qual):
        if f.module.name != "reader":
            continue
        cfg = ctx.cfg(f)
        for loop in [n for n in walk_body(f.node) if isinstance(n, ast.For) and isinstance(n.iter, ast.Attribute) and n.iter.attr == "ordered_objects"]:
            st = storing_stmts(f, loop)
            heads = cfg.where(lambda n: n.kind == "for" and n.ast is loop)
            snodes = cfg.where(lambda n: n.kind == "stmt" and n.ast in st)
            ok = bool(st) and bool(heads)
            for h in heads:
                starts = [m for m, k in h.succ if k == "loop" and m not in snodes]
                r = cfg.reach(starts, avoid=lambda n: n in snodes, follow_exc=False) if starts else set()
                if h in r:
                    ok = False
            if ok:
                complete = (f, loop)
    key = "reader::%s refreshed for every object" % F
    if complete is not None:
        R.ok(key, complete[0].where(complete[1]), "every round of the loop over the segment's objects stores the object under its path")
        return
    # (b) maintained inside the parser: every round of its object loop must pass a store
    holders = [(f, stores_into(f, pname)) for f in prog.functions.values() if f.module is rso.module and pname in f.params and stores_into(f, pname)]
    if not holders:
        R.unrecognised(key, rso.where(), "neither a complete refresh loop in the reader nor stores inside the metadata parser were recognised")
        return
    cfg = ctx.cfg(rso)
    loops = [n for n in walk_body(rso.node) if isinstance(n, ast.For)]
    from .region import nodes_reaching
    hq = {f.qual for f, _s in holders if f is not rso}
    direct = [n for f, sts in holders if f is rso for n in sts]
    snodes = set(cfg.where(lambda n: n.kind == "stmt" and n.ast in direct)) | (set(nodes_reaching(ctx, rso, cfg, hq)) if hq else set())
    bad = None
    for loop in loops:
        if not any(n.ast is not None and any(x is n.ast for x in ast.walk(loop)) for n in snodes):
            continue
        for h in cfg.where(lambda n: n.kind == "for" and n.ast is loop):
            starts = [m for m, k in h.succ if k == "loop" and m not in snodes]
            r = cfg.reach(starts, avoid=lambda n: n in snodes, follow_exc=False) if starts else set()
            if h in r:
                bad = loop
    if bad is not None:
        R.violation(key, rso.where(bad), "the map of most recent segment objects is maintained inside the metadata parser, but a round of its object loop can end "
                    "without recording the object (e.g. an object of the carried-over list whose index is restated): later `same as previous` headers for "
                    "that path resolve to a stale index")
    else:
        R.ok(key, rso.where(), "every round of the parser's object loop records the object")


# ---------------------------------------------------------------------------
# OW3 scaling purity (C13)

@rule("EQ1", "a shortcut that treats two raw data indexes as the same compares every field an index carries", floor=0)
def eq1(ctx, R):
    """Segment objects are compared field by field in one place only when somebody wants to reuse the previous segment's object for a
    restated index.  Such a comparison (two or more `a.f == b.f` pairs over the same two objects, in the segment module) must cover
    every field that parsing a raw data index sets and the chunk layout depends on: the data type, the number of values and - for
    strings it is independent of the other two - the total size; and the has_data flag, which a "no data" header in between clears.
    On a tree without such a shortcut there is nothing to decide."""
    prog = ctx.prog
    mod = prog.module("tdms_segment")
    # the fields a parsed index sets: attributes stored on self by the method that stores self.data_size
    setters = [f for f in prog.functions.values() if f.module is mod and f.cls is not None and any(
        isinstance(n, ast.Assign) and any(isinstance(t, ast.Attribute) and dotted(t.value) == "self" and t.attr == "data_size" for t in n.targets)
        for n in walk_body(f.node))]
    fields = set()
    for f in setters:
        for n in walk_body(f.node):
            if isinstance(n, ast.Assign):
                for t in n.targets:
                    if isinstance(t, ast.Attribute) and dotted(t.value) == "self" and not t.attr.startswith("_"):
                        fields.add(t.attr)
    fields |= {"has_data"} if fields else set()
    n = 0
    for f in sorted(prog.functions.values(), key=lambda f: f.qual):
        if f.module is not mod:
            continue
        pairs = {}
        for c in walk_body(f.node):
            if isinstance(c, ast.Compare) and len(c.ops) == 1 and isinstance(c.ops[0], (ast.Eq, ast.NotEq)) and isinstance(c.left, ast.Attribute) \
                    and isinstance(c.comparators[0], ast.Attribute) and c.left.attr == c.comparators[0].attr \
                    and isinstance(c.left.value, ast.Name) and isinstance(c.comparators[0].value, ast.Name) and c.left.value.id != c.comparators[0].value.id:
                pairs.setdefault(frozenset((c.left.value.id, c.comparators[0].value.id)), set()).add(c.left.attr)
        for objs, attrs in pairs.items():
            if len(attrs) < 2 or not (attrs & fields):
                continue
            n += 1
            # a lone test of has_data of either object counts as covering it
            covers = set(attrs) | {x.attr for x in ast.walk(f.node) if isinstance(x, ast.Attribute) and x.attr == "has_data" and isinstance(x.value, ast.Name) and x.value.id in objs}
            missing = sorted((fields & {"data_type", "number_values", "data_size", "has_data"}) - covers)
            key = "%s::fields compared (%s)" % (f.qual, ", ".join(sorted(objs)))
            if missing:
                R.violation(key, f.where(), "two segment objects are taken for the same raw data index after comparing %s only; %s %s not compared: an index that "
                            "differs in it (a string channel with the same number of values and another total size; an object that a `no data` header "
                            "switched off in between) is answered with the previous object" % (sorted(attrs), ", ".join(missing), "is" if len(missing) == 1 else "are"))
            else:
                R.ok(key, f.where(), "compares %s" % sorted(covers & fields))
    if n == 0:
        R.note("no field-by-field comparison of two segment objects in nptdms.tdms_segment (nothing to decide)")


@rule("SF1", "a converting scale never hands its input back unchanged", floor=5)
def sf1(ctx, R):
    """Linear, Polynomial, RTD, Thermistor, Thermocouple, Table, Strain, Add and Subtract scales compute new values in the working type.
    A `scale` method of one of them that can return the very array it was given (an identity short cut for slope 1 / intercept 0,
    for an empty input, ...) returns data in the raw type - the declared dtype is wrong for that read and integer arithmetic of a
    following Add/Subtract wraps - and aliases the raw data.  Decided on the method's results in normal form: no result is the bare
    data parameter.  NoOpScaling (AdvancedAPI) is the one scale whose formula is the identity."""
    from .sym import Sym
    from .sem import leaves
    prog = ctx.prog
    smod = prog.module("scaling")
    n = 0
    for ci in sorted(prog.classes.values(), key=lambda c: c.qual):
        if ci.module is not smod or ci.name in ("NoOpScaling", "MultiScaling", "DaqMxScalerScaling"):
            continue
        f = ci.methods.get("scale")
        if f is None or len([p_ for p_ in f.params if p_ != "self"]) < 1:
            continue
        v = Sym(prog, f, ci).function_value()
        if v[0] in ("opaque", "loop", "mutated"):
            R.unrecognised("%s::result" % f.qual, f.where(), "results of the method are not in normal form")
            continue
        n += 1
        ps = [("param", p_) for p_ in f.params if p_ != "self"]
        back = [(conds, leaf) for conds, leaf in leaves(v) if leaf in ps]
        key = "%s::never the input itself" % f.qual
        if back:
            from .sym import show
            R.violation(key, f.where(), "`%s` is returned unchanged%s: the result keeps the raw dtype instead of the working type of the scale (channel.dtype "
                        "declares the latter; an Add/Subtract fed by it computes in the raw integer type) and shares storage with the raw data" % (
                            back[0][1][1], (" when " + "; ".join(show(c)[:50] for c in back[0][0])) if back[0][0] else ""))
        else:
            R.ok(key, f.where(), "every result is computed from the input, none is the input array itself")
    if n == 0:
        R.unrecognised("scaling::scale methods", smod.relpath, "no scale method of a converting scale class was recognised")


@rule("OW3", "scaling never modifies the data it is given (alias / in-place analysis of every scale method)", floor=14)
def ow3(ctx, R):
    prog = ctx.prog
    smod = prog.module("scaling")
    summaries = Summaries(prog, modules={"scaling", "thermocouples"})
    scale_funcs = []
    n_scaling_classes = 0
    for ci in prog.classes.values():
        if ci.module is not smod:
            continue
        has = False
        for name in ("scale", "scale_daqmx"):
            found = prog.lookup(ci, name)          # own or inherited (template method in a base class)
            if found and found[0] == "method":
                has = True
                if found[2] not in scale_funcs:
                    scale_funcs.append(found[2])
                # the hooks a template method calls on self are part of the scaling too
                for c_ in walk_body(found[2].node):
                    if isinstance(c_, ast.Call) and isinstance(c_.func, ast.Attribute) and dotted(c_.func.value) == "self":
                        h = prog.lookup(ci, c_.func.attr)
                        if h and h[0] == "method" and h[2] not in scale_funcs and h[2].module is smod:
                            scale_funcs.append(h[2])
        n_scaling_classes += 1 if has else 0
    if n_scaling_classes < 12:
        raise AnchorMissing("classes with a scale method in nptdms.scaling (found %d)" % n_scaling_classes)
    n_inplace = 0
    def is_mapping_local(g, name):
        """every definition of the local builds a dictionary or a set (never an array): {..}, dict(..), dict.fromkeys(..), defaultdict(..), set(..)"""
        defs = [n_.value for n_ in walk_body(g.node) if isinstance(n_, ast.Assign) and any(isinstance(t_, ast.Name) and t_.id == name for t_ in n_.targets)]
        def builds_mapping(v):
            if isinstance(v, (ast.Dict, ast.DictComp, ast.Set, ast.SetComp)):
                return True
            if isinstance(v, ast.Call):
                d_ = call_name(v) or (dotted(v.func) or "")
                return d_.split(".")[-1] in ("dict", "OrderedDict", "defaultdict", "set", "fromkeys", "Counter")
            return False
        return bool(defs) and all(builds_mapping(v) for v in defs)

    def bookkeeping_params(fi):
        """parameters of a hook that never carry data: every call in the module passes a fresh empty container (`{}`, `dict()`, `[]`,
        `set()`), None, or - inside the hook itself - the parameter on unchanged (a per-call memo / visited set handed down a recursion)"""
        from .flow import resolve_call
        out = set()
        ps_ = [p_ for p_ in fi.params if p_ not in ("self", "cls")]
        seen = {p_: [] for p_ in ps_}
        for g in prog.functions.values():
            if g.module is not smod:
                continue
            for c_ in walk_body(g.node):
                if isinstance(c_, ast.Call) and any(t_ is fi for t_, _k in resolve_call(prog, g, g.cls, c_)):
                    bound = dict(zip(ps_, c_.args))
                    bound.update({k_.arg: k_.value for k_ in c_.keywords if k_.arg})
                    for p_ in ps_:
                        a = bound.get(p_)
                        if a is None:
                            d_ = fi.defaults.get(p_) if hasattr(fi, "defaults") else None
                            seen[p_].append("fresh" if d_ is not None and isinstance(d_, ast.Constant) and d_.value is None else "other")
                        elif (isinstance(a, (ast.Dict, ast.List, ast.Set)) and not (getattr(a, "keys", None) or getattr(a, "elts", None))) or \
                                (isinstance(a, ast.Call) and call_name(a) in ("dict", "list", "set", "OrderedDict", "defaultdict") and not a.args) or \
                                (isinstance(a, ast.Constant) and a.value is None):
                            seen[p_].append("fresh")
                        elif isinstance(a, ast.Name) and a.id == p_ and g is fi:
                            seen[p_].append("same")
                        elif isinstance(a, ast.Name) and a.id not in g.params and is_mapping_local(g, a.id):
                            seen[p_].append("fresh")
                        else:
                            seen[p_].append("other")
        for p_, kinds_ in seen.items():
            if kinds_ and "fresh" in kinds_ and all(k_ in ("fresh", "same") for k_ in kinds_):
                out.add(p_)
        return out
    for fi in sorted(scale_funcs, key=lambda f: f.qual):
        protected = {p for p in fi.params if p != "self"}
        if fi.name not in ("scale", "scale_daqmx"):
            protected -= bookkeeping_params(fi)
        w = AliasWalker(prog, fi, protected, summaries=summaries).run()
        bad = [m for m in w.mutations if m.kind == ALIAS]
        unk = [m for m in w.mutations if m.kind == UNKNOWN and not m.name.startswith("self")]
        n_inplace += len(w.mutations)
        key = fi.qual
        if bad:
            for m in bad:
                R.violation("%s::%s" % (key, m.name), fi.where(m.node),
                            "%s modifies `%s`, which may share storage with the scale's input (the raw channel data when this is the "
                            "first scale): raw_data / read_data(scaled=False) change after scaling whenever no copy was made, e.g. when "
                            "the raw dtype already equals the working dtype" % (m.how, m.name))
        else:
            R.ok(key, fi.where(), "%d in-place operation(s), all on values allocated inside the method" % len(w.mutations))
        for m in unk:
            R.undecided("%s::%s" % (key, m.name), fi.where(m.node), "%s on `%s` of unknown provenance" % (m.how, m.name))
    # helpers reached with data-derived arguments
    for q in ("scaling._adjust_for_lead_resistance", "thermocouples.Thermocouple.celsius_to_mv", "thermocouples.Thermocouple.mv_to_celsius",
              "thermocouples.Polynomial.apply", "thermocouples.Range.within_range", "thermocouples.Polynomial.within_range"):
        fi = prog.func(q)
        protected = {p for p in fi.params if p != "self"}
        w = AliasWalker(prog, fi, protected, summaries=summaries).run()
        bad = [m for m in w.mutations if m.kind == ALIAS]
        if bad:
            R.violation(q, fi.where(bad[0].node), "%s modifies its argument `%s` in place; scale methods pass data-derived arrays here" % (bad[0].how, bad[0].name))
        else:
            R.ok(q, fi.where(), "does not modify its arguments")
    # MultiScaling hands the raw array itself to the first scale: purity of every scale is the whole protection
    from .rules_dispatch import find_scale_evaluator
    cs = find_scale_evaluator(ctx)
    raw_names = {p for p in cs.params if p != "self" and "raw" in p} or {"self." + n.attr for n in ast.walk(cs.node) if isinstance(n, ast.Attribute)
                                                                         and dotted(n.value) == "self" and "raw" in n.attr}
    w = AliasWalker(prog, cs, raw_names, summaries=summaries, elem_alias=True).run()
    bad = [m for m in w.mutations if m.kind == ALIAS]
    R.check(not bad, "scaling.MultiScaling._compute_scaled_data", cs.where(), "the evaluator itself performs no in-place operation on raw data",
            "the scale-graph evaluator modifies raw channel data in place (%s)" % (bad[0].how if bad else ""))
    R.note("in-place operations examined in scale methods: %d" % n_inplace)
    # positive control
    import ast as _ast
    from .core import Module, ClassInfo, FuncInfo
    src = "import numpy as np\nclass S:\n    def bad(self, data):\n        v = data.astype(np.double, copy=False)\n        v -= 1.0\n        return v\n" \
          "    def good(self, data):\n        v = data.astype(np.double)\n        v -= 1.0\n        return v\n"
    tree = _ast.parse(src)
    mod = Module("_ow3_control", "/dev/null/_ow3.py", src, tree)
    ci = ClassInfo(mod, tree.body[1])
    res = {}
    for sub in tree.body[1].body:
        f = FuncInfo(mod, sub, ci)
        ww = AliasWalker(prog, f, {"data"}).run()
        res[sub.name] = sum(1 for m in ww.mutations if m.kind == ALIAS)
    R.control("fixture astype(copy=False) + in-place flagged", res.get("bad", 0) == 1)
    R.control("fixture astype() copy + in-place silent", res.get("good", 1) == 0)
