"""Path-sensitive abstract interpretation of resource-handling methods with helper inlining.

State = frozenset of (key, value) pairs:
   ('null', 'self._file')      -> 'none' | 'notnone'
   ('alias', 'local name')     -> frozenset of handle names ('self._file', ...) the local may denote
   ('closed', 'self._file')    -> True      the handle's close() was called on this path
   ('deref-none', 'self._file')-> text      an attribute of a handle known to be None was used
   ('bool', 'local name')      -> True/False
Conditions are evaluated on their symbolic normal form (helpers such as `_is_closed()` are inlined by
sym.Sym), with an oracle built from the state.  Calls of package helpers are inlined by FlowInterp.
"""
import ast

from .core import call_name, dotted, unparse
from .flow import FlowInterp, resolve_call
from .sym import Sym, eval_cond


def sget(st, kind, name, default=None):
    for (k, n, v) in st:
        if k == kind and n == name:
            return v
    return default


def sput(st, kind, name, value):
    return frozenset([x for x in st if not (x[0] == kind and x[1] == name)] + [(kind, name, value)])


class ResInterp(FlowInterp):
    def __init__(self, prog, owner_cls, handles, modules=None, scenario=None, owner_fields=()):
        super().__init__(prog)
        self.owner_cls = owner_cls
        self.handles = set(handles)          # dotted names: self._file ...
        self.owner_fields = set(owner_fields)
        self.modules = modules or {owner_cls.module.name}
        self.scenario = scenario             # callable(canonical condition) -> True/False/None, decides input-dependent tests
        self.events = []

    # -- name translation through the parameter bindings of inlined helpers
    def tr(self, d, env):
        """translate a dotted name of the current activation into the names of the outermost activation"""
        if d is None:
            return None
        amap = env.get("amap") or {}
        head, _, rest = d.partition(".")
        if head in amap:
            base = amap[head]
            return base + ("." + rest if rest else "")
        return d

    def resolve(self, c, env):
        t = resolve_call(self.prog, env["fi"], env["self_cls"], c)
        return [(f, k) for (f, k) in t if f.module.name in self.modules and f.name not in ("__init__",)]

    def should_descend(self, callee, env):
        return True

    def bind(self, callee, call, env, self_cls):
        params = list(callee.params)
        if callee.cls is not None and not callee.is_static and params and params[0] in ("self", "cls"):
            params = params[1:]
        amap = {}
        if callee.cls is not None and not callee.is_static:
            amap["self"] = self.tr("self", env) if isinstance(call.func, ast.Attribute) and dotted(call.func.value) == "self" else "?obj"
        for p, a in zip(params, call.args):
            d = dotted(a)
            if d is not None:
                amap[p] = self.tr(d, env)
        for k in call.keywords:
            d = dotted(k.value)
            if k.arg and d is not None:
                amap[k.arg] = self.tr(d, env)
        # literal sequences handed to the helper (directly or through a local defined once): their elements in the caller's names
        lits = {}
        for p, a in list(zip(params, call.args)) + [(k.arg, k.value) for k in call.keywords if k.arg]:
            seq = self._literal_seq(a, env)
            if seq is not None:
                lits[p] = seq
        return {"amap": amap, "lits": lits}

    def _literal_seq(self, e, env):
        """elements of a literal tuple/list (given directly, through a local assigned once, or through a parameter bound to
        one), each translated to the outermost activation's names: [name | [names] | None]"""
        if isinstance(e, ast.Name):
            if e.id in (env.get("lits") or {}):
                return env["lits"][e.id]
            defs = [n for n in ast.walk(env["fi"].node) if isinstance(n, ast.Assign) and any(isinstance(t, ast.Name) and t.id == e.id for t in n.targets)]
            if len(defs) != 1:
                return None
            e = defs[0].value
        if not isinstance(e, (ast.Tuple, ast.List)):
            return None
        out = []
        for x in e.elts:
            if isinstance(x, (ast.Tuple, ast.List)):
                out.append([self.tr(dotted(y), env) if dotted(y) else None for y in x.elts])
            else:
                out.append(self.tr(dotted(x), env) if dotted(x) else None)
        return out

    def for_loop(self, s, states, env):
        """a loop over a literal sequence of names is unrolled: in each round the loop variables denote the element's names"""
        seq = self._literal_seq(self._unwrap_iter(s.iter), env) if not isinstance(self._unwrap_iter(s.iter), ast.Call) else None
        tnames = [t.id if isinstance(t, ast.Name) else None for t in s.target.elts] if isinstance(s.target, (ast.Tuple, ast.List)) else (
            [s.target.id] if isinstance(s.target, ast.Name) else None)
        if seq is None or tnames is None or None in tnames or s.iter is not self._unwrap_iter(s.iter):
            return super().for_loop(s, states, env)
        rounds = []
        for el in seq:
            el = el if isinstance(el, list) else [el]
            if len(el) != len(tnames) or any(x is None for x in el):
                return super().for_loop(s, states, env)
            rounds.append(dict(zip(tnames, el)))
        saved_amap = env.get("amap")
        exits = frozenset()
        for binding in rounds:
            env["amap"] = dict(saved_amap or {}, **binding)
            saved = (env["brk"], env["cont"])
            env["brk"], env["cont"] = set(), set()
            try:
                states = self.block(s.body, states, env) | frozenset(env["cont"])
                exits = exits | frozenset(env["brk"])
            finally:
                env["brk"], env["cont"] = saved
        env["amap"] = saved_amap
        if s.orelse:
            states = self.block(s.orelse, states, env)
        return states | exits

    def _opens(self, v, env, depth=0):
        """the call opens a file: builtin open(), or a package helper all of whose results are such calls"""
        if not isinstance(v, ast.Call):
            return False
        if call_name(v) == "open":
            return True
        if isinstance(v.func, ast.Attribute) and v.func.attr == "enter_context" and len(v.args) == 1 and not v.keywords:
            # contextlib.ExitStack: enter_context(cm) returns what cm.__enter__() returns; for a file, the file itself
            return self._opens(v.args[0], env, depth)
        if depth > 2:
            return False
        ts = resolve_call(self.prog, env["fi"], env["self_cls"], v)
        if not ts:
            return False
        for f, _k in ts:
            rets = [n for n in ast.walk(f.node) if isinstance(n, ast.Return)]
            if not rets or not all(r.value is not None and self._opens(r.value, dict(env, fi=f, self_cls=f.cls), depth + 1) for r in rets):
                return False
        return True

    # -- condition evaluation
    def _oracle(self, st, env):
        def nullness(x):
            """canonical value -> 'none'/'notnone'/None"""
            name = None
            if x[0] == "self":
                name = self.tr("self." + x[1], env)
            elif x[0] in ("param", "name", "unbound"):
                name = self.tr(x[1], env)
            elif x[0] == "const":
                return "none" if x[1] is None else "notnone"
            if name is None:
                return None
            return sget(st, "null", name)

        def oracle(c):
            if self.scenario is not None:
                r = self.scenario(c)
                if r is not None:
                    return r
            if isinstance(c, tuple) and c and c[0] == "cmp" and c[1] in ("is", "==") and c[3] == ("const", None):
                n = nullness(c[2])
                return None if n is None else (n == "none")
            if isinstance(c, tuple) and c and c[0] in ("self", "param", "name"):
                nm = self.tr(("self." + c[1]) if c[0] == "self" else c[1], env)
                b = sget(st, "bool", nm)
                if b is not None:
                    return b
                n = sget(st, "null", nm)
                if n == "none":
                    return False
            return None
        return oracle

    def _canon(self, test, env):
        fi = env["fi"]
        # environment of the locals defined by the top-level statements preceding the one that contains the test
        pre = []
        for s in fi.node.body:
            if any(x is test for x in ast.walk(s)):
                break
            pre.append(s)
        sy = Sym(self.prog, fi, env["self_cls"] or fi.cls)
        return sy.expr(test, sy.env_at_end(pre))

    def on_test(self, test, states, env):
        c = self._canon(test, env)
        t_out, f_out = set(), set()
        for st in states:
            v = eval_cond(c, self._oracle(st, env))
            if v is not False:
                t_out.add(st)
            if v is not True:
                f_out.add(st)
        return frozenset(t_out), frozenset(f_out)

    # -- effects
    def _handles_of(self, e, st, env):
        """handle names the expression may denote"""
        d = dotted(e)
        if d is not None:
            t = self.tr(d, env)
            if t in self.handles:
                return {t}
            al = sget(st, "alias", t)
            if al:
                return set(al)
        if isinstance(e, ast.IfExp):
            return self._handles_of(e.body, st, env) | self._handles_of(e.orelse, st, env)
        return set()

    def on_assign(self, s, states, env):
        out = set()
        for st in states:
            for t in s.targets:
                d = dotted(t)
                if d is None:
                    continue
                tn = self.tr(d, env)
                v = s.value
                if tn in self.handles or tn.startswith("self."):
                    if isinstance(v, ast.Constant) and v.value is None:
                        st = sput(st, "null", tn, "none")
                        st = frozenset(x for x in st if not (x[0] == "origin" and x[1] == tn))
                    elif self._opens(v, env):
                        st = sput(st, "null", tn, "notnone")
                        st = sput(st, "origin", tn, "open")
                    elif tn in self.handles and isinstance(v, ast.Name) and sget(st, "origin", self.tr(v.id, env)) == "open":
                        st = sput(st, "null", tn, "notnone")
                        st = sput(st, "origin", tn, "open")
                    elif tn in self.handles:
                        hs = self._handles_of(v, st, env)
                        st = sput(st, "null", tn, "notnone")
                        src = self.tr(dotted(v), env) if dotted(v) else unparse(v)[:40]
                        if isinstance(v, ast.Name) and sget(st, "wrap", self.tr(v.id, env)):
                            src = sget(st, "wrap", self.tr(v.id, env))          # the local was rebound to a new object built around it
                        st = sput(st, "origin", tn, "caller:%s" % src if not hs else "handle")
                    elif tn in self.owner_fields:
                        st = sput(st, "null", tn, "notnone")
                    elif isinstance(v, ast.Constant) and isinstance(v.value, bool):
                        st = frozenset(x for x in st if not (x[0] == "null" and x[1] == tn))
                        st = sput(st, "bool", tn, v.value)
                    else:
                        st = frozenset(x for x in st if not (x[0] in ("null", "bool") and x[1] == tn))
                elif isinstance(t, ast.Name):
                    hs = set()
                    if isinstance(v, ast.IfExp):
                        c = self._canon(v.test, env)
                        r = eval_cond(c, self._oracle(st, env))
                        if r is True:
                            hs = self._handles_of(v.body, st, env)
                        elif r is False:
                            hs = self._handles_of(v.orelse, st, env)
                        else:
                            hs = self._handles_of(v, st, env)
                    else:
                        hs = self._handles_of(v, st, env)
                    if hs:
                        st = sput(st, "alias", tn, frozenset(hs))
                    if self._opens(v, env):
                        st = sput(st, "origin", tn, "open")
                    elif isinstance(v, ast.Call) and any(isinstance(a, ast.Name) and a.id == t.id for a in v.args):
                        st = sput(st, "wrap", tn, unparse(v)[:60])              # x = Wrapper(x)
                    elif sget(st, "wrap", tn):
                        st = frozenset(x for x in st if not (x[0] == "wrap" and x[1] == tn))
                    if isinstance(v, ast.Constant) and isinstance(v.value, bool):
                        st = sput(st, "bool", tn, v.value)
                    elif isinstance(v, (ast.Compare, ast.BoolOp, ast.UnaryOp)):
                        r = eval_cond(self._canon(v, env), self._oracle(st, env))
                        if r is not None:
                            st = sput(st, "bool", tn, r)
                        else:
                            st = frozenset(x for x in st if not (x[0] == "bool" and x[1] == tn))
            out.add(st)
        return frozenset(out)

    def on_call(self, c, states, env):
        if isinstance(c.func, ast.Attribute):
            recv = c.func.value
            out = set()
            touched = False
            for st in states:
                hs = self._handles_of(recv, st, env)
                if hs:
                    touched = True
                    for h in hs:
                        if sget(st, "null", h) == "none":
                            st = sput(st, "deref-none", h, "%s @ %s" % (unparse(c)[:60], env["fi"].where(c)))
                        elif c.func.attr == "close":
                            st = sput(st, "closed", h, "%s @ %s" % (unparse(c)[:60], env["fi"].where(c)))
                out.add(st)
            if touched:
                return frozenset(out)
        return None

    def on_expr(self, e, states, env):
        if isinstance(e, ast.Attribute) and isinstance(e.ctx, ast.Load):
            out = set()
            for st in states:
                for h in self._handles_of(e.value, st, env):
                    if sget(st, "null", h) == "none":
                        st = sput(st, "deref-none", h, "%s @ %s" % (unparse(e)[:60], env["fi"].where(e)))
                out.add(st)
            return frozenset(out)
        return states


def initial_state(facts):
    return frozenset(("null", k, v) for k, v in facts.items())
