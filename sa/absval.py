"""Three-valued evaluation of branch conditions under a set of facts.

facts: dict mapping dotted names ('self._file', 'keep_open') to
  'none' | 'notnone' | True | False | int | str
eval_test returns True / False / None (unknown).
"""
import ast

from .core import dotted

NONE, NOTNONE = "none", "notnone"


def _val(expr, facts):
    """-> ('known', v) | ('nullness', 'none'|'notnone') | None"""
    if isinstance(expr, ast.Constant):
        return ("known", expr.value)
    d = dotted(expr)
    if d is not None and d in facts:
        f = facts[d]
        if f in (NONE, NOTNONE):
            return ("nullness", f)
        return ("known", f)
    return None


def eval_test(expr, facts):
    if isinstance(expr, ast.BoolOp):
        vals = [eval_test(v, facts) for v in expr.values]
        if isinstance(expr.op, ast.And):
            if any(v is False for v in vals):
                return False
            if all(v is True for v in vals):
                return True
            return None
        else:
            if any(v is True for v in vals):
                return True
            if all(v is False for v in vals):
                return False
            return None
    if isinstance(expr, ast.UnaryOp) and isinstance(expr.op, ast.Not):
        v = eval_test(expr.operand, facts)
        return None if v is None else (not v)
    if isinstance(expr, ast.Compare) and len(expr.ops) == 1:
        op = expr.ops[0]
        l, r = _val(expr.left, facts), _val(expr.comparators[0], facts)
        if isinstance(op, (ast.Is, ast.IsNot)):
            # X is None / X is not None
            res = None
            if r == ("known", None) and l is not None:
                if l[0] == "nullness":
                    res = (l[1] == NONE)
                else:
                    res = (l[1] is None)
            elif l == ("known", None) and r is not None:
                if r[0] == "nullness":
                    res = (r[1] == NONE)
                else:
                    res = (r[1] is None)
            if res is None:
                return None
            return res if isinstance(op, ast.Is) else (not res)
        if l is not None and r is not None and l[0] == "known" and r[0] == "known":
            try:
                if isinstance(op, ast.Eq):
                    return l[1] == r[1]
                if isinstance(op, ast.NotEq):
                    return l[1] != r[1]
                if isinstance(op, ast.Lt):
                    return l[1] < r[1]
                if isinstance(op, ast.LtE):
                    return l[1] <= r[1]
                if isinstance(op, ast.Gt):
                    return l[1] > r[1]
                if isinstance(op, ast.GtE):
                    return l[1] >= r[1]
            except TypeError:
                return None
        return None
    v = _val(expr, facts)
    if v is None:
        return None
    if v[0] == "nullness":
        return None if v[1] == NOTNONE else False   # None is falsy; a non-None object is usually truthy but not surely
    return bool(v[1])


def assume_from(facts):
    def assume(node):
        return eval_test(node.ast, facts)
    return assume


def eval_simple_function(prog, fi, facts, depth=0):
    """Abstractly run a small classifier function (if/elif/else with returns, conditional expressions)
    under `facts` about the dotted names it tests.  -> set of possible constant return values
    ('?' when a returned expression is not constant, None for falling off the end)."""
    import ast as _ast
    from .core import unparse
    out = set()

    def ret_values(e):
        if isinstance(e, _ast.IfExp):
            t = eval_test(e.test, facts)
            if t is True:
                return ret_values(e.body)
            if t is False:
                return ret_values(e.orelse)
            return ret_values(e.body) | ret_values(e.orelse)
        v = prog.try_fold(e, fi.module, default="?")
        return {v}

    def run(stmts):
        """returns True if control can fall through"""
        for s in stmts:
            if isinstance(s, _ast.Return):
                out.update(ret_values(s.value) if s.value is not None else {None})
                return False
            if isinstance(s, _ast.If):
                t = eval_test(s.test, facts)
                if t is True:
                    if not run(s.body):
                        return False
                elif t is False:
                    if not run(s.orelse):
                        return False
                else:
                    a = run(list(s.body))
                    b = run(list(s.orelse))
                    if not a and not b:
                        return False
            elif isinstance(s, (_ast.Expr, _ast.Pass, _ast.Assign)):
                continue
            elif isinstance(s, _ast.Raise):
                return False
            else:
                out.add("?")
        return True
    if run(fi.node.body):
        out.add(None)
    return out
